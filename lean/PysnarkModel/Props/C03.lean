import PysnarkModel.Lemmas.Sound
import PysnarkModel.Lemmas.InvGadgets
/-!
# C03 — assertions and declared types are enforced inside the circuit

For each assertion / declaration:
* `…_unsat`: ANY assignment satisfying the emitted constraints has operand evaluations for which
  the asserted relation holds (as a range statement in the field) — so the constraints are
  unsatisfiable whenever it is false, for every auxiliary witness choice;
* `C03_sat`: when the call is accepted (returns) with error checking on, the recorded witness
  satisfies what was emitted (instance of the invariant, C01);
* `…_runtime`: the relation the run-time check applies.

Two findings of the pinned tree were repaired by `fix:` commits and the model follows the repaired
code: `assert_positive(bits=n)` enforced the GLOBAL bitlength in-circuit while the run-time check
used `n` (C03-assert-positive-width); `assert_range(lo, hi)` rejected `value = hi` at run time but
accepted it in-circuit (C03-assert-range-upper).  Their former counterexamples are kept below as
regression witnesses with the opposite outcome.
-/
namespace Pysnark
variable {p : ℕ} [Fact p.Prime] {s s' : St} {w : Wire → Int} {u : Unit}

theorem C03_assertZero_unsat {x : LinComb} (hp : s.p = p) (hg : s.guard = none)
    (h : assertZero x s = .ok (u, s')) (hw : NewSat s s' w) : ev p w x.lc = 0 := assertZero_sound hp hg h hw

theorem C03_assertNonzero_unsat {x : LinComb} (hp : s.p = p) (hg : s.guard = none) (hone : s.one = oneSafe)
    (h : assertNonzero x s = .ok (u, s')) (h1 : w .one = 1) (hw : NewSat s s' w) : ev p w x.lc ≠ 0 :=
  assertNonzero_sound hp hg hone h h1 hw

theorem C03_assertEq_unsat {a b : LinComb} (hp : s.p = p) (hg : s.guard = none) (ha : a.lc.WF) (hb : b.lc.WF)
    (h : assertEq a b s = .ok (u, s')) (hw : NewSat s s' w) : ev p w a.lc = ev p w b.lc :=
  assertEq_sound hp hg ha hb h hw

theorem C03_assertNe_unsat {a b : LinComb} (hp : s.p = p) (hg : s.guard = none) (hone : s.one = oneSafe)
    (ha : a.lc.WF) (hb : b.lc.WF) (h : assertNe a b s = .ok (u, s')) (h1 : w .one = 1) (hw : NewSat s s' w) :
    ev p w a.lc ≠ ev p w b.lc := assertNe_sound hp hg hone ha hb h h1 hw

/-- `assert_lt`: satisfiable only if `b − a − 1 ∈ [0, 2^bitlength)`; likewise `le`, `gt`, `ge` -/
theorem C03_assertLt_unsat {a b : LinComb} (hp : s.p = p) (hg : s.guard = none) (ha : a.lc.WF) (hb : b.lc.WF)
    (h : assertLt a b s = .ok (u, s')) (h1 : w .one = 1) (hw : NewSat s s' w) :
    InRange p s.bitlength (ev p w b.lc - ev p w a.lc - 1) := assertLt_sound hp hg ha hb h h1 hw
theorem C03_assertLe_unsat {a b : LinComb} (hp : s.p = p) (hg : s.guard = none) (ha : a.lc.WF) (hb : b.lc.WF)
    (h : assertLe a b s = .ok (u, s')) (h1 : w .one = 1) (hw : NewSat s s' w) :
    InRange p s.bitlength (ev p w b.lc - ev p w a.lc) := assertLe_sound hp hg ha hb h h1 hw
theorem C03_assertGt_unsat {a b : LinComb} (hp : s.p = p) (hg : s.guard = none) (ha : a.lc.WF) (hb : b.lc.WF)
    (h : assertGt a b s = .ok (u, s')) (h1 : w .one = 1) (hw : NewSat s s' w) :
    InRange p s.bitlength (ev p w a.lc - ev p w b.lc - 1) := assertGt_sound hp hg ha hb h h1 hw
theorem C03_assertGe_unsat {a b : LinComb} (hp : s.p = p) (hg : s.guard = none) (ha : a.lc.WF) (hb : b.lc.WF)
    (h : assertGe a b s = .ok (u, s')) (h1 : w .one = 1) (hw : NewSat s s' w) :
    InRange p s.bitlength (ev p w a.lc - ev p w b.lc) := assertGe_sound hp hg ha hb h h1 hw

/-- declaration as boolean: the wire is forced to 0/1 -/
theorem C03_boolean_unsat {x r : LinComb} (hp : s.p = p) (hg : s.guard = none) (hx : x.lc.WF)
    (h : mkBool x true s = .ok (r, s')) (h1 : w .one = 1) (hw : NewSat s s' w) :
    ev p w x.lc = 0 ∨ ev p w x.lc = 1 := (mkBool_sound hp hg hx h h1 hw).2.2

/-- declaration as n-bit (`to_bits(n)`): the WIDTH ENFORCED IS THE REQUESTED ONE -/
theorem C03_toBits_width {x : LinComb} {bits : Option Nat} {bs : List LinComb} (hp : s.p = p)
    (hg : s.guard = none) (hx : x.lc.WF) (h : toBits x bits s = .ok (bs, s')) (h1 : w .one = 1)
    (hw : NewSat s s' w) :
    bs.length = bits.getD s.bitlength ∧ InRange p (bits.getD s.bitlength) (ev p w x.lc) := by
  obtain ⟨hl, S, hS, hSe, -⟩ := toBits_sound hp hg hx h h1 hw
  exact ⟨hl, S, hS, hSe⟩

/-- `assert_positive(bits)`: the width enforced in-circuit is the requested one — the same the
run-time check uses (finding C03-assert-positive-width, repaired: before, the circuit used the
global bitlength) -/
theorem C03_assertPositive_width {x : LinComb} {bits : Option Nat} (hp : s.p = p) (hg : s.guard = none)
    (hx : x.lc.WF) (h : assertPositive x bits s = .ok (u, s')) (h1 : w .one = 1) (hw : NewSat s s' w) :
    InRange p (bits.getD s.bitlength) (ev p w x.lc) := assertPositive_sound hp hg hx h h1 hw

/-- regression witness of the repaired finding: with bitlength 8, `PrivVal(5).assert_positive(bits=2)`
is rejected at run time, and with error checks off the emitted circuit (now 2 bits wide: 3
constraints) is NOT satisfied by the recorded witness -/
theorem C03_assert_positive_width_regression :
    let s0 : St := St.init 97 8 8
    (match (do let x ← privVal 5; assertPositive x (some 2)) s0 with | .error .assertion => true | _ => false) = true ∧
    (match (do let x ← privVal 5; assertPositive x (some 2)) { s0 with ignoreErrors := true } with
      | .ok (_, s1) => s1.cons.length == 3 && !(s1.cons.all (fun c =>
          (LC.eval s1.assign c.1 * LC.eval s1.assign c.2.1 - LC.eval s1.assign c.2.2) % 97 == 0))
      | _ => false) = true := by
  decide +kernel

/-- `assert_range(lo, hi)` in-circuit: `x − lo ≥ 0` and `hi − x − 1 ≥ 0`, i.e. the half-open range
the run-time check applies (finding C03-assert-range-upper, repaired: before, `x = hi` was accepted) -/
theorem C03_assertRange_unsat {x lo hi : LinComb} (hp : s.p = p) (hg : s.guard = none)
    (hx : x.lc.WF) (hlo : lo.lc.WF) (hhi : hi.lc.WF)
    (h : assertRange x lo hi s = .ok (u, s')) (h1 : w .one = 1) (hw : NewSat s s' w) :
    InRange p s.bitlength (ev p w x.lc - ev p w lo.lc) ∧ InRange p s.bitlength (ev p w hi.lc - ev p w x.lc - 1) :=
  assertRange_sound hp hg hx hlo hhi h h1 hw

theorem C03_assert_range_upper_regression :
    let s0 : St := St.init 97 4 8
    (match (do let x ← privVal 2; assertRange x (LinComb.const 1) (LinComb.const 2)) s0 with
      | .error .assertion => true | _ => false) = true ∧
    (match (do let x ← privVal 2; assertRange x (LinComb.const 1) (LinComb.const 2)) { s0 with ignoreErrors := true } with
      | .ok (_, s1) => !(s1.cons.all (fun c =>
          (LC.eval s1.assign c.1 * LC.eval s1.assign c.2.1 - LC.eval s1.assign c.2.2) % 97 == 0))
      | _ => false) = true := by
  decide +kernel

/-- the run-time checks: exactly the integer relations, at the global bitlength for the range part -/
theorem C03_runtime_relations (a b : LinComb) (s : St) (hi : s.ignoreErrors = false) :
    (a.value ≥ b.value → assertLt a b s = .error .assertion) ∧
    (a.value > b.value → assertLe a b s = .error .assertion) ∧
    (a.value ≠ b.value → assertEq a b s = .error .assertion) ∧
    (a.value = b.value → assertNe a b s = .error .assertion) ∧
    (a.value ≤ b.value → assertGt a b s = .error .assertion) ∧
    (a.value < b.value → assertGe a b s = .error .assertion) ∧
    (a.value ≠ 0 → assertZero a s = .error .assertion) := by
  refine ⟨?_, ?_, ?_, ?_, ?_, ?_, ?_⟩ <;> intro h
  · unfold assertLt; simp [hi, h]
  · unfold assertLe; simp [hi, h]
  · unfold assertEq; simp [hi, h]
  · unfold assertNe; simp [hi, h]
  · unfold assertGt; simp [hi, h]
  · unfold assertGe; simp [hi, h]
  · unfold assertZero; simp [hi, h]

/-- satisfiable whenever true and accepted: an accepted assertion keeps the invariant, i.e. the
recorded witness satisfies everything emitted (any guard state) -/
theorem C03_sat {s s' : St} {a b : LinComb} {u : Unit} (hinv : Inv s) (ha : Good s a) (hb : Good s b)
    (h : assertLt a b s = .ok (u, s')) : Inv s' := (assertLt_spec hinv ha hb h).2.2

/-! non-vacuity -/
example : (match (do let x ← privVal 3; let y ← privVal 5; assertLt x y) (St.init 97 4 8) with
    | .ok (_, s1) => s1.cons.length == 5 | _ => false) = true := by decide +kernel

end Pysnark
