import PysnarkModel.Lemmas.InvRun
import PysnarkModel.Lemmas.CohRun
/-!
# C04 — every reported value equals its wire expression on the recorded witness

`Coh s x` : `(x.value − eval s.assign x.lc) % s.p = 0`.  Every register of the program language
holds every intermediate and final value, so "all registers, at the end of the run" covers every
secret-typed object the library returned at any point (coherence is monotone along the run:
`Good.mono`).  Lists, tuples and arrays are covered element-wise (`GoodV`).
-/
namespace Pysnark

def C04_full : Prop :=
  ∀ (p : Nat), p.Prime → ∀ (bl res : Nat) (prog : List Instr),
    (∀ w, Instr.lit w ∈ prog → w.noSecret = true) →
    ∀ out, run (St.init p bl res) prog = out → out.err = none → ∀ v ∈ out.regs, GoodV out.st v

/-- **C04 at full strength**: every program of the instruction language — guarded regions nested
to any depth with either guard value, `/` anywhere, and BOTH error modes (`set ign` is allowed:
user-selected ignore-errors mode, in which even the guard may be a non-bit) — every prime, every
bitlength and resolution.  Proof: `run_coh` (Lemmas/CohRun.lean), over the weak invariant `Wk`
("`LinComb.ONE` and the guard are coherent"); every result of the library is a fresh wire, a
linear combination of coherent operands, `ONE`, or — the one arm with content — `LinComb / int`,
whose error-suppressed branch returns `value·c⁻¹ mod p` with wire expression `lc·c⁻¹` since the
repair recorded as C04-div-const. -/
theorem C04 : C04_full := fun p hp bl res prog hlit out hout _ => by
  subst hout
  exact run_coh_plain p hp bl res prog hlit

/-- Stronger than the property asks: no assumption that the run completes (when it raises, the
registers computed before the failing instruction are coherent in the reported state) -/
theorem C04_any (p : Nat) (hp : p.Prime) (bl res : Nat) (prog : List Instr)
    (hlit : ∀ w, Instr.lit w ∈ prog → w.noSecret = true) :
    ∀ v ∈ (run (St.init p bl res) prog).regs, GoodV (run (St.init p bl res) prog).st v :=
  run_coh_plain p hp bl res prog hlit

/-- the first form of the theorem (for `Fragment`), now a corollary -/
theorem C04_partial (p : Nat) (hp : p.Prime) (bl res : Nat) (prog : List Instr) (_hfrag : Fragment prog)
    (hlit : ∀ w, Instr.lit w ∈ prog → w.noSecret = true)
    (out : Out) (hout : run (St.init p bl res) prog = out) (herr : out.err = none) :
    ∀ v ∈ out.regs, GoodV out.st v :=
  C04 p hp bl res prog hlit out hout herr

/-- the linear arithmetic keeps value and wire expression in step in EVERY mode (no hypothesis on
guards or error suppression): `+`, `-`, unary `-`, `* int`, constants, the in-place `value %= p` -/
theorem C04_linear {s : St} {a b : LinComb} (ha : Good s a) (hb : Good s b) (c : Int) :
    Good s (a.add b) ∧ Good s (a.sub b) ∧ Good s a.neg ∧ Good s (a.mulI c) ∧ Good s (a.addI c) ∧
    Good s (a.rsubI c) ∧ Good s (LinComb.const c) ∧ Good s (reduceValue a s.p) :=
  ⟨ha.add hb, ha.sub hb, ha.neg, ha.mulI c, ha.addI c, ha.rsubI c, Good.const s c, ha.reduceValue⟩

/-- coherence, once established, survives everything that happens later -/
theorem C04_monotone {s s' : St} (h : s.le s') {x : LinComb} (hx : Good s x) : Good s' x := hx.mono h

/-- `LinComb / int` is coherent on both arms, whatever the mode and the guards (the arm that was
finding C04-div-const before the repair) -/
theorem C04_div_const {s s' : St} {a r : LinComb} {c : Int} (hs : Wk s) (hP : PrimeP s) (ha : Good s a)
    (h : truedivLI a c s = .ok (r, s')) : Good s' r :=
  (W.truedivLI_spec hs hP ha h).2.2.2

/-- the hypothesis on literals cannot be dropped (a literal could smuggle in an incoherent object) -/
theorem C04_needs_plain_literals :
    ¬ (∀ (p : Nat) (_ : p.Prime) (bl res : Nat) (prog : List Instr)
      (out : Out) (_ : run (St.init p bl res) prog = out) (_ : out.err = none),
      ∀ v ∈ out.regs, GoodV out.st v) := by
  intro hall
  have hregs := hall 3 (by norm_num) 16 8 [Instr.lit (.lc ⟨1, []⟩)] _ rfl rfl
  have hg := hregs (.lc ⟨1, []⟩) (by simp [run, runAux, step, pure, M.pure])
  rw [GoodV_lc] at hg
  have hc := hg.2
  simp [Coh, LC.eval, run, runAux, step, pure, M.pure, St.init] at hc

/-! non-vacuity: under a false guard the comparison of out-of-range values takes the
error-suppressed arm; all 12 registers are coherent at the end -/
def exProg04 : List Instr :=
  [.lit (.int 300), .mk .priv 0, .lit (.int (-7)), .mk .priv 2, .lit (.int 0), .mk .priv 4, .genter 5,
   .bin .lt 1 3, .bin .mul 1 3, .call .assertEq 1 [3], .gleave, .bin .add 8 1]

example : Fragment exProg04 ∧ (run (St.init 97 8 8) exProg04).err = none ∧
    (run (St.init 97 8 8) exProg04).regs.length = 12 := by
  refine ⟨⟨by decide, by decide, fun _ => by decide⟩, by decide +kernel, by decide +kernel⟩

/-! non-vacuity for nesting: outer guard 1, inner guard 0, two deep; in the inner body `7 / 2` (not a
multiple: error-suppressed arm) and `7 / y` by a `LinComb`; in the outer body an exact `/`.  Register
9 holds value 52 = 7·2⁻¹ mod 97 with wire expression 49·x, register 11 the fresh wire with value 0. -/
def exProg04n : List Instr :=
  [.lit (.int 7), .mk .priv 0, .lit (.int 1), .mk .privb 2, .lit (.int 0), .mk .privb 4,
   .genter 3, .genter 5, .lit (.int 2), .bin .truediv 1 8, .mk .priv 8, .bin .truediv 1 10,
   .call .assertLt 1 [10], .gleave, .bin .truediv 1 1, .call .assertEq 14 [2], .gleave,
   .bin .add 9 11, .call .val 14 []]

example : ¬ Fragment exProg04n ∧ (run (St.init 97 8 8) exProg04n).err = none ∧
    (run (St.init 97 8 8) exProg04n).regs.length = 19 ∧
    (match (run (St.init 97 8 8) exProg04n).regs[17]? with
      | some (Val.lc x) => x == ⟨52, [(Wire.priv 0, 49), (Wire.priv 46, 1)]⟩
      | _ => false) = true := by
  refine ⟨fun h => by have := h.2.1; revert this; decide, by kdec, by kdec, by kdec⟩

/-! non-vacuity for user-selected ignore-errors mode: `set ign`, then a region guarded by a wire of
value 5 (accepted in that mode), inside it a region guarded by 0, `7 / 2` in both bodies and an
out-of-range comparison; mode switched back at the end.  17 registers, 64 constraints. -/
def exProg04i : List Instr :=
  [.setIgn true, .lit (.int 7), .mk .priv 1, .lit (.int 5), .mk .priv 3, .genter 4, .lit (.int 0), .mk .priv 6,
   .genter 7, .lit (.int 2), .bin .truediv 2 9, .bin .lt 2 4, .gleave, .bin .truediv 2 9, .gleave, .setIgn false,
   .bin .add 10 13]

example : ¬ NoSetIgn exProg04i ∧ (run (St.init 97 8 8) exProg04i).err = none ∧
    (run (St.init 97 8 8) exProg04i).regs.length = 17 ∧
    (match (run (St.init 97 8 8) exProg04i).regs[16]? with
      | some (Val.lc x) => x == ⟨104, [(Wire.priv 0, 98)]⟩
      | _ => false) = true := by
  refine ⟨fun h => by have := h _ (List.mem_cons_self ..); revert this; decide, by kdec, by kdec, by kdec⟩

end Pysnark
