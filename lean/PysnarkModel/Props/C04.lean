import PysnarkModel.Lemmas.InvRun
/-!
# C04 — every reported value equals its wire expression on the recorded witness

`Coh s x` : `(x.value − eval s.assign x.lc) % s.p = 0`.  Every register of the program language
holds every intermediate and final value, so "all registers, at the end of the run" covers every
secret-typed object the library returned at any point (coherence is monotone along the run:
`Good.mono`).  Lists, tuples and arrays are covered element-wise (`GoodV`).
-/
namespace Pysnark

def C04_full : Prop :=
  ∀ (p : Nat), p.Prime → ∀ (bl res : Nat) (prog : List Instr),
    (∀ w, Instr.lit w ∈ prog → w.noSecret = true) →
    ∀ out, run (St.init p bl res) prog = out → out.err = none → ∀ v ∈ out.regs, GoodV out.st v

/-- proved for `Fragment`, which includes guarded regions with a false guard (where error
suppression is on internally).  Not covered by a theorem: user-selected ignore-errors mode
(`set ign`), nested guarded regions, and `/` in programs with a guarded region — these are covered
by the correspondence run and the direct oracle only.  (Before the repair recorded as
C04-div-const the last exclusion was a genuine counterexample.) -/
theorem C04_partial (p : Nat) (hp : p.Prime) (bl res : Nat) (prog : List Instr) (hfrag : Fragment prog)
    (hlit : ∀ w, Instr.lit w ∈ prog → w.noSecret = true)
    (out : Out) (hout : run (St.init p bl res) prog = out) (herr : out.err = none) :
    ∀ v ∈ out.regs, GoodV out.st v :=
  (run_inv_plain p hp bl res prog hfrag hlit out hout herr).2

/-- the linear arithmetic keeps value and wire expression in step in EVERY mode (no hypothesis on
guards or error suppression): `+`, `-`, unary `-`, `* int`, constants, the in-place `value %= p` -/
theorem C04_linear {s : St} {a b : LinComb} (ha : Good s a) (hb : Good s b) (c : Int) :
    Good s (a.add b) ∧ Good s (a.sub b) ∧ Good s a.neg ∧ Good s (a.mulI c) ∧ Good s (a.addI c) ∧
    Good s (a.rsubI c) ∧ Good s (LinComb.const c) ∧ Good s (reduceValue a s.p) :=
  ⟨ha.add hb, ha.sub hb, ha.neg, ha.mulI c, ha.addI c, ha.rsubI c, Good.const s c, ha.reduceValue⟩

/-- coherence, once established, survives everything that happens later -/
theorem C04_monotone {s s' : St} (h : s.le s') {x : LinComb} (hx : Good s x) : Good s' x := hx.mono h

/-! non-vacuity: under a false guard the comparison of out-of-range values takes the
error-suppressed arm; all 12 registers are coherent at the end -/
def exProg04 : List Instr :=
  [.lit (.int 300), .mk .priv 0, .lit (.int (-7)), .mk .priv 2, .lit (.int 0), .mk .priv 4, .genter 5,
   .bin .lt 1 3, .bin .mul 1 3, .call .assertEq 1 [3], .gleave, .bin .add 8 1]

example : Fragment exProg04 ∧ (run (St.init 97 8 8) exProg04).err = none ∧
    (run (St.init 97 8 8) exProg04).regs.length = 12 := by
  refine ⟨⟨by decide, by decide, fun _ => by decide⟩, by decide +kernel, by decide +kernel⟩

end Pysnark
