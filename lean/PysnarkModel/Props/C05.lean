import PysnarkModel.Lemmas.Values
import PysnarkModel.Lemmas.ValuesDispatch
import PysnarkModel.Spec.R1CS
/-!
# C05 — traced arithmetic agrees with Python semantics, or raises

For every typed gadget `g` of `Model/Gadgets.lean`: if `g a b s = .ok (r, s')` then `r.value` is
the value that the same expression has on the plain Python integers `a.value`, `b.value`
(`C05_<op>_agrees`).  The hypotheses are: error checking has not been switched off
(`s.ignoreErrors = false`) and, where the code consults `is_guard()`, no guard is active
(`s.guard = none`).  No invariant hypothesis is needed.  `C05_<op>_total` says when the gadget does
not raise.  `C05_cex_*` are the recorded deviations of the code from Python, evaluated on the
executable model.

Python's `//` and `%` are `Int.fdiv` and `Int.fmod` (`Py.floordiv`, `Py.mod`), `>>` on a
non-negative count is `Int.shiftRight`, `&`, `|`, `^` on non-negative operands are
`Nat.land/lor/xor`.
-/
namespace Pysnark

section agrees
variable {s s' : St} {a b c t f r : LinComb} {k : Int}

/-! ### ring operations -/
theorem C05_linear_agrees :
    (a.add b).value = a.value + b.value ∧ (a.sub b).value = a.value - b.value ∧
    a.neg.value = -a.value ∧ (a.mulI k).value = a.value * k ∧ (a.addI k).value = a.value + k ∧
    (a.subI k).value = a.value - k ∧ (a.rsubI k).value = k - a.value ∧ (LinComb.const k).value = k :=
  ⟨rfl, sub_value a b, rfl, rfl, rfl, subI_value a k, rsubI_value a k, rfl⟩

theorem C05_mul_agrees (h : mulLL a b s = .ok (r, s')) : r.value = a.value * b.value :=
  (mulLL_val h).2

theorem C05_mul_total : ∃ r s', mulLL a b s = .ok (r, s') := mulLL_total a b s

/-! ### comparisons, as 0/1 -/
theorem C05_eq_agrees (h : eqLL a b s = .ok (r, s')) : r.value = if a.value = b.value then 1 else 0 :=
  (eqLL_val h).2
theorem C05_ne_agrees (h : neLL a b s = .ok (r, s')) : r.value = if a.value ≠ b.value then 1 else 0 := by
  rw [(neLL_val h).2]; split <;> simp_all
theorem C05_eq_const_agrees (h : eqLI a k s = .ok (r, s')) : r.value = if a.value = k then 1 else 0 :=
  (eqLI_val h).2
theorem C05_ne_const_agrees (h : neLI a k s = .ok (r, s')) : r.value = if a.value ≠ k then 1 else 0 := by
  rw [(neLI_val h).2]; split <;> simp_all
theorem C05_check_zero_agrees (h : checkZero a s = .ok (r, s')) : r.value = if a.value = 0 then 1 else 0 :=
  (checkZero_val h).2
theorem C05_check_nonzero_agrees (h : checkNonzero a s = .ok (r, s')) :
    r.value = if a.value ≠ 0 then 1 else 0 := by
  rw [(checkNonzero_val h).2]; split <;> simp_all

theorem C05_lt_agrees (hp : Plain s) (h : ltLL a b s = .ok (r, s')) :
    r.value = if a.value < b.value then 1 else 0 := (ltLL_val hp.guard hp.ign h).2
theorem C05_le_agrees (hp : Plain s) (h : leLL a b s = .ok (r, s')) :
    r.value = if a.value ≤ b.value then 1 else 0 := (leLL_val hp.guard hp.ign h).2
theorem C05_gt_agrees (hp : Plain s) (h : gtLL a b s = .ok (r, s')) :
    r.value = if a.value > b.value then 1 else 0 := (gtLL_val hp.guard hp.ign h).2
theorem C05_ge_agrees (hp : Plain s) (h : geLL a b s = .ok (r, s')) :
    r.value = if a.value ≥ b.value then 1 else 0 := (geLL_val hp.guard hp.ign h).2
theorem C05_lt_const_agrees (hp : Plain s) (h : ltLI a k s = .ok (r, s')) :
    r.value = if a.value < k then 1 else 0 := (ltLI_val hp.guard hp.ign h).2
theorem C05_le_const_agrees (hp : Plain s) (h : leLI a k s = .ok (r, s')) :
    r.value = if a.value ≤ k then 1 else 0 := (leLI_val hp.guard hp.ign h).2
theorem C05_gt_const_agrees (hp : Plain s) (h : gtLI a k s = .ok (r, s')) :
    r.value = if a.value > k then 1 else 0 := (gtLI_val hp.guard hp.ign h).2
theorem C05_ge_const_agrees (hp : Plain s) (h : geLI a k s = .ok (r, s')) :
    r.value = if a.value ≥ k then 1 else 0 := (geLI_val hp.guard hp.ign h).2
theorem C05_check_positive_agrees {bits : Option Nat} (hp : Plain s)
    (h : checkPositive a bits s = .ok (r, s')) : r.value = if a.value ≥ 0 then 1 else 0 :=
  (checkPositive_val hp.guard hp.ign h).2.1

/-- `check_zero` raises only when the field inverse does, i.e. (for a prime modulus) only for a
non-zero multiple of the modulus -/
theorem C05_check_zero_total :
    (∃ r s', checkZero a s = .ok (r, s')) ↔
      (Py.invert (a.value + (if a.value == 0 then 1 else 0)) s.p).isSome := checkZero_ok_iff

/-- over a prime field: `check_zero` (hence `==`, `!=`) raises exactly for a non-zero multiple of
the modulus — outside the documented domain `|x| < 2^bitlength < p` -/
theorem C05_check_zero_total_prime (hP : PrimeP s) :
    (∃ r s', checkZero a s = .ok (r, s')) ↔ ¬ (a.value ≠ 0 ∧ a.value % s.p = 0) :=
  checkZero_ok_iff_prime hP

/-- `check_positive` is total exactly on the documented domain `|x| < 2^bitlength` -/
theorem C05_check_positive_total {bits : Option Nat} (hp : Plain s) :
    (∃ r s', checkPositive a bits s = .ok (r, s')) ↔ Py.bitLength a.value ≤ bits.getD s.bitlength :=
  checkPositive_ok_iff hp.guard hp.ign

theorem C05_lt_total (hp : Plain s) (hb : Py.bitLength (b.value - a.value - 1) ≤ s.bitlength) :
    ∃ r s', ltLL a b s = .ok (r, s') := ltLL_total hp.guard hb

/-! ### division -/
/-- `/` (exact division): returns the quotient when the division is exact, raises otherwise -/
theorem C05_truediv_agrees (hp : Plain s) (h : truedivLL a b s = .ok (r, s')) :
    b.value ≠ 0 ∧ Py.mod a.value b.value = 0 ∧ r.value = Py.floordiv a.value b.value ∧
      r.value * b.value = a.value :=
  (truedivLL_val hp.guard hp.ign h).2
theorem C05_truediv_const_agrees (hp : Plain s) (h : truedivLI a k s = .ok (r, s')) :
    k ≠ 0 ∧ Py.mod a.value k = 0 ∧ r.value = Py.floordiv a.value k ∧ r.value * k = a.value :=
  (truedivLI_val hp.guard hp.ign h).2

/-- `divmod`, `//`, `%`: Python's floor division and modulo -/
theorem C05_divmod_agrees {qr : LinComb × LinComb} (h : divmodLL a b s = .ok (qr, s')) :
    qr.1.value = Py.floordiv a.value b.value ∧ qr.2.value = Py.mod a.value b.value ∧
      qr.1.value * b.value + qr.2.value = a.value :=
  ⟨(divmodLL_val h).2.2.1, (divmodLL_val h).2.2.2.1, divmodLL_recompose h⟩

/-- RECORDED DEVIATION (C05-neg-divisor): for a negative divisor the code raises, Python does not -/
theorem C05_divmod_neg_divisor_raises (hi : s.ignoreErrors = false) (hd : b.value < 0) :
    ∃ e, divmodLL a b s = .error e := divmodLL_neg_divisor_raises hd hi

/-! ### powers, selection, absolute value -/
theorem C05_pow_agrees {n : Nat} (hn : 1 ≤ n) (h : powLN a n s = .ok (r, s')) : r.value = a.value ^ n := by
  obtain ⟨m, rfl⟩ : ∃ m, n = m + 1 := ⟨n - 1, by omega⟩
  exact (powLN_val m h).2
/-- `x ** 0` is `LinComb.ONE`, whose value is 1 outside guards -/
theorem C05_pow_zero_agrees (h1 : s.one = oneSafe) (h : powLN a 0 s = .ok (r, s')) : r.value = a.value ^ 0 := by
  rw [(powLN_zero_val h).2, h1]; simp [oneSafe]
theorem C05_pow_total (n : Nat) : ∃ r s', powLN a n s = .ok (r, s') := powLN_total a n s

theorem C05_ite_agrees (hc : c.value = 0 ∨ c.value = 1) (h : iteLLL c t f s = .ok (r, s')) :
    r.value = if c.value = 1 then t.value else f.value := iteLLL_val_bool hc h
theorem C05_ite_total : ∃ r s', iteLLL c t f s = .ok (r, s') := iteLLL_total c t f s

theorem C05_abs_agrees (hp : Plain s) (h : absL a s = .ok (r, s')) : r.value = |a.value| := by
  rw [(absL_val hp.guard hp.ign h).2, Int.abs_eq_natAbs]

/-! ### bits and shifts -/
theorem C05_to_bits_agrees {bits : Option Nat} {rs : List LinComb} (hi : s.ignoreErrors = false)
    (h : toBits a bits s = .ok (rs, s')) :
    rs.map (·.value) = Py.bitsOf a.value (bits.getD s.bitlength) ∧ 0 ≤ a.value ∧
      Py.bitLength a.value ≤ bits.getD s.bitlength ∧ valFB (fromBits rs) = a.value :=
  ⟨(toBits_val h).2.1, ((toBits_val h).2.2 hi).1, ((toBits_val h).2.2 hi).2, toBits_fromBits hi h⟩

theorem C05_to_bits_total {bits : Option Nat} (hp : Plain s) (h0 : 0 ≤ a.value)
    (hb : Py.bitLength a.value ≤ bits.getD s.bitlength) : ∃ rs s', toBits a bits s = .ok (rs, s') := by
  obtain ⟨rs, s', h, -⟩ := toBits_total (bits := bits) hp.guard h0 hb
  exact ⟨rs, s', h⟩

theorem C05_from_bits_agrees (bs : List LinComb) : valFB (fromBits bs) = bitsVal (bs.map (·.value)) 0 :=
  valFB_fromBits bs

theorem C05_lshift_agrees (h : lshiftLI a k s = .ok (r, s')) : 0 ≤ k ∧ r.value = a.value <<< k.toNat := by
  obtain ⟨-, hk, v⟩ := lshiftLI_val h
  refine ⟨hk, ?_⟩
  rw [v, Int.shiftLeft_eq]

theorem C05_rshift_agrees {o : Option LinComb} (hk : 0 ≤ k) (hi : s.ignoreErrors = false)
    (h : rshiftLI a k s = .ok (o, s')) : valFB o = a.value >>> k.toNat :=
  (rshiftLI_val hk hi h).2.2

/-! ### bitwise operations on two secret integers (operands checked to be in `[0, 2^bitlength)`) -/
theorem C05_and_agrees {o : Option LinComb} (hi : s.ignoreErrors = false) (h : andLL a b s = .ok (o, s')) :
    0 ≤ a.value ∧ 0 ≤ b.value ∧ valFB o = ((a.value.toNat &&& b.value.toNat : Nat) : Int) :=
  ⟨(andLL_val hi h).2.1, (andLL_val hi h).2.2.1, (andLL_val hi h).2.2.2.2.2⟩
theorem C05_or_agrees {o : Option LinComb} (hi : s.ignoreErrors = false) (h : orLL a b s = .ok (o, s')) :
    0 ≤ a.value ∧ 0 ≤ b.value ∧ valFB o = ((a.value.toNat ||| b.value.toNat : Nat) : Int) :=
  ⟨(orLL_val hi h).2.1, (orLL_val hi h).2.2.1, (orLL_val hi h).2.2.2.2.2⟩
theorem C05_xor_agrees {o : Option LinComb} (hi : s.ignoreErrors = false) (h : xorLL a b s = .ok (o, s')) :
    0 ≤ a.value ∧ 0 ≤ b.value ∧ valFB o = ((a.value.toNat ^^^ b.value.toNat : Nat) : Int) :=
  ⟨(xorLL_val hi h).2.1, (xorLL_val hi h).2.2.1, (xorLL_val hi h).2.2.2.2.2⟩

/-- RECORDED DEVIATION (C05-invert): `~x` is the `bitlength`-wide complement `2^n − 1 − x`,
not Python's `−x − 1` -/
theorem C05_invert_computes {o : Option LinComb} (hi : s.ignoreErrors = false)
    (h : invertL a s = .ok (o, s')) : valFB o = 2 ^ s.bitlength - 1 - a.value :=
  (invertL_val hi h).2.2.2

/-- consequently it never agrees with Python -/
theorem C05_invert_disagrees {o : Option LinComb} (hi : s.ignoreErrors = false)
    (h : invertL a s = .ok (o, s')) : valFB o ≠ -a.value - 1 := by
  rw [C05_invert_computes hi h]
  have : (0 : Int) < 2 ^ s.bitlength := by positivity
  omega

/-- RECORDED DEVIATION (C05-pow-secret): `x ** e` with a secret exponent is reduced modulo the
field prime at every step; it is congruent, not equal, to the Python value -/
theorem C05_pow_secret_congruent (hi : s.ignoreErrors = false) (hone : s.one.value = 1)
    (h : powLL a b s = .ok (r, s')) :
    0 ≤ b.value ∧ r.value ≡ a.value ^ b.value.toNat [ZMOD s.p] :=
  ⟨(powLL_val hi hone h).2.1, (powLL_val hi hone h).2.2.2⟩
end agrees

/-! ## the same statements at the level of the operator dispatch (`x op y` as the user writes it)

`x` a secret integer (`Val.lc`), `y` a secret integer or a plain int (`IsIntV`, value `ival y`);
`Val.num` is the value carried by the result. -/
section dispatch
variable {s s' : St} {a b c t f : LinComb} {x y v : Val}

theorem C05_val_add_agrees (hy : IsIntV y) (h : addV (.lc a) y s = .ok (v, s')) :
    ∃ z, v = .lc z ∧ z.value = a.value + ival y := (addLV_int_val hy h).2
theorem C05_val_sub_agrees (hy : IsIntV y) (h : subV (.lc a) y s = .ok (v, s')) :
    ∃ z, v = .lc z ∧ z.value = a.value - ival y := (subLV_val hy h).2
theorem C05_val_rsub_agrees (hx : IsIntV x) (h : subV x (.lc a) s = .ok (v, s')) :
    ∃ z, v = .lc z ∧ z.value = ival x - a.value := (rsubLV_val hx h).2
theorem C05_val_neg_agrees (h : unV .neg (.lc a) s = .ok (v, s')) :
    ∃ z, v = .lc z ∧ z.value = -a.value := (negV_lc_val h).2
theorem C05_val_mul_agrees (hy : IsIntV y) (h : mulV (.lc a) y s = .ok (v, s')) :
    ∃ z, v = .lc z ∧ z.value = a.value * ival y := (mulLV_int_val hy h).2

/-- all six comparisons, secret/secret, secret/int and int/secret -/
theorem C05_val_cmp_agrees {op : Cmp} (hp : Plain s) (hx : IsIntV x) (hy : IsIntV y)
    (hs : (∃ a, x = .lc a) ∨ ∃ b, y = .lc b) (h : cmpV op x y s = .ok (v, s')) :
    ∃ r, v = .lcb r ∧ r.value = cmpSem op (ival x) (ival y) := (cmpV_int_val hp hx hy hs h).2

/-- `//`, `%`, `divmod` -/
theorem C05_val_divmod_agrees {w : DM} (hy : IsIntV y) (h : divmodV w (.lc a) y s = .ok (v, s')) :
    ∃ qr : LinComb × LinComb, v = pickL w qr ∧
      qr.1.value = Py.floordiv a.value (ival y) ∧ qr.2.value = Py.mod a.value (ival y) :=
  (divmodV_int_val hy h).2

/-- `/` -/
theorem C05_val_truediv_agrees (hp : Plain s) (hy : IsIntV y) (h : truedivV (.lc a) y s = .ok (v, s')) :
    ∃ z, v = .lc z ∧ ival y ≠ 0 ∧ Py.mod a.value (ival y) = 0 ∧
      z.value = Py.floordiv a.value (ival y) ∧ z.value * ival y = a.value := (truedivV_int_val hp hy h).2

/-- `x ** n` for a plain `n ≥ 1` -/
theorem C05_val_pow_agrees {n : Int} (hn : 1 ≤ n) (h : powV (.lc a) (.int n) s = .ok (v, s')) :
    ∃ z, v = .lc z ∧ z.value = a.value ^ n.toNat := (powV_int_val hn h).2

theorem C05_val_lshift_agrees {n : Int} (h : lshiftV (.lc a) (.int n) s = .ok (v, s')) :
    0 ≤ n ∧ ∃ z, v = .lc z ∧ z.value = a.value <<< n.toNat := by
  obtain ⟨-, hn, z, hv, hz⟩ := lshiftLV_int_val h
  exact ⟨hn, z, hv, by rw [hz, Int.shiftLeft_eq]⟩

theorem C05_val_rshift_agrees {n : Int} (hn : 0 ≤ n) (hi : s.ignoreErrors = false)
    (h : rshiftV (.lc a) (.int n) s = .ok (v, s')) : v.num = a.value >>> n.toNat :=
  (rshiftLV_int_val hn hi h).2

/-- `&`, `|`, `^` on two secret integers -/
theorem C05_val_bitwise_agrees {op : BW} (hi : s.ignoreErrors = false)
    (h : bwV op (.lc a) (.lc b) s = .ok (v, s')) :
    0 ≤ a.value ∧ 0 ≤ b.value ∧ v.num = ((bwSem op a.value.toNat b.value.toNat : Nat) : Int) :=
  (bwLV_lc_val hi h).2

theorem C05_val_abs_agrees (hp : Plain s) (h : unV .abs (.lc a) s = .ok (v, s')) :
    ∃ z, v = .lc z ∧ z.value = |a.value| := (absV_val hp h).2

/-- selection -/
theorem C05_val_ite_agrees (hc : c.value = 0 ∨ c.value = 1)
    (h : ifThenElse (.lcb c) false (.lc t) (.lc f) s = .ok (v, s')) :
    ∃ z, v = .lc z ∧ z.value = if c.value = 1 then t.value else f.value := (ifThenElse_lc_val hc h).2
end dispatch

/-! ## the recorded deviations, on the executable model (modulus 97, 8-bit values) -/

/-- `~x` on a `LinComb` is the 8-bit complement: `~5` gives 250; Python: −6 -/
theorem C05_cex_invert :
    (match (do let x ← privVal 5; unV .invert (.lc x)) (St.init 97 8 8) with
     | .ok (.lc r, _) => r.value == 250 | _ => false) = true := by decide +kernel

/-- `b ** 0` on a `LinCombBool` with value 0 gives 0; Python: `0 ** 0 == 1` -/
theorem C05_cex_bool_pow :
    (match (do let b ← privValBool 0; powV (.lcb b) (.int 0)) (St.init 97 8 8) with
     | .ok (.lcb r, _) => r.value == 0 | _ => false) = true := by decide +kernel

/-- `7 // -2` raises; Python: −4 -/
theorem C05_cex_neg_divisor :
    (match (do let x ← privVal 7; divmodV .quo (.lc x) (.int (-2))) (St.init 97 8 8) with
     | .error _ => true | _ => false) = true := by decide +kernel

/-- `LinCombBool(1) & 2` gives 1 (the constant is taken by truthiness); Python: `1 & 2 == 0` -/
theorem C05_cex_bool_and_const :
    (match (do let b ← privValBool 1; bwV .and (.lcb b) (.int 2)) (St.init 97 8 8) with
     | .ok (.lcb r, _) => r.value == 1 | _ => false) = true := by decide +kernel

/-- `(-2) ** e` with a secret exponent `e = 1` gives `p − 2 = 95`; Python: −2 -/
theorem C05_cex_pow_secret :
    (match (do let x ← privVal (-2); let e ← privVal 1; powV (.lc x) (.lc e)) (St.init 97 8 8) with
     | .ok (.lc r, _) => r.value == 95 | _ => false) = true := by decide +kernel

/-- `x >> -1` returns a value (here the top bit, 0); Python raises `ValueError` -/
theorem C05_cex_rshift_negative :
    (match (do let x ← privVal 5; rshiftLV x (.int (-1))) (St.init 97 8 8) with
     | .ok (.lc r, _) => r.value == 0 | _ => false) = true := by decide +kernel

/-! ## non-vacuity -/

/-- the hypotheses of the agreement theorems are satisfiable and the conclusions are the expected
numbers: `−7 // 2 = −4`, `−7 % 2 = 1`, `3 < 5` is 1, `|−7| = 7` -/
example :
    (match (do let x ← privVal (-7); let d ← privVal 2; divmodLL x d) (St.init 97 8 8) with
     | .ok ((q, r), _) => q.value == -4 && r.value == 1 | _ => false) = true ∧
    (match (do let x ← privVal 3; let y ← privVal 5; ltLL x y) (St.init 97 8 8) with
     | .ok (r, _) => r.value == 1 | _ => false) = true ∧
    (match (do let x ← privVal (-7); absL x) (St.init 97 8 8) with
     | .ok (r, _) => r.value == 7 | _ => false) = true := by
  refine ⟨by decide +kernel, by decide +kernel, by decide +kernel⟩

example : Plain (St.init 97 8 8) := ⟨rfl, rfl⟩

/-- an instance of `C05_divmod_agrees` used on a concrete successful run -/
example : ∃ qr s', divmodLL ⟨-7, []⟩ ⟨2, []⟩ (St.init 97 8 8) = .ok (qr, s') ∧
    qr.1.value = Py.floordiv (-7) 2 ∧ qr.2.value = Py.mod (-7) 2 := by
  cases h : divmodLL ⟨-7, []⟩ ⟨2, []⟩ (St.init 97 8 8) with
  | error e =>
    have : (match divmodLL ⟨-7, []⟩ ⟨2, []⟩ (St.init 97 8 8) with | .ok _ => true | .error _ => false) = true := by
      decide +kernel
    rw [h] at this; cases this
  | ok r =>
    obtain ⟨qr, s'⟩ := r
    exact ⟨qr, s', rfl, (C05_divmod_agrees h).1, (C05_divmod_agrees h).2.1⟩

end Pysnark
