import PysnarkModel.Lemmas.Values
import PysnarkModel.Gen.Api
import PysnarkModel.Lemmas.ValuesDispatch
import PysnarkModel.Spec.R1CS
import PysnarkModel.Lemmas.PyDomain
/-!
# C05 — traced arithmetic agrees with Python semantics, or raises

For every typed gadget `g` of `Model/Gadgets.lean`: if `g a b s = .ok (r, s')` then `r.value` is
the value that the same expression has on the plain Python integers `a.value`, `b.value`
(`C05_<op>_agrees`).  The hypotheses are: error checking has not been switched off
(`s.ignoreErrors = false`) and, where the code consults `is_guard()`, no guard is active
(`s.guard = none`).  No invariant hypothesis is needed.  `C05_<op>_total` says when the gadget does
not raise.  `C05_cex_*` are the recorded deviations of the code from Python, evaluated on the
executable model.

Python's `//` and `%` are `Int.fdiv` and `Int.fmod` (`Py.floordiv`, `Py.mod`), `>>` on a
non-negative count is `Int.shiftRight`, `&`, `|`, `^` on non-negative operands are
`Nat.land/lor/xor`.
-/
namespace Pysnark

section agrees
variable {s s' : St} {a b c t f r : LinComb} {k : Int}

/-! ### ring operations -/
theorem C05_linear_agrees :
    (a.add b).value = a.value + b.value ∧ (a.sub b).value = a.value - b.value ∧
    a.neg.value = -a.value ∧ (a.mulI k).value = a.value * k ∧ (a.addI k).value = a.value + k ∧
    (a.subI k).value = a.value - k ∧ (a.rsubI k).value = k - a.value ∧ (LinComb.const k).value = k :=
  ⟨rfl, sub_value a b, rfl, rfl, rfl, subI_value a k, rsubI_value a k, rfl⟩

theorem C05_mul_agrees (h : mulLL a b s = .ok (r, s')) : r.value = a.value * b.value :=
  (mulLL_val h).2

theorem C05_mul_total : ∃ r s', mulLL a b s = .ok (r, s') := mulLL_total a b s

/-! ### comparisons, as 0/1 -/
theorem C05_eq_agrees (h : eqLL a b s = .ok (r, s')) : r.value = if a.value = b.value then 1 else 0 :=
  (eqLL_val h).2
theorem C05_ne_agrees (h : neLL a b s = .ok (r, s')) : r.value = if a.value ≠ b.value then 1 else 0 := by
  rw [(neLL_val h).2]; split <;> simp_all
theorem C05_eq_const_agrees (h : eqLI a k s = .ok (r, s')) : r.value = if a.value = k then 1 else 0 :=
  (eqLI_val h).2
theorem C05_ne_const_agrees (h : neLI a k s = .ok (r, s')) : r.value = if a.value ≠ k then 1 else 0 := by
  rw [(neLI_val h).2]; split <;> simp_all
theorem C05_check_zero_agrees (h : checkZero a s = .ok (r, s')) : r.value = if a.value = 0 then 1 else 0 :=
  (checkZero_val h).2
theorem C05_check_nonzero_agrees (h : checkNonzero a s = .ok (r, s')) :
    r.value = if a.value ≠ 0 then 1 else 0 := by
  rw [(checkNonzero_val h).2]; split <;> simp_all

theorem C05_lt_agrees (hp : Plain s) (h : ltLL a b s = .ok (r, s')) :
    r.value = if a.value < b.value then 1 else 0 := (ltLL_val hp.guard hp.ign h).2
theorem C05_le_agrees (hp : Plain s) (h : leLL a b s = .ok (r, s')) :
    r.value = if a.value ≤ b.value then 1 else 0 := (leLL_val hp.guard hp.ign h).2
theorem C05_gt_agrees (hp : Plain s) (h : gtLL a b s = .ok (r, s')) :
    r.value = if a.value > b.value then 1 else 0 := (gtLL_val hp.guard hp.ign h).2
theorem C05_ge_agrees (hp : Plain s) (h : geLL a b s = .ok (r, s')) :
    r.value = if a.value ≥ b.value then 1 else 0 := (geLL_val hp.guard hp.ign h).2
theorem C05_lt_const_agrees (hp : Plain s) (h : ltLI a k s = .ok (r, s')) :
    r.value = if a.value < k then 1 else 0 := (ltLI_val hp.guard hp.ign h).2
theorem C05_le_const_agrees (hp : Plain s) (h : leLI a k s = .ok (r, s')) :
    r.value = if a.value ≤ k then 1 else 0 := (leLI_val hp.guard hp.ign h).2
theorem C05_gt_const_agrees (hp : Plain s) (h : gtLI a k s = .ok (r, s')) :
    r.value = if a.value > k then 1 else 0 := (gtLI_val hp.guard hp.ign h).2
theorem C05_ge_const_agrees (hp : Plain s) (h : geLI a k s = .ok (r, s')) :
    r.value = if a.value ≥ k then 1 else 0 := (geLI_val hp.guard hp.ign h).2
theorem C05_check_positive_agrees {bits : Option Nat} (hp : Plain s)
    (h : checkPositive a bits s = .ok (r, s')) : r.value = if a.value ≥ 0 then 1 else 0 :=
  (checkPositive_val hp.guard hp.ign h).2.1

/-- `check_zero` raises only when the field inverse does, i.e. (for a prime modulus) only for a
non-zero multiple of the modulus -/
theorem C05_check_zero_total :
    (∃ r s', checkZero a s = .ok (r, s')) ↔
      (Py.invert (a.value + (if a.value == 0 then 1 else 0)) s.p).isSome := checkZero_ok_iff

/-- over a prime field: `check_zero` (hence `==`, `!=`) raises exactly for a non-zero multiple of
the modulus — outside the documented domain `|x| < 2^bitlength < p` -/
theorem C05_check_zero_total_prime (hP : PrimeP s) :
    (∃ r s', checkZero a s = .ok (r, s')) ↔ ¬ (a.value ≠ 0 ∧ a.value % s.p = 0) :=
  checkZero_ok_iff_prime hP

/-- `check_positive` is total exactly on the documented domain `|x| < 2^bitlength` -/
theorem C05_check_positive_total {bits : Option Nat} (hp : Plain s) :
    (∃ r s', checkPositive a bits s = .ok (r, s')) ↔ Py.bitLength a.value ≤ bits.getD s.bitlength :=
  checkPositive_ok_iff hp.guard hp.ign

theorem C05_lt_total (hp : Plain s) (hb : Py.bitLength (b.value - a.value - 1) ≤ s.bitlength) :
    ∃ r s', ltLL a b s = .ok (r, s') := ltLL_total hp.guard hb

/-! ### division -/
/-- `/` (exact division): returns the quotient when the division is exact, raises otherwise -/
theorem C05_truediv_agrees (hp : Plain s) (h : truedivLL a b s = .ok (r, s')) :
    b.value ≠ 0 ∧ Py.mod a.value b.value = 0 ∧ r.value = Py.floordiv a.value b.value ∧
      r.value * b.value = a.value :=
  (truedivLL_val hp.guard hp.ign h).2
theorem C05_truediv_const_agrees (hp : Plain s) (h : truedivLI a k s = .ok (r, s')) :
    k ≠ 0 ∧ Py.mod a.value k = 0 ∧ r.value = Py.floordiv a.value k ∧ r.value * k = a.value :=
  (truedivLI_val hp.guard hp.ign h).2

/-- `divmod`, `//`, `%`: Python's floor division and modulo -/
theorem C05_divmod_agrees {qr : LinComb × LinComb} (h : divmodLL a b s = .ok (qr, s')) :
    qr.1.value = Py.floordiv a.value b.value ∧ qr.2.value = Py.mod a.value b.value ∧
      qr.1.value * b.value + qr.2.value = a.value :=
  ⟨(divmodLL_val h).2.2.1, (divmodLL_val h).2.2.2.1, divmodLL_recompose h⟩

/-- RECORDED DEVIATION (C05-neg-divisor): for a negative divisor the code raises, Python does not -/
theorem C05_divmod_neg_divisor_raises (hi : s.ignoreErrors = false) (hd : b.value < 0) :
    ∃ e, divmodLL a b s = .error e := divmodLL_neg_divisor_raises hd hi

/-! ### powers, selection, absolute value -/
theorem C05_pow_agrees {n : Nat} (hn : 1 ≤ n) (h : powLN a n s = .ok (r, s')) : r.value = a.value ^ n := by
  obtain ⟨m, rfl⟩ : ∃ m, n = m + 1 := ⟨n - 1, by omega⟩
  exact (powLN_val m h).2
/-- `x ** 0` is `LinComb.ONE`, whose value is 1 outside guards -/
theorem C05_pow_zero_agrees (h1 : s.one = oneSafe) (h : powLN a 0 s = .ok (r, s')) : r.value = a.value ^ 0 := by
  rw [(powLN_zero_val h).2, h1]; simp [oneSafe]
theorem C05_pow_total (n : Nat) : ∃ r s', powLN a n s = .ok (r, s') := powLN_total a n s

theorem C05_ite_agrees (hc : c.value = 0 ∨ c.value = 1) (h : iteLLL c t f s = .ok (r, s')) :
    r.value = if c.value = 1 then t.value else f.value := iteLLL_val_bool hc h
theorem C05_ite_total : ∃ r s', iteLLL c t f s = .ok (r, s') := iteLLL_total c t f s

theorem C05_abs_agrees (hp : Plain s) (h : absL a s = .ok (r, s')) : r.value = |a.value| := by
  rw [(absL_val hp.guard hp.ign h).2, Int.abs_eq_natAbs]

/-! ### bits and shifts -/
theorem C05_to_bits_agrees {bits : Option Nat} {rs : List LinComb} (hi : s.ignoreErrors = false)
    (h : toBits a bits s = .ok (rs, s')) :
    rs.map (·.value) = Py.bitsOf a.value (bits.getD s.bitlength) ∧ 0 ≤ a.value ∧
      Py.bitLength a.value ≤ bits.getD s.bitlength ∧ valFB (fromBits rs) = a.value :=
  ⟨(toBits_val h).2.1, ((toBits_val h).2.2 hi).1, ((toBits_val h).2.2 hi).2, toBits_fromBits hi h⟩

theorem C05_to_bits_total {bits : Option Nat} (hp : Plain s) (h0 : 0 ≤ a.value)
    (hb : Py.bitLength a.value ≤ bits.getD s.bitlength) : ∃ rs s', toBits a bits s = .ok (rs, s') := by
  obtain ⟨rs, s', h, -⟩ := toBits_total (bits := bits) hp.guard h0 hb
  exact ⟨rs, s', h⟩

theorem C05_from_bits_agrees (bs : List LinComb) : valFB (fromBits bs) = bitsVal (bs.map (·.value)) 0 :=
  valFB_fromBits bs

theorem C05_lshift_agrees (h : lshiftLI a k s = .ok (r, s')) : 0 ≤ k ∧ r.value = a.value <<< k.toNat := by
  obtain ⟨-, hk, v⟩ := lshiftLI_val h
  refine ⟨hk, ?_⟩
  rw [v, Int.shiftLeft_eq]

theorem C05_rshift_agrees {o : Option LinComb} (hk : 0 ≤ k) (hi : s.ignoreErrors = false)
    (h : rshiftLI a k s = .ok (o, s')) : valFB o = a.value >>> k.toNat :=
  (rshiftLI_val hk hi h).2.2

/-! ### bitwise operations on two secret integers (operands checked to be in `[0, 2^bitlength)`) -/
theorem C05_and_agrees {o : Option LinComb} (hi : s.ignoreErrors = false) (h : andLL a b s = .ok (o, s')) :
    0 ≤ a.value ∧ 0 ≤ b.value ∧ valFB o = ((a.value.toNat &&& b.value.toNat : Nat) : Int) :=
  ⟨(andLL_val hi h).2.1, (andLL_val hi h).2.2.1, (andLL_val hi h).2.2.2.2.2⟩
theorem C05_or_agrees {o : Option LinComb} (hi : s.ignoreErrors = false) (h : orLL a b s = .ok (o, s')) :
    0 ≤ a.value ∧ 0 ≤ b.value ∧ valFB o = ((a.value.toNat ||| b.value.toNat : Nat) : Int) :=
  ⟨(orLL_val hi h).2.1, (orLL_val hi h).2.2.1, (orLL_val hi h).2.2.2.2.2⟩
theorem C05_xor_agrees {o : Option LinComb} (hi : s.ignoreErrors = false) (h : xorLL a b s = .ok (o, s')) :
    0 ≤ a.value ∧ 0 ≤ b.value ∧ valFB o = ((a.value.toNat ^^^ b.value.toNat : Nat) : Int) :=
  ⟨(xorLL_val hi h).2.1, (xorLL_val hi h).2.2.1, (xorLL_val hi h).2.2.2.2.2⟩

/-- RECORDED DEVIATION (C05-invert): `~x` is the `bitlength`-wide complement `2^n − 1 − x`,
not Python's `−x − 1` -/
theorem C05_invert_computes {o : Option LinComb} (hi : s.ignoreErrors = false)
    (h : invertL a s = .ok (o, s')) : valFB o = 2 ^ s.bitlength - 1 - a.value :=
  (invertL_val hi h).2.2.2

/-- consequently it never agrees with Python -/
theorem C05_invert_disagrees {o : Option LinComb} (hi : s.ignoreErrors = false)
    (h : invertL a s = .ok (o, s')) : valFB o ≠ -a.value - 1 := by
  rw [C05_invert_computes hi h]
  have : (0 : Int) < 2 ^ s.bitlength := by positivity
  omega

/-- RECORDED DEVIATION (C05-pow-secret): `x ** e` with a secret exponent is reduced modulo the
field prime at every step; it is congruent, not equal, to the Python value -/
theorem C05_pow_secret_congruent (hi : s.ignoreErrors = false) (hone : s.one.value = 1)
    (h : powLL a b s = .ok (r, s')) :
    0 ≤ b.value ∧ r.value ≡ a.value ^ b.value.toNat [ZMOD s.p] :=
  ⟨(powLL_val hi hone h).2.1, (powLL_val hi hone h).2.2.2⟩
end agrees

/-! ## the same statements at the level of the operator dispatch (`x op y` as the user writes it)

`x` a secret integer (`Val.lc`), `y` a secret integer or a plain int (`IsIntV`, value `ival y`);
`Val.num` is the value carried by the result. -/
section dispatch
variable {s s' : St} {a b c t f : LinComb} {x y v : Val}

theorem C05_val_add_agrees (hy : IsIntV y) (h : addV (.lc a) y s = .ok (v, s')) :
    ∃ z, v = .lc z ∧ z.value = a.value + ival y := (addLV_int_val hy h).2
theorem C05_val_sub_agrees (hy : IsIntV y) (h : subV (.lc a) y s = .ok (v, s')) :
    ∃ z, v = .lc z ∧ z.value = a.value - ival y := (subLV_val hy h).2
theorem C05_val_rsub_agrees (hx : IsIntV x) (h : subV x (.lc a) s = .ok (v, s')) :
    ∃ z, v = .lc z ∧ z.value = ival x - a.value := (rsubLV_val hx h).2
theorem C05_val_neg_agrees (h : unV .neg (.lc a) s = .ok (v, s')) :
    ∃ z, v = .lc z ∧ z.value = -a.value := (negV_lc_val h).2
theorem C05_val_mul_agrees (hy : IsIntV y) (h : mulV (.lc a) y s = .ok (v, s')) :
    ∃ z, v = .lc z ∧ z.value = a.value * ival y := (mulLV_int_val hy h).2

/-- all six comparisons, secret/secret, secret/int and int/secret -/
theorem C05_val_cmp_agrees {op : Cmp} (hp : Plain s) (hx : IsIntV x) (hy : IsIntV y)
    (hs : (∃ a, x = .lc a) ∨ ∃ b, y = .lc b) (h : cmpV op x y s = .ok (v, s')) :
    ∃ r, v = .lcb r ∧ r.value = cmpSem op (ival x) (ival y) := (cmpV_int_val hp hx hy hs h).2

/-- `//`, `%`, `divmod` -/
theorem C05_val_divmod_agrees {w : DM} (hy : IsIntV y) (h : divmodV w (.lc a) y s = .ok (v, s')) :
    ∃ qr : LinComb × LinComb, v = pickL w qr ∧
      qr.1.value = Py.floordiv a.value (ival y) ∧ qr.2.value = Py.mod a.value (ival y) :=
  (divmodV_int_val hy h).2

/-- `/` -/
theorem C05_val_truediv_agrees (hp : Plain s) (hy : IsIntV y) (h : truedivV (.lc a) y s = .ok (v, s')) :
    ∃ z, v = .lc z ∧ ival y ≠ 0 ∧ Py.mod a.value (ival y) = 0 ∧
      z.value = Py.floordiv a.value (ival y) ∧ z.value * ival y = a.value := (truedivV_int_val hp hy h).2

/-- `x ** n` for a plain `n ≥ 1` -/
theorem C05_val_pow_agrees {n : Int} (hn : 1 ≤ n) (h : powV (.lc a) (.int n) s = .ok (v, s')) :
    ∃ z, v = .lc z ∧ z.value = a.value ^ n.toNat := (powV_int_val hn h).2

theorem C05_val_lshift_agrees {n : Int} (h : lshiftV (.lc a) (.int n) s = .ok (v, s')) :
    0 ≤ n ∧ ∃ z, v = .lc z ∧ z.value = a.value <<< n.toNat := by
  obtain ⟨-, hn, z, hv, hz⟩ := lshiftLV_int_val h
  exact ⟨hn, z, hv, by rw [hz, Int.shiftLeft_eq]⟩

theorem C05_val_rshift_agrees {n : Int} (hn : 0 ≤ n) (hi : s.ignoreErrors = false)
    (h : rshiftV (.lc a) (.int n) s = .ok (v, s')) : v.num = a.value >>> n.toNat :=
  (rshiftLV_int_val hn hi h).2

/-- `&`, `|`, `^` on two secret integers -/
theorem C05_val_bitwise_agrees {op : BW} (hi : s.ignoreErrors = false)
    (h : bwV op (.lc a) (.lc b) s = .ok (v, s')) :
    0 ≤ a.value ∧ 0 ≤ b.value ∧ v.num = ((bwSem op a.value.toNat b.value.toNat : Nat) : Int) :=
  (bwLV_lc_val hi h).2

theorem C05_val_abs_agrees (hp : Plain s) (h : unV .abs (.lc a) s = .ok (v, s')) :
    ∃ z, v = .lc z ∧ z.value = |a.value| := (absV_val hp h).2

/-- selection -/
theorem C05_val_ite_agrees (hc : c.value = 0 ∨ c.value = 1)
    (h : ifThenElse (.lcb c) false (.lc t) (.lc f) s = .ok (v, s')) :
    ∃ z, v = .lc z ∧ z.value = if c.value = 1 then t.value else f.value := (ifThenElse_lc_val hc h).2
end dispatch

/-! ## the recorded deviations, on the executable model (modulus 97, 8-bit values) -/

/-- `~x` on a `LinComb` is the 8-bit complement: `~5` gives 250; Python: −6 -/
theorem C05_cex_invert :
    (match (do let x ← privVal 5; unV .invert (.lc x)) (St.init 97 8 8) with
     | .ok (.lc r, _) => r.value == 250 | _ => false) = true := by decide +kernel

/-- `b ** 0` on a `LinCombBool` with value 0 gives 0; Python: `0 ** 0 == 1` -/
theorem C05_cex_bool_pow :
    (match (do let b ← privValBool 0; powV (.lcb b) (.int 0)) (St.init 97 8 8) with
     | .ok (.lcb r, _) => r.value == 0 | _ => false) = true := by decide +kernel

/-- `7 // -2` raises; Python: −4 -/
theorem C05_cex_neg_divisor :
    (match (do let x ← privVal 7; divmodV .quo (.lc x) (.int (-2))) (St.init 97 8 8) with
     | .error _ => true | _ => false) = true := by decide +kernel

/-- `LinCombBool(1) & 2` gives 1 (the constant is taken by truthiness); Python: `1 & 2 == 0` -/
theorem C05_cex_bool_and_const :
    (match (do let b ← privValBool 1; bwV .and (.lcb b) (.int 2)) (St.init 97 8 8) with
     | .ok (.lcb r, _) => r.value == 1 | _ => false) = true := by decide +kernel

/-- `(-2) ** e` with a secret exponent `e = 1` gives `p − 2 = 95`; Python: −2 -/
theorem C05_cex_pow_secret :
    (match (do let x ← privVal (-2); let e ← privVal 1; powV (.lc x) (.lc e)) (St.init 97 8 8) with
     | .ok (.lc r, _) => r.value == 95 | _ => false) = true := by decide +kernel

/-! ## repaired: `x >> n` with a negative public count (was the recorded deviation C05-rshift-negative)

The code returned `from_bits(to_bits(x)[n:])` — Python's slice from the end — where plain Python
raises `ValueError("negative shift count")`.  Repaired in /repo (`LinComb.__rshift__` tests the count
before anything is traced, as `1 << n` does for `<<`); the model follows, the former counterexample
`C05_cex_rshift_negative` is now the regression statement below, and the exclusion `rshiftNegative`
is gone from the fragment of `C05_program`. -/

/-- **regression, general.**  `x >> n` with a negative public `n` raises `ValueError` in EVERY state
(any guard, any error mode, any operand value) and nothing is traced -/
theorem C05_rshift_negative_raises (a : LinComb) {n : Int} (hn : n < 0) (s : St) :
    rshiftLI a n s = .error .value := rshiftLI_neg hn s

/-- … at the dispatch, for a secret integer and for a fixed-point value on the left
(`LinCombFxp.__rshift__` delegates to `self.lc >> n`) -/
theorem C05_val_rshift_negative_raises (a : LinComb) {n : Int} (hn : n < 0) (s : St) :
    rshiftV (.lc a) (.int n) s = .error .value ∧ rshiftV (.fxp a) (.int n) s = .error .value := by
  have key : rshiftLV a (.int n) s = .error .value := by
    simp only [rshiftLV]
    change M.bind (rshiftLI a n) _ s = _
    unfold M.bind
    rw [rshiftLI_neg hn]
  refine ⟨by simpa only [rshiftV] using key, ?_⟩
  simp only [rshiftV]
  change M.bind (rshiftLV a (.int n)) _ s = _
  unfold M.bind
  rw [key]

/-- … and conversely a completed `x >> n` had `n ≥ 0` and is Python's shift -/
theorem C05_rshift_completes_nonneg {s s' : St} {a : LinComb} {k : Int} {o : Option LinComb}
    (hi : s.ignoreErrors = false) (h : rshiftLI a k s = .ok (o, s')) : 0 ≤ k ∧ valFB o = a.value >>> k.toNat :=
  ⟨rshiftLI_ok_nonneg h, (rshiftLI_val (rshiftLI_ok_nonneg h) hi h).2.2⟩

/-- **regression, closed** (the former counterexample): `PrivVal(5) >> -1` raises `ValueError` -/
theorem C05_rshift_negative_regression :
    (match (do let x ← privVal 5; rshiftLV x (.int (-1))) (St.init 97 8 8) with
     | .error .value => true | _ => false) = true := by
  first | decide +kernel | fail "x >> -1 no longer raises ValueError in the model"

/-! ## non-vacuity -/

/-- the hypotheses of the agreement theorems are satisfiable and the conclusions are the expected
numbers: `−7 // 2 = −4`, `−7 % 2 = 1`, `3 < 5` is 1, `|−7| = 7` -/
example :
    (match (do let x ← privVal (-7); let d ← privVal 2; divmodLL x d) (St.init 97 8 8) with
     | .ok ((q, r), _) => q.value == -4 && r.value == 1 | _ => false) = true ∧
    (match (do let x ← privVal 3; let y ← privVal 5; ltLL x y) (St.init 97 8 8) with
     | .ok (r, _) => r.value == 1 | _ => false) = true ∧
    (match (do let x ← privVal (-7); absL x) (St.init 97 8 8) with
     | .ok (r, _) => r.value == 7 | _ => false) = true := by
  refine ⟨by decide +kernel, by decide +kernel, by decide +kernel⟩

example : Plain (St.init 97 8 8) := ⟨rfl, rfl⟩

/-- an instance of `C05_divmod_agrees` used on a concrete successful run -/
example : ∃ qr s', divmodLL ⟨-7, []⟩ ⟨2, []⟩ (St.init 97 8 8) = .ok (qr, s') ∧
    qr.1.value = Py.floordiv (-7) 2 ∧ qr.2.value = Py.mod (-7) 2 := by
  cases h : divmodLL ⟨-7, []⟩ ⟨2, []⟩ (St.init 97 8 8) with
  | error e =>
    have : (match divmodLL ⟨-7, []⟩ ⟨2, []⟩ (St.init 97 8 8) with | .ok _ => true | .error _ => false) = true := by
      decide +kernel
    rw [h] at this; cases this
  | ok r =>
    obtain ⟨qr, s'⟩ := r
    exact ⟨qr, s', rfl, (C05_divmod_agrees h).1, (C05_divmod_agrees h).2.1⟩

/-! ## program level: every program of the fragment computes the plain-Python values

`Spec/PyProg.lean` holds the vocabulary: `pyRun` (the reference interpreter on plain Python values),
`ValRef` / `ValRefL` (same shape; a plain int is itself; a secret integer or boolean is its `.value`;
a secret boolean is 0/1 and tagged `bool`), `PyFragment` with the exclusion table `Instr.pyExcl`
(reasons: `PyExcl`), `PySupported` with the coverage table `Instr.pyGap` (reasons: `PyGap`),
`InDomain` with `pyDomBin` / `pyDomCall` / `pyDomIdx`.  Proofs: `Lemmas/PyRun*.lean` (agreement, one
lemma per dispatch function, induction over the instruction list) and `Lemmas/PyTotal*.lean`
(totality; secret exponent: `PyTotalExp`, assertions: `PyTotalAssert`, secret index: `PyTotalArr`). -/

/-- **C05, program level, agreement.**  For every prime modulus `p`, every bit length and
resolution, every program in `PyFragment` (no fixed-point values, no guarded regions, no `set ign`,
no literal containing a secret, and none of the recorded deviations C05-invert, C05-bool-pow,
C05-bool-bitwise-const, C05-secret-exponent-mod-p [exactly when the power leaves `[0, p)`];
selection between lists under a secret condition and secret-index access to arrays with non-integer
elements are left out; `x >> n` with a negative public `n` is INSIDE the fragment since the repair of
C05-rshift-negative: it raises, as Python does): if the traced run completes, then the reference
interpreter completes as well (plain Python raises at no instruction) and EVERY register of the
traced run — secret integers and booleans by their `.value`, containers element-wise, plain ints as
they are — equals the register of the reference run.  `//`, `%`, `divmod` with a negative divisor
raise (C05-neg-divisor): a totality deviation, not a value deviation, so they need no exclusion. -/
theorem C05_program (p : ℕ) [hp : Fact p.Prime] (bl res : ℕ) (prog : List Instr)
    (hfrag : PyFragment (St.init p bl res) prog)
    (out : Out) (hout : run (St.init p bl res) prog = out) (herr : out.err = none) :
    ∃ pregs, pyRun bl prog = .ok pregs ∧ ValRefL out.regs pregs :=
  run_py p hp.out bl res prog hfrag out hout herr

/-- **… or raises; it never returns a different value**: when the traced run raises at instruction
`j`, the reference run of the `j` instructions before it completes (the reference does not raise at
any instruction the traced run got past) and agrees with every register computed so far. -/
theorem C05_program_prefix (p : ℕ) [hp : Fact p.Prime] (bl res : ℕ) (prog : List Instr)
    (hfrag : PyFragment (St.init p bl res) prog) (e : Err) (j : ℕ)
    (herr : (run (St.init p bl res) prog).err = some (e, j)) :
    ∃ pregs, pyRun bl (prog.take j) = .ok pregs ∧ ValRefL (run (St.init p bl res) prog).regs pregs :=
  run_py_err p hp.out bl res prog hfrag e j herr

/-- **C05, program level, totality.**  A program in `PyFragment` whose executed instructions meet
operand kinds the API supports (`PySupported`: the table `Instr.pyGap`; the only reason left is
`kinds` — the API raises by type dispatch alone, or both operands are plain) and whose REFERENCE run
completes inside the documented domain (`InDomain`: the exact bounds of `pyDomBin` / `pyDomCall` /
`pyDomIdx` on the reference values — comparison differences below `2^bl` in absolute value,
`==`/`!=` differences zero or non-zero modulo `p`, divisors of `//`, `%`, `divmod` in `(0, 2^bl]`,
the divisor of `/` not a multiple of `p`, operands of `>>`, `&`, `|`, `^` in `[0, 2^bl)`, 0/1 next to
a boolean, public exponents ≤ 300 and shift counts ≤ 4096; a SECRET exponent / `<<` count in
`[0, 2^bl)`, a SECRET `>>` count in `[0, bl]`; a SECRET array index in `[0, len)` with `len ≤ p`;
for the `assert_*` methods: the asserted relation HOLDS on the reference values and the
range-checked differences fit `bl` as for the comparison operators, `assert_nonzero` / `assert_ne`:
invertible modulo `p`, `assert_positive(n)`: `0 ≤ x < 2^n`) does not raise.  `InDomain` replays the
traced run next to the reference run only to tell a secret exponent / count / index from a public
one (`secretAt`). -/
theorem C05_program_total (p : ℕ) [hp : Fact p.Prime] (bl res : ℕ) (prog : List Instr)
    (hfrag : PyFragment (St.init p bl res) prog) (hsup : PySupported (St.init p bl res) prog)
    (hdom : InDomain (St.init p bl res) prog) (pregs : List PyVal) (hpy : pyRun bl prog = .ok pregs) :
    (run (St.init p bl res) prog).err = none :=
  run_py_total p hp.out bl res prog hfrag hsup hdom pregs hpy

/-- both together: inside the fragment, the coverage table and the domain, the traced run completes
and every register is the reference register -/
theorem C05_program_total_agrees (p : ℕ) [hp : Fact p.Prime] (bl res : ℕ) (prog : List Instr)
    (hfrag : PyFragment (St.init p bl res) prog) (hsup : PySupported (St.init p bl res) prog)
    (hdom : InDomain (St.init p bl res) prog) (pregs : List PyVal) (hpy : pyRun bl prog = .ok pregs) :
    (run (St.init p bl res) prog).err = none ∧ ValRefL (run (St.init p bl res) prog).regs pregs := by
  have herr := C05_program_total p bl res prog hfrag hsup hdom pregs hpy
  obtain ⟨pregs', h1, h2⟩ := C05_program p bl res prog hfrag _ rfl herr
  rw [hpy] at h1
  cases h1
  exact ⟨herr, h2⟩

/-- the domain on which the harness checks totality — operands below `2^(bl-1)` in absolute value,
`bl ≥ 1`, `2^(bl+1) < p`, and the operator's side condition `pySideOk` (non-zero divisor for `/`,
POSITIVE divisor for `//`, `%`, `divmod`, non-negative operands for `>>`, `&`, `|`, `^`, public
exponent ≤ 300, shift count ≤ 4096, a SECRET exponent / shift count non-negative and for `>>` at
most `bl`, 0/1 next to a boolean) — lies inside the exact bounds `pyDomBin` that
`C05_program_total` needs -/
theorem C05_domain_of_small {p : ℤ} {bl : ℕ} (hbl : 1 ≤ bl) (hp : 2 ^ (bl + 1) < p) {op : BinOp}
    {ba bb sb : Bool} {x y : ℤ} (hx : |x| < 2 ^ (bl - 1)) (hy : |y| < 2 ^ (bl - 1))
    (hs : pySideOk bl op ba bb sb x y) : pyDomBin p bl op ba bb sb x y = true :=
  pyDomBin_of_small hbl hp hx hy hs

/-- … and so does a comparison assertion whose relation holds on operands of that size -/
theorem C05_assert_domain_of_small {p : ℤ} {bl : ℕ} (hbl : 1 ≤ bl) (hp : 2 ^ (bl + 1) < p) {m : Meth}
    {x y : ℤ} (hx : |x| < 2 ^ (bl - 1)) (hy : |y| < 2 ^ (bl - 1)) (hr : pyAssertHolds m x y) :
    pyDomAssertCmp p bl m x y = true :=
  pyDomAssertCmp_of_small hbl hp hx hy hr

/-! ### the three compositions behind the enlarged coverage, function by function -/

/-- `x ** e` with a SECRET exponent `0 ≤ e < 2^bitlength` does not raise (whatever the base: the
squares and products are reduced modulo `p`; whether the result is Python's is `C05_program`'s
matter: exactly when the power does not wrap) -/
theorem C05_secret_pow_total {s : St} {a e : LinComb} (hg : s.guard = none) (hP : PrimeP s)
    (h0 : 0 ≤ e.value) (hb : e.value < 2 ^ s.bitlength) : ∃ r, powLL a e s = .ok r :=
  powLL_total hg hP h0 hb

/-- `x << e`: as `**`; `x >> e` with a SECRET count: `0 ≤ e ≤ bitlength` and `2^e < p` (not
`powWraps`): the divisor `2^e` is then in `(0, 2^bitlength]` -/
theorem C05_secret_shift_total {s : St} {x e : LinComb} (hk : PyOk s) (hP : PrimeP s) (h0 : 0 ≤ e.value) :
    (e.value < 2 ^ s.bitlength → ∃ r, lshiftLV x (.lc e) s = .ok r) ∧
    (powWraps s.p 2 e.value = false → e.value ≤ s.bitlength → ∃ r, rshiftLV x (.lc e) s = .ok r) :=
  ⟨fun hb => lshiftLV_lc_total hk.guard hP h0 hb, fun hw hb => rshiftLV_lc_total hk hP hw h0 hb⟩

/-- `a[i]`, `a[i] = v` with a SECRET index `0 ≤ i < len(a) ≤ p` on plain / secret integer elements
do not raise (the converse for the index is `C15_oob_raises`) -/
theorem C05_secret_index_total {s : St} {arr : List Val} {it : LinComb} {v : Val} (hk : PyOk s)
    (hP : PrimeP s) (harr : ∀ x ∈ arr, x.isIntLike = true) (hv : v.isIntLike = true)
    (h0 : 0 ≤ it.value) (h1 : it.value < arr.length) (hn : (arr.length : ℤ) ≤ s.p) :
    (∃ r, arrayGet arr (.lc it) s = .ok r) ∧ (∃ r, arraySet arr (.lc it) v s = .ok r) :=
  ⟨arrayGet_total hk hP harr h0 h1 hn, arraySet_total hk hP harr hv h0 h1 hn⟩

/-- an assertion whose relation HOLDS, with the range-checked difference inside the bit length, does
not raise (the converse — a false relation raises — is `C03_runtime_relations`) -/
theorem C05_assert_total {s : St} {a b : LinComb} (hg : s.guard = none) (hP : PrimeP s) :
    (a.value < b.value → b.value - a.value - 1 < 2 ^ s.bitlength → ∃ r, assertLt a b s = .ok r) ∧
    (a.value ≤ b.value → b.value - a.value < 2 ^ s.bitlength → ∃ r, assertLe a b s = .ok r) ∧
    (a.value = b.value → ∃ r, assertEq a b s = .ok r) ∧
    (a.value ≠ b.value → (a.value - b.value) % s.p ≠ 0 → ∃ r, assertNe a b s = .ok r) ∧
    (b.value < a.value → a.value - b.value - 1 < 2 ^ s.bitlength → ∃ r, assertGt a b s = .ok r) ∧
    (b.value ≤ a.value → a.value - b.value < 2 ^ s.bitlength → ∃ r, assertGe a b s = .ok r) ∧
    (a.value = 0 → ∃ r, assertZero a s = .ok r) ∧
    (a.value % s.p ≠ 0 → ∃ r, assertNonzero a s = .ok r) ∧
    (∀ n : Option ℕ, 0 ≤ a.value → a.value < 2 ^ n.getD s.bitlength → ∃ r, assertPositive a n s = .ok r) := by
  refine ⟨fun h1 h2 => ?_, fun h1 h2 => ?_, fun h1 => ?_, fun h1 h2 => ?_, fun h1 h2 => ?_,
    fun h1 h2 => ?_, fun h1 => ?_, fun h1 => ?_, fun n h1 h2 => ?_⟩
  · obtain ⟨s', h, -⟩ := assertLt_total hg h1 h2; exact ⟨_, h⟩
  · obtain ⟨s', h, -⟩ := assertLe_total hg h1 h2; exact ⟨_, h⟩
  · obtain ⟨s', h, -⟩ := assertEq_total hg h1; exact ⟨_, h⟩
  · obtain ⟨s', h, -⟩ := assertNe_total hg hP h1 h2; exact ⟨_, h⟩
  · obtain ⟨s', h, -⟩ := assertGt_total hg h1 h2; exact ⟨_, h⟩
  · obtain ⟨s', h, -⟩ := assertGe_total hg h1 h2; exact ⟨_, h⟩
  · obtain ⟨s', h, -⟩ := assertZero_total hg h1; exact ⟨_, h⟩
  · obtain ⟨s', h, -⟩ := assertNonzero_total hg hP h1; exact ⟨_, h⟩
  · obtain ⟨s', h, -⟩ := assertPositive_total (bits := n) hg h1 h2; exact ⟨_, h⟩

/-- `x.assert_range(lo, hi)` with `lo ≤ x < hi`, both differences inside the bit length -/
theorem C05_assert_range_total {s : St} {x lo hi : LinComb} (hg : s.guard = none)
    (h1 : lo.value ≤ x.value) (h2 : x.value < hi.value) (hb1 : x.value - lo.value < 2 ^ s.bitlength)
    (hb2 : hi.value - x.value - 1 < 2 ^ s.bitlength) : ∃ r, assertRange x lo hi s = .ok r := by
  obtain ⟨s', h, -⟩ := assertRange_total hg h1 h2 hb1 hb2; exact ⟨_, h⟩

/-- the exclusion `secretExponentWraps` is exact: `powWraps p x e` holds precisely when the Python
power `x ^ e` is outside `[0, p)` (the shortcut for astronomically large powers does not change it) -/
theorem C05_powWraps_exact (p x e : ℤ) :
    powWraps p x e = !(decide (0 ≤ x ^ e.toNat) && decide (x ^ e.toNat < p)) := powWraps_eq p x e

/-! ### non-vacuity at program level: a 29-instruction program over `p = 97`, 5-bit values -/

/-- comparisons, `//`, `%`, exact `/`, `<<`, `>>`, `&`, `|`, `^`, `**`, `abs`, selection,
`to_bits` / `from_bits`, boolean `&` and `~`, `divmod`, `val()` -/
def pyDemo : List Instr :=
  [ .lit (.int 13), .lit (.int 5), .mk .priv 0, .mk .priv 1,
    .bin .lt 3 2, .bin .floordiv 2 3, .bin .mod 2 3,
    .lit (.int 12), .mk .pub 7, .lit (.int 4), .bin .truediv 8 9,
    .lit (.int 2), .bin .lshift 3 11, .bin .rshift 2 11,
    .bin .band 2 3, .bin .bor 2 3, .bin .bxor 2 3, .bin .pow 3 11,
    .lit (.int (-7)), .mk .priv 18, .un .abs 19,
    .ite 4 2 3, .call .toBits 3 [], .call .fromBits 22 [],
    .bin .ge 2 8, .bin .band 4 24, .un .invert 25, .bin .divmod 2 3, .call .val 23 [] ]

/-- the reference values of `pyDemo`, register by register -/
def pyDemoRef : List PyVal :=
  [ .int 13, .int 5, .int 13, .int 5,
    .bool 1, .int 2, .int 3,
    .int 12, .int 12, .int 4, .int 3,
    .int 2, .int 20, .int 3,
    .int 5, .int 13, .int 8, .int 25,
    .int (-7), .int (-7), .int 7,
    .int 13, .list [.bool 1, .bool 0, .bool 1, .bool 0, .bool 0], .int 5,
    .bool 1, .bool 1, .bool 0, .tuple [.int 2, .int 3], .int 5 ]

/-- the program is in the fragment, in the coverage table and in the domain; the reference
interpreter yields the listed values; the traced run completes with exactly these values -/
example :
    PyFragment (St.init 97 5 8) pyDemo ∧ PySupported (St.init 97 5 8) pyDemo ∧
    InDomain (St.init 97 5 8) pyDemo ∧
    (match pyRun 5 pyDemo with | .ok r => PyVal.eqbL r pyDemoRef | .error _ => false) = true ∧
    (run (St.init 97 5 8) pyDemo).err = none ∧
    ValRefL (run (St.init 97 5 8) pyDemo).regs pyDemoRef := by
  refine ⟨?_, ?_, ?_, ?_, ?_, ?_⟩ <;> first | decide +kernel | fail "pyDemo: closed evaluation failed"

/-- the two program-level theorems applied to `pyDemo`: their hypotheses are satisfiable -/
example : ∃ pregs, pyRun 5 pyDemo = .ok pregs ∧
    (run (St.init 97 5 8) pyDemo).err = none ∧ ValRefL (run (St.init 97 5 8) pyDemo).regs pregs := by
  haveI : Fact (Nat.Prime 97) := ⟨by norm_num⟩
  have hf : PyFragment (St.init (97 : ℕ) 5 8) pyDemo := by
    first | decide +kernel | fail "pyDemo: not in the fragment"
  have hs : PySupported (St.init (97 : ℕ) 5 8) pyDemo := by
    first | decide +kernel | fail "pyDemo: not covered"
  have hd : InDomain (St.init (97 : ℕ) 5 8) pyDemo := by
    first | decide +kernel | fail "pyDemo: outside the domain"
  cases hr : pyRun 5 pyDemo with
  | error e =>
    have : (match pyRun 5 pyDemo with | .ok _ => true | .error _ => false) = true := by
      first | decide +kernel | fail "pyDemo: the reference stops"
    rw [hr] at this; cases this
  | ok pregs => exact ⟨pregs, rfl, C05_program_total_agrees 97 5 8 pyDemo hf hs hd pregs hr⟩

/-! ### non-vacuity of the enlarged coverage: secret exponent, secret shifts, secret-index read and
write, assertions (`p = 97`, 5-bit values) -/

/-- `3 ** PrivVal(3)`, `PrivVal(3) << PrivVal(3)`, `PrivVal(13) >> PrivVal(2)`, an array of a plain
and two secret integers read and written through the secret index 2, `assert_lt`, `assert_ne`,
`assert_range`, `assert_positive(4)`, `assert_zero`, `assert_nonzero`, a boolean `assert_eq` -/
def pyDemo2 : List Instr :=
  [ .lit (.int 3), .mk .priv 0, .lit (.int 13), .mk .priv 2, .lit (.int 2), .mk .priv 4,
    .bin .pow 0 1,                      -- 6: 3 ** <3> = 27
    .bin .lshift 1 1,                   -- 7: <3> << <3> = 24
    .bin .rshift 3 5,                   -- 8: <13> >> <2> = 3
    .bin .pow 1 5,                      -- 9: <3> ** <2> = 9
    .lit (.int 7), .arr [10, 1, 3],     -- 11: [7, <3>, <13>]
    .aget 11 5,                         -- 12: a[<2>] = 13
    .aset 11 5 1,                       -- 13: a[<2>] = <3>
    .aget 11 5,                         -- 14: a[<2>] = 3
    .call .assertLt 1 [3],              -- 15: <3>.assert_lt(<13>)
    .call .assertNe 3 [0],              -- 16: <13>.assert_ne(3)
    .call .assertRange 1 [4, 3],        -- 17: <3>.assert_range(2, <13>)
    .lit (.int 4), .call .assertPositive 3 [18],   -- 19: <13>.assert_positive(4)
    .bin .sub 14 1, .call .assertZero 20 [],       -- 21: (a[<2>] - <3>).assert_zero()
    .call .assertNonzero 12 [],         -- 22
    .bin .lt 1 3, .lit (.int 1), .call .assertEq 23 [24] ]   -- 25: (<3> < <13>).assert_eq(1)

/-- the reference values of `pyDemo2`, register by register (register 11 is the array AFTER the
write: the reference has Python's list semantics) -/
def pyDemo2Ref : List PyVal :=
  [ .int 3, .int 3, .int 13, .int 13, .int 2, .int 2,
    .int 27, .int 24, .int 3, .int 9,
    .int 7, .list [.int 7, .int 3, .int 3], .int 13, .none, .int 3,
    .none, .none, .none, .int 4, .none, .int 0, .none, .none,
    .bool 1, .int 1, .none ]

/-- in the fragment, covered (no gap left for a secret exponent, a secret index, an assertion), in
the domain; the reference yields the listed values; the traced run completes with these values -/
example :
    PyFragment (St.init 97 5 8) pyDemo2 ∧ PySupported (St.init 97 5 8) pyDemo2 ∧
    InDomain (St.init 97 5 8) pyDemo2 ∧
    (match pyRun 5 pyDemo2 with | .ok r => PyVal.eqbL r pyDemo2Ref | .error _ => false) = true ∧
    (run (St.init 97 5 8) pyDemo2).err = none ∧
    ValRefL (run (St.init 97 5 8) pyDemo2).regs pyDemo2Ref := by
  refine ⟨?_, ?_, ?_, ?_, ?_, ?_⟩ <;> first | decide +kernel | fail "pyDemo2: closed evaluation failed"

/-- `C05_program_total_agrees` applied to `pyDemo2` -/
example : ∃ pregs, pyRun 5 pyDemo2 = .ok pregs ∧
    (run (St.init 97 5 8) pyDemo2).err = none ∧ ValRefL (run (St.init 97 5 8) pyDemo2).regs pregs := by
  haveI : Fact (Nat.Prime 97) := ⟨by norm_num⟩
  have hf : PyFragment (St.init (97 : ℕ) 5 8) pyDemo2 := by
    first | decide +kernel | fail "pyDemo2: not in the fragment"
  have hs : PySupported (St.init (97 : ℕ) 5 8) pyDemo2 := by
    first | decide +kernel | fail "pyDemo2: not covered"
  have hd : InDomain (St.init (97 : ℕ) 5 8) pyDemo2 := by
    first | decide +kernel | fail "pyDemo2: outside the domain"
  cases hr : pyRun 5 pyDemo2 with
  | error e =>
    have : (match pyRun 5 pyDemo2 with | .ok _ => true | .error _ => false) = true := by
      first | decide +kernel | fail "pyDemo2: the reference stops"
    rw [hr] at this; cases this
  | ok pregs => exact ⟨pregs, rfl, C05_program_total_agrees 97 5 8 pyDemo2 hf hs hd pregs hr⟩

/-- the new side conditions are not vacuous, and they are where the traced run DOES raise: each of
these programs is in the fragment and covered, is OUTSIDE `InDomain` for the stated reason only, the
reference run completes (the assertion methods are `None` there), and the traced run raises at that
instruction — a secret `>>` count above the bit length (`PrivVal(13) >> PrivVal(6)`, `bl = 5`:
Python gives 0; the gadget floor-divides by the secret `2^6 > 2^bl`), a negative secret index
(`a[PrivVal(-1)]`: Python gives the last element; `IndexError`, C15), an assertion whose relation is
false (`PrivVal(7).assert_lt(7)`: `AssertionError`, C03) -/
example :
    (let prog : List Instr := [.lit (.int 13), .mk .priv 0, .lit (.int 6), .mk .priv 2, .bin .rshift 1 3]
     PyFragment (St.init 97 5 8) prog ∧ PySupported (St.init 97 5 8) prog ∧
       ¬ InDomain (St.init 97 5 8) prog ∧ (run (St.init 97 5 8) prog).err = some (.assertion, 4) ∧
       (match pyRun 5 prog with | .ok r => PyVal.eqbL r [.int 13, .int 13, .int 6, .int 6, .int 0]
                                | .error _ => false) = true) ∧
    (let prog : List Instr := [.lit (.int 7), .lit (.int (-1)), .mk .priv 1, .arr [0, 0], .aget 3 2]
     PyFragment (St.init 97 5 8) prog ∧ PySupported (St.init 97 5 8) prog ∧
       ¬ InDomain (St.init 97 5 8) prog ∧ (run (St.init 97 5 8) prog).err = some (.index, 4) ∧
       (match pyRun 5 prog with | .ok r => PyVal.eqbL r [.int 7, .int (-1), .int (-1), .list [.int 7, .int 7], .int 7]
                                | .error _ => false) = true) ∧
    (let prog : List Instr := [.lit (.int 7), .mk .priv 0, .call .assertLt 1 [0]]
     PyFragment (St.init 97 5 8) prog ∧ PySupported (St.init 97 5 8) prog ∧
       ¬ InDomain (St.init 97 5 8) prog ∧ (run (St.init 97 5 8) prog).err = some (.assertion, 2) ∧
       (match pyRun 5 prog with | .ok r => PyVal.eqbL r [.int 7, .int 7, .none] | .error _ => false) = true) := by
  refine ⟨⟨?_, ?_, ?_, ?_, ?_⟩, ⟨?_, ?_, ?_, ?_, ?_⟩, ⟨?_, ?_, ?_, ?_, ?_⟩⟩ <;>
    first | decide +kernel | fail "domain side conditions: closed evaluation failed"

/-- the exclusions are not vacuous either: `~x` on a secret integer is rejected by name -/
example : pyFirstExcl [.lit (.int 5), .mk .priv 0, .un .invert 1] 0 [] [] (St.init 97 8 8) =
    some (2, PyExcl.invertSecretInt) := by
  first | decide +kernel | fail "exclusion table changed"

/-- `PrivVal(5) >> -1` as a program: it is in the fragment (no exclusion any more), the traced run
raises `ValueError` at the shift, and so does the reference (`raises` at the same instruction): the
former deviation C05-rshift-negative is an ordinary case of "agrees or raises" -/
example :
    PyFragment (St.init 97 8 8) [.lit (.int 5), .mk .priv 0, .lit (.int (-1)), .bin .rshift 1 2] ∧
    (run (St.init 97 8 8) [.lit (.int 5), .mk .priv 0, .lit (.int (-1)), .bin .rshift 1 2]).err =
      some (.value, 3) ∧
    (match pyRun 8 [.lit (.int 5), .mk .priv 0, .lit (.int (-1)), .bin .rshift 1 2] with
     | .error (.raises, 3) => true | _ => false) = true := by
  refine ⟨?_, ?_, ?_⟩ <;> first | decide +kernel | fail "negative shift count: closed evaluation failed"

/-- … and a secret exponent is excluded exactly when the power wraps: `(-2) ** PrivVal(1)` is,
`2 ** PrivVal(3)` is not -/
example :
    pyFirstExcl [.lit (.int (-2)), .lit (.int 1), .mk .priv 0, .mk .priv 1, .bin .pow 2 3] 0 [] []
      (St.init 97 8 8) = some (4, PyExcl.secretExponentWraps) ∧
    pyFirstExcl [.lit (.int 2), .lit (.int 3), .mk .priv 0, .mk .priv 1, .bin .pow 2 3] 0 [] []
      (St.init 97 8 8) = none := by
  refine ⟨?_, ?_⟩ <;> first | decide +kernel | fail "exclusion table changed"


/-- **API surface pinned** (regenerated from the source on every run, `Gen/Api.lean`): the methods the model of this
property transcribes are exactly the methods the code has.  A method added to the code (say an in-place `__iadd__`, which
Python would prefer over the `__add__` the model knows) or removed from it changes the generated list and this obligation
fails: the tie is then broken by construction and the check runs its extended search. -/
theorem C05_api_surface :
    Gen.api_LinComb = ["__init__", "val", "__repr__", "__deepcopy__", "__lt__", "assert_lt", "__le__", "assert_le", "__eq__", "assert_eq", "__ne__", "assert_ne", "__gt__", "assert_gt", "__ge__", "assert_ge", "__bool__", "__add__", "__sub__", "__mul__", "__truediv__", "__floordiv__", "__mod__", "__divmod__", "__pow__", "__lshift__", "__rshift__", "__and__", "__xor__", "__or__", "__rsub__", "__rtruediv__", "__rfloordiv__", "__rmod__", "__rdivmod__", "__rpow__", "__rlshift__", "__rrshift__", "__neg__", "__pos__", "__abs__", "__invert__", "__complex__", "__int__", "__float__", "__matmul__", "__rmatmul__", "__round__", "__trunc__", "__floor__", "__ceil__", "to_bits", "from_bits", "check_positive", "assert_positive", "check_zero", "check_nonzero", "assert_zero", "assert_nonzero", "assert_range", "_ensurelc", "if_else"] ∧
    Gen.api_LinCombBool = ["__init__", "val", "__repr__", "is_boolean_value", "parse_boolean", "_ensurebool", "__add__", "__sub__", "__mul__", "__truediv__", "__floordiv__", "__mod__", "__divmod__", "__rsub__", "__rtruediv__", "__neg__", "__invert__", "__and__", "__xor__", "__or__", "__eq__", "__ne__", "__lt__", "__le__", "__gt__", "__ge__", "assert_eq", "assert_ne", "assert_lt", "assert_le", "assert_gt", "assert_ge", "__bool__", "__pow__", "__lshift__", "__rshift__", "__pos__", "__abs__", "__int__", "check_positive", "assert_positive", "check_zero", "assert_zero", "assert_nonzero", "if_else"] := ⟨rfl, rfl⟩

end Pysnark
