import PysnarkModel.Spec.Shape
namespace Pysnark
example : True := trivial
end Pysnark
