import PysnarkModel.Lemmas.OblRun
import PysnarkModel.Spec.R1CS
/-!
# C06 — the constraint system does not depend on the values processed

Quantifier: all programs of the instruction language (every operator, assertion, conversion,
selection, guarded region, array access, configuration change), all pairs of initial states of
equal shape (so witness values and the error-suppression flag may differ: "valid run vs. run in
ignore-errors mode on invalid inputs"), all pairs of input literals, both outcomes of every secret
condition, every bitlength, every modulus.  Both runs must complete.
-/
namespace Pysnark

/-- two completing runs of the same program (up to input literals and revealed values, which are
only used to create witnesses) end in states of equal shape — same number and kind of variables,
same constraints with the same coefficients, same guard/ONE wire expressions — and every register
holds values of equal shape (equal wire expressions). -/
def C06_full : Prop :=
  ∀ (s1 s2 : St), s1.shape = s2.shape → ∀ (p1 p2 : List Instr), ProgRel p1 p2 →
  ∀ (o1 o2 : Out), run s1 p1 = o1 → run s2 p2 = o2 → o1.err = none → o2.err = none →
    o1.st.shape = o2.st.shape ∧ o1.regs.length = o2.regs.length ∧
    ∀ (k : Nat) (i : Instr) (v1 v2 : Val), p1[k]? = some i → o1.regs[k]? = some v1 → o2.regs[k]? = some v2 → RegRel i v1 v2

theorem C06 : C06_full := fun s1 s2 hs p1 p2 hrel o1 o2 h1 h2 he1 he2 =>
  run_oblivious s1 s2 hs p1 p2 hrel o1 o2 h1 h2 he1 he2

/-- Boolean checker for `FreeOnlyMk`, so that concrete programs can be discharged by `decide` -/
def freeOnlyMkB (prog : List Instr) : Bool :=
  (List.range prog.length).all fun k =>
    match prog[k]? with
    | some ik => !ik.isFree || prog.all (fun ij => !(ij.reads.contains k) || ij.isMk)
    | none => true

theorem freeOnlyMk_of_B (prog : List Instr) (h : freeOnlyMkB prog = true) : FreeOnlyMk prog := by
  intro k j ik ij hk hfree hj hread
  unfold freeOnlyMkB at h
  rw [List.all_eq_true] at h
  have hklt : k < prog.length := by
    rcases Nat.lt_or_ge k prog.length with h' | h'
    · exact h'
    · rw [List.getElem?_eq_none h'] at hk; cases hk
  have := h k (List.mem_range.mpr hklt)
  simp only [hk, hfree, Bool.not_true, Bool.false_or] at this
  rw [List.all_eq_true] at this
  have hmem : ij ∈ prog := List.mem_of_getElem? hj
  have := this ij hmem
  simp only [Bool.or_eq_true, Bool.not_eq_true', List.contains_eq_mem, decide_eq_false_iff_not] at this
  rcases this with h1 | h1
  · exact absurd hread h1
  · exact h1

/-! non-vacuity: `x < y` followed by a selection and a guarded assertion, run on a valid input
with checks on and on an invalid input (300 does not fit 8 bits; guard false) with checks off:
the hypotheses hold and both runs complete -/
def exProg (a b g : Int) : List Instr :=
  [.lit (.int a), .mk .priv 0, .lit (.int b), .mk .priv 2, .bin .lt 1 3, .ite 4 1 3,
   .lit (.int g), .mk .priv 6, .genter 7, .call .assertLt 1 [3], .gleave, .bin .mul 5 1]

example : ProgRel (exProg 5 7 1) (exProg 300 (-2) 0) ∧
    (St.init 97 8 8).shape = ({ St.init 97 8 8 with ignoreErrors := true }).shape ∧
    (run (St.init 97 8 8) (exProg 5 7 1)).err = none ∧
    (run { St.init 97 8 8 with ignoreErrors := true } (exProg 300 (-2) 0)).err = none := by
  refine ⟨⟨?_, freeOnlyMk_of_B _ (by decide), freeOnlyMk_of_B _ (by decide)⟩, rfl, by decide +kernel, by decide +kernel⟩
  unfold exProg
  repeat first
    | exact Forall2.nil
    | refine Forall2.cons ?_ ?_
    | exact Or.inl rfl
    | exact Or.inr (Or.inl ⟨_, _, rfl, rfl⟩)

end Pysnark
