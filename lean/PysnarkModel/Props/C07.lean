import PysnarkModel.Lemmas.GuardedInertRun
import PysnarkModel.Lemmas.GuardedTransparentNest
import PysnarkModel.Lemmas.GuardedSound
import PysnarkModel.Lemmas.GuardedInv
import PysnarkModel.Lemmas.GuardedProgram
import PysnarkModel.Lemmas.GuardedNest
import PysnarkModel.Lemmas.GuardedZero
import PysnarkModel.Lemmas.GuardedEnforce
/-!
# C07 — a false guard makes code inert; a true guard is transparent

Quantifier: all guarded bodies over the instruction language of `Model/Prog.lean` (every operator in
every operand-kind combination, every assertion and method, selection, arrays, nested regions), both
guard values, all operand values (including those invalid for the body), every bit length,
resolution and modulus.

Vocabulary (Lemmas/GuardedInert*.lean, GuardedTransparent*.lean, GuardedSound.lean):

* `FalseGuard s` : a guard of value 0 is active in `s` and error suppression is on (the tracer
  invariant `Inv` makes the second follow from the first: `FalseGuard.of_inv`).
* `Bad zd e` : `e` is a value-caused exception class: `AssertionError`, `ValueError`, and (when
  `zd = false`) `ZeroDivisionError`.
* `Inert zd p res Q m` : started in ANY false-guard state over modulus `p` / resolution `res`,
  `m` either returns (result satisfying `Q`; guard, error mode, `LinComb.ONE`, bit length,
  resolution, modulus unchanged) or raises an exception that is not `Bad zd`.
* `TRel s1 s2` : the two states agree on `is_guard()`, error suppression, the VALUE of `LinComb.ONE`,
  bit length, resolution, modulus; they may differ in whether a guard is installed.
  `Tr R m1 m2` : from `TRel`-related states both runs return `R`-related results or both raise the
  same exception class.  `vEq`/`VRel` : same kind, same Python-level value.

Whole programs from the initial state (Lemmas/GuardedBool, GuardedProgram, GuardedZero, GuardedNest,
GuardedEnforce.lean): `cfgAt prog j …` is the configuration before instruction `j`.
* `C07_inert_program` / `C07_zerodiv_program`: an instruction reached under an EFFECTIVE guard of
  value 0 (any nesting depth) raises no `AssertionError`/`ValueError`/`ZeroDivisionError` unless it
  is one of the computable deviations `stepOk` / `stepOkZ`; no hypothesis on registers (`BoolV` is an
  invariant of every reachable configuration: `C07_boolean_clean_reached`).
* `C07_sat_program`: every program without `set ign`, nested regions and `/` included.
* `C07_true_transparent_nested`, `C07_true_transparent_from_init`: a true guard entered under an
  effective guard of value 1 (any depth) is transparent.
* `C07_true_enforcement_<gadget>`: same enforcement, per gadget, under every assignment.

Deviations of the code (which the model reproduces), each with a closed counterexample below:
(1) division by zero raises before the guard is consulted [C07-zero-division-under-false-guard],
    including `x >> secret`, whose divisor `2**secret` is computed from `LinComb.ONE` = the guard = 0;
(2) `LinCombBool(x)` / `PrivValBool(c)` / `_ensurebool` on a non-boolean value raise
    [C07-boolean-declaration-under-false-guard];
(3) `backend.fieldinverse` raises `ZeroDivisionError` on a non-zero multiple of the modulus whatever
    the guard (`check_zero`, hence `==`, `!=`, secret array indices; `LinComb / int`)
    [C07-field-zero-under-false-guard].

Not a deviation, but an operand condition of the same list (`stepOk`: `selOk`, `asetOk`): a selection
— `if_then_else`, or a write through a secret array index, which selects element-wise — between two
lists of DIFFERENT lengths is refused with `ValueError` by the length check of `if_then_else`
(`fix:` commit of finding C09-list-length-truncated; `zip` used to drop elements silently).  The
lengths of Python lists are public structure, not values met under the guard: the check is made
before anything is merged and its outcome is the same under a false guard, a true guard and no guard
(`C07_length_check_any_state`), like the `ValueError` for a public condition that is not 0/1.
-/
namespace Pysnark

/-! ## (a) a false guard makes code inert -/

/-- the property at full strength: from a false-guard configuration no balanced body ever ends with
a value-caused exception -/
def C07_inert_full : Prop :=
  ∀ (s : St) (regs : List Val) (frames : List GuardBak) (body : List Instr),
    FalseGuard s → (∀ v ∈ regs, BoolV v) → balanced body 0 = true →
    ∀ e j, (runAux body 0 regs frames s).err = some (e, j) → Bad false e = false

/-- **programs.**  From any configuration in which a false guard is active (`d` inner regions
entered since), a body that never leaves more regions than it enters and whose executed
instructions avoid the listed deviations (`okAlong`: computable; `stepOk` spells them out) ends
neither with `AssertionError` nor with `ValueError`, at any instruction.  (`ZeroDivisionError`:
deviation (3), exact per gadget below and lifted to programs in `C07_zerodiv_program`.  The
hypothesis `BoolV` inside `ICfg` is discharged for programs run from the initial state by
`C07_inert_program`.) -/
theorem C07_inert_total (body : List Instr) (k : Nat) (regs : List Val) (frames : List GuardBak) (s : St) (d : Nat)
    (hcfg : ICfg d s regs frames) (hbal : balanced body d = true) (hok : okAlong body regs frames s = true)
    (e : Err) (j : Nat) (herr : (runAux body k regs frames s).err = some (e, j)) :
    e ≠ .assertion ∧ e ≠ .value := by
  have h := runAux_inert body k regs frames s d hcfg hbal hok e j herr
  constructor <;> (intro he; subst he; simp [Bad] at h)

/-- entering a region with a secret condition of value 0 from an unguarded configuration produces
such a configuration -/
theorem C07_inert_entry {regs regs' : List Val} {frames frames' : List GuardBak} {c : Nat} {s s' : St} {v : Val}
    (hg : s.guard = none) (hregs : ∀ w ∈ regs, BoolV w)
    (hc : (regD regs c).isSecretCond = true) (h0 : condValue (regD regs c) = 0)
    (h : step regs frames (.genter c) s = .ok ((v, regs', frames'), s')) :
    ICfg 0 s' (regs' ++ [v]) frames' := (genter_false_cfg hg hregs hc h0 h).1

/-- a purely syntactic sufficient condition: bodies built from literals, non-boolean constructors,
`+ - *`, unary operators, every non-comparing method (`assert_zero`, `assert_positive`,
`assert_range`, `check_*`, `to_bits`, `val`, …), lists, array construction and reads, nested regions
(selections and array WRITES have operand conditions: `stepOk`) -/
theorem C07_inert_total_syntactic (body : List Instr) (hall : ∀ i ∈ body, i.alwaysOk = true) (k : Nat)
    (regs : List Val) (frames : List GuardBak) (s : St) (d : Nat)
    (hcfg : ICfg d s regs frames) (hbal : balanced body d = true)
    (e : Err) (j : Nat) (herr : (runAux body k regs frames s).err = some (e, j)) :
    e ≠ .assertion ∧ e ≠ .value := by
  refine C07_inert_total body k regs frames s d hcfg hbal ?_ e j herr
  clear herr hbal hcfg
  induction body generalizing regs frames s with
  | nil => rfl
  | cons i is ih =>
    unfold okAlong
    rw [stepOk_of_alwaysOk (hall i (List.mem_cons_self ..)), Bool.true_and]
    split
    · exact ih (fun j hj => hall j (List.mem_cons_of_mem _ hj)) _ _ _
    · rfl

/-! ### programs started from the initial state: no assumption on the registers -/

/-- `LinCombBool.__init__` tests the value before it looks at `constrain`, the guard or the error
mode: whatever the state, one instruction maps boolean-clean registers (`BoolV`: every
`LinCombBool` inside carries 0 or 1) to boolean-clean registers and a boolean-clean result.  So the
hypothesis `BoolV` of `C07_inert_total` cannot fail in a reachable configuration — not outside
regions, not under a true guard, not under a false guard, not in user-selected ignore mode. -/
theorem C07_boolean_clean_step {regs regs' : List Val} {frames frames' : List GuardBak} {i : Instr} {s s' : St} {v : Val}
    (hregs : ∀ w ∈ regs, BoolV w) (hlit : ∀ w, i = .lit w → w.noSecret = true)
    (h : step regs frames i s = .ok ((v, regs', frames'), s')) : BoolV v ∧ ∀ w ∈ regs', BoolV w :=
  step_boolV frames hregs hlit s _ s' h

/-- every configuration a program reaches from the initial state is boolean-clean (no restriction
on `set ign` here) -/
theorem C07_boolean_clean_reached : ∀ (prog : List Instr) (n : Nat) (regs : List Val) (frames : List GuardBak) (s : St),
    (∀ v ∈ regs, BoolV v) → (∀ w, Instr.lit w ∈ prog → w.noSecret = true) →
    ∀ regs' frames' s', cfgAt prog n regs frames s = some (regs', frames', s') → ∀ v ∈ regs', BoolV v
  | _, 0, regs, frames, s, hB, _, regs', frames', s', h => by
    simp only [cfgAt, Option.some.injEq, Prod.mk.injEq] at h
    obtain ⟨rfl, rfl, rfl⟩ := h
    exact hB
  | [], n+1, _, _, _, _, _, _, _, _, h => by simp [cfgAt] at h
  | i :: is, n+1, regs, frames, s, hB, hlit, regs', frames', s', h => by
    have hmem : i ∈ i :: is := List.mem_cons_self ..
    cases hstep : step regs frames i s with
    | error e => simp [cfgAt, hstep] at h
    | ok r =>
      obtain ⟨⟨v, r1, f1⟩, s1⟩ := r
      simp only [cfgAt, hstep] at h
      obtain ⟨hv, hr1⟩ := C07_boolean_clean_step hB (fun w hw => hlit w (hw ▸ hmem)) hstep
      refine C07_boolean_clean_reached is n _ _ _ ?_ (fun w hw => hlit w (List.mem_cons_of_mem _ hw)) regs' frames' s' h
      intro w hw
      rcases List.mem_append.mp hw with hw | hw
      · exact hr1 w hw
      · simp only [List.mem_singleton] at hw; subst hw; exact hv

/-- **the effective guard.**  Entering `guarded(c)` inside a region guarded by `g` (under the tracer
invariant) installs a guard of value `g · c`, and error suppression is on in the inner state exactly
when that product is 0: the active guard of a configuration is the conjunction of the conditions of
all enclosing regions, which is what "guard value at every nesting level" refers to in the
program-level statements (`addGuardCore_nested`, Lemmas/InvNest.lean) -/
theorem C07_effective_guard {s s' : St} {c g : LinComb} {bak : GuardBak} (hinv : Inv s) (hg : s.guard = some g)
    (hc : Good s c) (h : addGuardCore (.lc c) s = .ok (bak, s')) :
    ∃ g', s'.guard = some g' ∧ g'.value = g.value * c.value ∧ (g'.value = 0 ∨ g'.value = 1) ∧
      (s'.ignoreErrors = true ↔ g'.value = 0) := by
  obtain ⟨g', s1, -, f1, -, -, hv, hb, hi, rfl, -⟩ := addGuardCore_nested hinv hg hc h
  refine ⟨g', rfl, hv, hb, ?_⟩
  simp only
  rw [f1.ign]
  exact hi

/-- **programs from the initial state.**  `prog`: any program without `set ign` whose literals are
plain Python values (regions nested to any depth, any guard values).  If the run reaches
instruction `j` in a configuration whose active guard has value 0 — the active guard is the
EFFECTIVE guard, the product of the conditions of all enclosing regions (`addGuardCore_nested`) —
then ANY instruction `i` that is none of the listed deviations on the operands it is about to read
(`stepOk`, computable) raises neither `AssertionError` nor `ValueError` there.  No hypothesis on the
registers, none on the instructions executed before. -/
theorem C07_inert_program (q : Nat) (hq : q.Prime) (bl res : Nat) (prog : List Instr) (hset : NoSetIgn prog)
    (hlit : ∀ w, Instr.lit w ∈ prog → w.noSecret = true) (j : Nat) {regs : List Val} {frames : List GuardBak} {s : St}
    (hcfg : cfgAt prog j [] [] (St.init q bl res) = some (regs, frames, s))
    {g : LinComb} (hg : s.guard = some g) (h0 : g.value = 0)
    (i : Instr) (hok : stepOk s.resolution regs i = true) (e : Err) (herr : step regs frames i s = .error e) :
    e ≠ .assertion ∧ e ≠ .value := by
  obtain ⟨hR, hB⟩ := cfgAt_reach prog j [] [] _ ⟨Inv.init _ _ _, ⟨q, hq, rfl⟩, by simp, by simp⟩ (by simp) hset hlit
    _ _ _ hcfg
  have h := step_err_false_guard (FalseGuard.of_inv hR.inv hg h0) hB hok herr
  constructor <;> (intro he; subst he; simp [Bad] at h)

/-- the length check of a selection does not look at the state: whatever the guard, the error mode
and the values are, `if_then_else(cond, truev, falsev)` on a list and a list (tuple) of another
length is `ValueError`, and nothing has been traced.  (So the `ValueError` that `selOk` / `asetOk`
exclude from `C07_inert_program` is raised identically with and without a guard: it is caused by
public structure, not by a value met under the guard.) -/
theorem C07_length_check_any_state (cond : LinComb) (fuel : Nat) (ts fs : List Val) (s : St) (hl : ts.length ≠ fs.length) :
    iteAux cond (fuel + 1) (.list ts) (.list fs) s = .error .value ∧
    iteAux cond (fuel + 1) (.list ts) (.tuple fs) s = .error .value := by
  constructor <;>
  · unfold iteAux
    simp only [smallIntSame, Bool.false_eq_true, if_false, if_neg hl]
    rfl

/-- the same read off the outcome of the run: an exception raised at instruction `j` was raised by
`prog[j]` in the configuration the run had reached; if the effective guard was 0 there and the
instruction is none of the listed deviations, it is neither `AssertionError` nor `ValueError` -/
theorem C07_inert_program_run (q : Nat) (hq : q.Prime) (bl res : Nat) (prog : List Instr) (hset : NoSetIgn prog)
    (hlit : ∀ w, Instr.lit w ∈ prog → w.noSecret = true) (e : Err) (j : Nat)
    (herr : (run (St.init q bl res) prog).err = some (e, j)) :
    ∃ i regs frames s, prog[j]? = some i ∧ cfgAt prog j [] [] (St.init q bl res) = some (regs, frames, s) ∧
      step regs frames i s = .error e ∧
      (∀ g, s.guard = some g → g.value = 0 → stepOk s.resolution regs i = true → e ≠ .assertion ∧ e ≠ .value) := by
  obtain ⟨n, i, regs, frames, s, hj, hi, hc, he⟩ := runAux_err_cfgAt prog 0 [] [] _ e j herr
  have hn : j = n := by omega
  subst hn
  exact ⟨i, regs, frames, s, hi, hc, he,
    fun g hg h0 hok => C07_inert_program q hq bl res prog hset hlit j hc hg h0 i hok e he⟩

/-- with the deviation list checked along the whole run (`okAlong`, the hypothesis of
`C07_inert_total`): no instruction executed under an effective guard of value 0 raises
`AssertionError` or `ValueError` -/
theorem C07_inert_program_okAlong (q : Nat) (hq : q.Prime) (bl res : Nat) (prog : List Instr) (hset : NoSetIgn prog)
    (hlit : ∀ w, Instr.lit w ∈ prog → w.noSecret = true)
    (hok : okAlong prog [] [] (St.init q bl res) = true) (e : Err) (j : Nat)
    (herr : (run (St.init q bl res) prog).err = some (e, j)) :
    ∃ regs frames s, cfgAt prog j [] [] (St.init q bl res) = some (regs, frames, s) ∧
      (∀ g, s.guard = some g → g.value = 0 → e ≠ .assertion ∧ e ≠ .value) := by
  obtain ⟨i, regs, frames, s, hi, hc, -, h⟩ := C07_inert_program_run q hq bl res prog hset hlit e j herr
  exact ⟨regs, frames, s, hc, fun g hg h0 => h g hg h0 (okAlong_cfgAt prog j [] [] _ hok i regs frames s hi hc)⟩

/-! ### `ZeroDivisionError` under a false guard, for programs -/

/-- **programs: `ZeroDivisionError` included.**  In the situation of `C07_inert_program` (the run of
a plain program from the initial state has reached a configuration whose effective guard is 0), an
instruction that is none of the listed deviations (`stepOk`) and performs no field inversion of a
non-zero multiple of the modulus on the operands it is about to read (`stepOkZ`, computable: the
tested value of `==`/`!=`/`check_zero()`/`check_nonzero()`, `index − k` for every position `k` of a
secret array index, the public divisor of `LinComb / int`) raises NO value-caused exception:
neither `AssertionError`, nor `ValueError`, nor `ZeroDivisionError`. -/
theorem C07_zerodiv_program (q : Nat) (hq : q.Prime) (bl res : Nat) (prog : List Instr) (hset : NoSetIgn prog)
    (hlit : ∀ w, Instr.lit w ∈ prog → w.noSecret = true) (j : Nat) {regs : List Val} {frames : List GuardBak} {s : St}
    (hcfg : cfgAt prog j [] [] (St.init q bl res) = some (regs, frames, s))
    {g : LinComb} (hg : s.guard = some g) (h0 : g.value = 0)
    (i : Instr) (hok : stepOk s.resolution regs i = true) (hz : stepOkZ s.p s.resolution regs i = true)
    (e : Err) (herr : step regs frames i s = .error e) : e ≠ .assertion ∧ e ≠ .value ∧ e ≠ .zerodiv := by
  obtain ⟨hR, hB⟩ := cfgAt_reach prog j [] [] _ ⟨Inv.init _ _ _, ⟨q, hq, rfl⟩, by simp, by simp⟩ (by simp) hset hlit
    _ _ _ hcfg
  obtain ⟨q', hq', hp'⟩ := hR.prime
  have hsm : SmallOk false s.p := by rw [hp']; exact SmallOk.of_prime hq' false
  have h := step_err_false_guardZ (zd := false) (FalseGuard.of_inv hR.inv hg h0) hsm hB hok (fun _ => hz) herr
  refine ⟨?_, ?_, ?_⟩ <;> (intro he; subst he; simp [Bad] at h)

/-- **the only `ZeroDivisionError`s under a false guard are those of finding
C07-field-zero-under-false-guard**: if an instruction that is none of the deviations (1), (2) raises
`ZeroDivisionError` in a reached configuration whose effective guard is 0, it is a zero test, a
secret-index array access or a `/` (`zeroSite`), and its operand condition `stepOkZ` fails: a tested
value (or the public divisor) is not invertible although it is not the integer 0 — over the prime
modulus: a NON-ZERO MULTIPLE of the modulus (`C07_fieldOk_prime`). -/
theorem C07_zerodiv_only_field_zero (q : Nat) (hq : q.Prime) (bl res : Nat) (prog : List Instr) (hset : NoSetIgn prog)
    (hlit : ∀ w, Instr.lit w ∈ prog → w.noSecret = true) (j : Nat) {regs : List Val} {frames : List GuardBak} {s : St}
    (hcfg : cfgAt prog j [] [] (St.init q bl res) = some (regs, frames, s))
    {g : LinComb} (hg : s.guard = some g) (h0 : g.value = 0)
    (i : Instr) (hok : stepOk s.resolution regs i = true)
    (herr : step regs frames i s = .error .zerodiv) :
    stepOkZ s.p s.resolution regs i = false ∧ i.zeroSite = true := by
  have hf : stepOkZ s.p s.resolution regs i = false := by
    cases hz : stepOkZ s.p s.resolution regs i with
    | false => rfl
    | true => exact absurd rfl (C07_zerodiv_program q hq bl res prog hset hlit j hcfg hg h0 i hok hz _ herr).2.2
  exact ⟨hf, zeroSite_of_stepOkZ_false hf⟩

/-- one instruction, any false-guard state over a modulus in which 0, 1, −1 pass the zero test:
the statement behind the two theorems above, with `ZeroDivisionError` in the forbidden set -/
theorem C07_inert_step_zerodiv {s : St} {regs : List Val} {frames : List GuardBak} {i : Instr} {e : Err}
    (hs : FalseGuard s) (hsm : SmallOk false s.p) (hregs : ∀ v ∈ regs, BoolV v)
    (hok : stepOk s.resolution regs i = true) (hz : stepOkZ s.p s.resolution regs i = true)
    (h : step regs frames i s = .error e) : Bad false e = false :=
  step_err_false_guardZ hs hsm hregs hok (fun _ => hz) h

/-! ### every gadget, with `ZeroDivisionError` in the forbidden set (`zd = false`) -/
section gadgets
variable {p : Int} {res : Nat}

/-- the guarded arm of `add_constraint` never raises, whatever `v·w − y` is -/
theorem C07_inert_addConstraint (v w y : LinComb) (check : Bool) :
    Inert false p res (fun _ => True) (addConstraint v w y check) := addConstraint_inert v w y check
theorem C07_inert_checkPositive (x : LinComb) (bits : Option Nat) :
    Inert false p res (fun r => r.value = 0 ∨ r.value = 1) (checkPositive x bits) := checkPositive_inert x bits
theorem C07_inert_toBits (x : LinComb) (bits : Option Nat) : Inert false p res (BitsOfVal x) (toBits x bits) :=
  toBits_inert x bits
theorem C07_inert_assertZero (x : LinComb) : Inert false p res (fun _ => True) (assertZero x) := assertZero_inert x
theorem C07_inert_assertPositive (x : LinComb) (bits : Option Nat) :
    Inert false p res (fun _ => True) (assertPositive x bits) := assertPositive_inert x bits
theorem C07_inert_assertNonzero (x : LinComb) : Inert false p res (fun _ => True) (assertNonzero x) :=
  assertNonzero_inert x
/-- the six comparison assertions and `assert_range`: all operand values -/
theorem C07_inert_asserts (a b lo hi : LinComb) :
    Inert false p res (fun _ => True) (assertLt a b) ∧ Inert false p res (fun _ => True) (assertLe a b) ∧
    Inert false p res (fun _ => True) (assertEq a b) ∧ Inert false p res (fun _ => True) (assertNe a b) ∧
    Inert false p res (fun _ => True) (assertGt a b) ∧ Inert false p res (fun _ => True) (assertGe a b) ∧
    Inert false p res (fun _ => True) (assertRange a lo hi) :=
  ⟨assertLt_inert a b, assertLe_inert a b, assertEq_inert a b, assertNe_inert a b, assertGt_inert a b,
   assertGe_inert a b, assertRange_inert a lo hi⟩
/-- the four order comparisons, with a secret or a public right operand: all operand values -/
theorem C07_inert_order (a b : LinComb) (c : Int) :
    Inert false p res (fun r => r.value = 0 ∨ r.value = 1) (ltLL a b) ∧
    Inert false p res (fun r => r.value = 0 ∨ r.value = 1) (leLL a b) ∧
    Inert false p res (fun r => r.value = 0 ∨ r.value = 1) (gtLL a b) ∧
    Inert false p res (fun r => r.value = 0 ∨ r.value = 1) (geLL a b) ∧
    Inert false p res (fun r => r.value = 0 ∨ r.value = 1) (ltLI a c) ∧
    Inert false p res (fun r => r.value = 0 ∨ r.value = 1) (leLI a c) ∧
    Inert false p res (fun r => r.value = 0 ∨ r.value = 1) (gtLI a c) ∧
    Inert false p res (fun r => r.value = 0 ∨ r.value = 1) (geLI a c) :=
  ⟨ltLL_inert a b, leLL_inert a b, gtLL_inert a b, geLL_inert a b, ltLI_inert a c, leLI_inert a c,
   gtLI_inert a c, geLI_inert a c⟩
/-- zero tests (`==`, `!=`, `check_zero`, `check_nonzero`): inert exactly when the tested value is
not a non-zero multiple of the modulus (deviation (3)) -/
theorem C07_inert_zero_tests (x a b : LinComb) (hx : FieldOk p x.value) (hab : FieldOk p (a.value - b.value)) :
    Inert false p res (fun r => r.value = 0 ∨ r.value = 1) (checkZero x) ∧
    Inert false p res (fun r => r.value = 0 ∨ r.value = 1) (checkNonzero x) ∧
    Inert false p res (fun r => r.value = 0 ∨ r.value = 1) (eqLL a b) ∧
    Inert false p res (fun r => r.value = 0 ∨ r.value = 1) (neLL a b) :=
  ⟨checkZero_inert x (fun _ => hx), checkNonzero_inert x (fun _ => hx), eqLL_inert a b (fun _ => hab),
   neLL_inert a b (fun _ => hab)⟩
/-- over a prime modulus the side condition reads: the value is 0 or not a multiple of the modulus -/
theorem C07_fieldOk_prime {q : Nat} (hq : q.Prime) (v : Int) : FieldOk q v ↔ (v = 0 ∨ ¬ (q : Int) ∣ v) :=
  fieldOk_iff_prime hq v
theorem C07_inert_mul (a b : LinComb) : Inert false p res (fun r => r.value = a.value * b.value) (mulLL a b) :=
  mulLL_inert a b
/-- exact division by a secret: inexact quotients are suppressed; a zero divisor is deviation (1) -/
theorem C07_inert_truediv_secret (a : LinComb) {b : LinComb} (hb : b.value ≠ 0) :
    Inert false p res (fun _ => True) (truedivLL a b) := truedivLL_inert a hb
/-- exact division by a public integer: zero is deviation (1), a multiple of the modulus deviation (3) -/
theorem C07_inert_truediv_public (a : LinComb) {c : Int} (hc : c ≠ 0) (hi : (Py.invert c p).isSome = true) :
    Inert false p res (fun _ => True) (truedivLI a c) := truedivLI_inert a hc (fun _ => hi)
/-- `divmod`, hence `//` and `%`: negative or oversized operands are suppressed; a zero divisor is
deviation (1) -/
theorem C07_inert_divmod (a : LinComb) {d : LinComb} (hd : d.value ≠ 0) :
    Inert false p res (fun _ => True) (divmodLL a d) := divmodLL_inert a hd
theorem C07_inert_pow_public (a : LinComb) (n : Nat) : Inert false p res (fun _ => True) (powLN a n) := powLN_inert a n
/-- power with a secret exponent (any exponent value), over a prime modulus -/
theorem C07_inert_pow_secret {q : Nat} (hq : q.Prime) (a e : LinComb) :
    Inert false (q : Int) res (fun _ => True) (powLL a e) := powLL_inert a e (SmallOk.of_prime hq false)
/-- shifts by a public count (a negative count of `<<` or `>>` is Python's own `ValueError`) -/
theorem C07_inert_shifts (a : LinComb) {n : Int} (hn : 0 ≤ n) {m : Int} (hm : 0 ≤ m) :
    Inert false p res (fun _ => True) (lshiftLI a n) ∧ Inert false p res (fun _ => True) (rshiftLI a m) :=
  ⟨lshiftLI_inert a hn, rshiftLI_inert a hm⟩
/-- `&`, `|`, `^` with a secret or a public operand, `~`, `abs`, selection: all operand values -/
theorem C07_inert_bitwise (a b c t f : LinComb) (k : Int) :
    Inert false p res (fun _ => True) (andLL a b) ∧ Inert false p res (fun _ => True) (orLL a b) ∧
    Inert false p res (fun _ => True) (xorLL a b) ∧ Inert false p res (fun _ => True) (andLI a k) ∧
    Inert false p res (fun _ => True) (orLI a k) ∧ Inert false p res (fun _ => True) (xorLI a k) ∧
    Inert false p res (fun _ => True) (invertL a) ∧ Inert false p res (fun _ => True) (absL a) ∧
    Inert false p res (fun _ => True) (iteLLL c t f) :=
  ⟨andLL_inert a b, orLL_inert a b, xorLL_inert a b, andLI_inert a k, orLI_inert a k, xorLI_inert a k,
   invertL_inert a, absL_inert a, iteLLL_inert c t f⟩
/-- `LinCombBool(x)`: inert exactly for boolean values (deviation (2)) -/
theorem C07_inert_bool_declaration {x : LinComb} (c : Bool) (hx : x.value = 0 ∨ x.value = 1) :
    Inert false p res (fun r => r = x) (mkBool x c) := mkBool_inert c hx
/-- what `Inert` says, spelled out -/
theorem C07_inert_unfold {α : Type} {zd : Bool} {Q : α → Prop} {m : M α} (h : Inert zd p res Q m) (s : St)
    (hs : FalseGuard s) (hp : s.p = p) (hr : s.resolution = res) :
    (∀ a s', m s = .ok (a, s') → Q a ∧ Same s s') ∧ (∀ e, m s = .error e → Bad zd e = false) := h s hs hp hr
end gadgets

/-! ### the deviations: closed counterexamples on the model (each replayed on the real code) -/
def bn254 : Int := 21888242871839275222246405745257275088548364400416034343698204186575808495617

/-- `PrivVal(7) / PrivVal(0)` under `guarded(PrivVal(0))` raises `ValueError` (finding
C07-zero-division-under-false-guard; corpus/C07/known.case divzero) -/
theorem C07_cex_zero_division :
    (run (St.init bn254 8 8) [.lit (.int 7), .mk .priv 0, .lit (.int 0), .mk .priv 2, .lit (.int 0), .mk .priv 4,
      .genter 5, .bin .truediv 1 3, .gleave]).err = some (.value, 7) := by decide +kernel

/-- `LinCombBool(PrivVal(7))` under `guarded(PrivVal(0))` raises `ValueError` (finding
C07-boolean-declaration-under-false-guard; corpus/C07/known.case boolnonbool) -/
theorem C07_cex_boolean_declaration :
    (run (St.init bn254 8 8) [.lit (.int 7), .mk .priv 0, .lit (.int 0), .mk .priv 2, .genter 3, .wrapb 1,
      .gleave]).err = some (.value, 5) := by decide +kernel

theorem C07_cex_bool_declaration :
    (run (St.init bn254 8 8) [.lit (.int 7), .mk .priv 0, .lit (.int 0), .mk .priv 2, .genter 3, .wrapb 1,
      .gleave]).err = some (.value, 5) := C07_cex_boolean_declaration

/-- `PrivVal(p) == 0` under `guarded(PrivVal(0))` raises `ZeroDivisionError`: `check_zero` inverts a
non-zero multiple of the modulus before any guard is consulted (deviation (3); finding
C07-field-zero-under-false-guard; corpus/C07/known.case fieldzeroeq) -/
theorem C07_cex_field_zero :
    (run (St.init bn254 8 8) [.lit (.int bn254), .mk .priv 0, .lit (.int 0), .mk .priv 2, .genter 3, .lit (.int 0),
      .bin .eq 1 5, .gleave]).err = some (.zerodiv, 6) := by decide +kernel

/-- `PrivVal(8) >> PrivVal(1)` under `guarded(PrivVal(0))` raises `ValueError` ("Division by zero"):
the divisor `2**PrivVal(1)` is a product that starts from `LinComb.ONE`, which is the guard
(value 0) inside the region (an instance of deviation (1) outside the signature recorded for it) -/
theorem C07_cex_rshift_secret :
    (run (St.init bn254 8 8) [.lit (.int 8), .mk .priv 0, .lit (.int 1), .mk .priv 2, .lit (.int 0), .mk .priv 4,
      .genter 5, .bin .rshift 1 3, .gleave]).err = some (.value, 7) := by decide +kernel

/-- the unrestricted statement is false -/
theorem C07_inert_full_false : ¬ C07_inert_full := by
  intro h
  let g : LinComb := ⟨0, [(Wire.priv 2, 1)]⟩
  let s : St := { (St.init 97 8 8) with priv := [7, 0, 0], guard := some g, ignoreErrors := true, one := g }
  have := h s [.int 7, .lc ⟨7, [(Wire.priv 0, 1)]⟩, .int 0, .lc ⟨0, [(Wire.priv 1, 1)]⟩] []
    [.bin .truediv 1 3] ⟨rfl, g, rfl, rfl⟩ (by intro v hv; simp at hv; rcases hv with rfl | rfl | rfl | rfl <;> simp)
    rfl .value 0 (by decide +kernel)
  simp [Bad] at this

/-! ## (b) … and leaves the constraint system satisfied by the recorded witness -/

/-- `add_constraint` under a false guard keeps the tracer invariant (every constraint satisfied by
the recorded witness, every live value coherent) for ALL operand values, with no call-site
obligation at all -/
theorem C07_inert_sat_addConstraint {s s' : St} {v w y g : LinComb} {check : Bool} {u : Unit} (hinv : Inv s)
    (hv : Good s v) (hw : Good s w) (hy : Good s y) (hg : s.guard = some g) (g0 : g.value = 0)
    (h : addConstraint v w y check s = .ok (u, s')) : Inv s' ∧ ∀ c ∈ s'.cons, Sat s'.p s'.assign c := by
  obtain ⟨-, -, inv⟩ := addConstraint_false_guard_spec hinv hv hw hy hg g0 h
  exact ⟨inv, inv.sat⟩

/-- **programs, full strength**: ANY program without `set ign` whose literals are plain Python
values: guarded regions nested to any depth with guards of either value, `/` anywhere, operands of
the guarded bodies invalid or not.  Whether the run completes or raises (then `out.st` is the state
before the failing instruction with the `guarded` frames unwound): every constraint is satisfied by
the recorded witness, every register is coherent, the tracer invariant holds.  Instance of
`run_inv_any` (C01/C04 at full strength; the effective guard of a nested region is analysed in
Lemmas/InvNest.lean). -/
theorem C07_sat_program (q : Nat) (hq : q.Prime) (bl res : Nat) (prog : List Instr) (hset : NoSetIgn prog)
    (hlit : ∀ w, Instr.lit w ∈ prog → w.noSecret = true) :
    (∀ k ∈ (run (St.init q bl res) prog).st.cons,
        Sat (run (St.init q bl res) prog).st.p (run (St.init q bl res) prog).st.assign k) ∧
      (∀ v ∈ (run (St.init q bl res) prog).regs, GoodV (run (St.init q bl res) prog).st v) ∧
      Inv (run (St.init q bl res) prog).st := by
  obtain ⟨inv, good⟩ := run_inv_plain_any q hq bl res prog hset hlit
  exact ⟨inv.sat, good, inv⟩

/-- the same at every configuration the run reaches (in particular inside regions whose guard is
false, where the operands may be arbitrary): invariant, coherent registers, coherent saved frames -/
theorem C07_sat_reached (q : Nat) (hq : q.Prime) (bl res : Nat) (prog : List Instr) (hset : NoSetIgn prog)
    (hlit : ∀ w, Instr.lit w ∈ prog → w.noSecret = true) (n : Nat) {regs : List Val} {frames : List GuardBak} {s : St}
    (h : cfgAt prog n [] [] (St.init q bl res) = some (regs, frames, s)) :
    (∀ k ∈ s.cons, Sat s.p s.assign k) ∧ (∀ v ∈ regs, GoodV s v) ∧ Inv s := by
  obtain ⟨hR, -⟩ := cfgAt_reach prog n [] [] _ ⟨Inv.init _ _ _, ⟨q, hq, rfl⟩, by simp, by simp⟩ (by simp) hset hlit
    _ _ _ h
  exact ⟨hR.inv.sat, hR.regs, hR.inv⟩

/-- **programs** (first form, kept as a corollary): a completed run of
`pre; genter c; body; gleave; post` of the `Fragment` (flat regions, no `/`). -/
theorem C07_inert_sat (q : Nat) (hq : q.Prime) (bl res : Nat) (pre body post : List Instr) (c : Nat)
    (hfrag : Fragment (pre ++ .genter c :: body ++ .gleave :: post))
    (hlit : ∀ w, Instr.lit w ∈ pre ++ .genter c :: body ++ .gleave :: post → w.noSecret = true)
    (out : Out) (hout : run (St.init q bl res) (pre ++ .genter c :: body ++ .gleave :: post) = out)
    (_herr : out.err = none) :
    (∀ k ∈ out.st.cons, Sat out.st.p out.st.assign k) ∧ (∀ v ∈ out.regs, GoodV out.st v) ∧ Inv out.st := by
  subst hout
  exact C07_sat_program q hq bl res _ hfrag.1 hlit

/-- inside the region the invariant pins the error mode to the guard value: suppression is on
exactly under a false guard -/
theorem C07_false_guard_of_inv {s : St} (hinv : Inv s) {g : LinComb} (hg : s.guard = some g) (h0 : g.value = 0) :
    FalseGuard s := FalseGuard.of_inv hinv hg h0

/-! ## (c) … while the value selected from the other branch is still uniquely determined -/
section select
variable {p : ℕ} [Fact p.Prime] {s s' : St}

/-- `if_then_else(c, t, f) = f + c·(t − f)`: under EVERY assignment `w'` that satisfies the
constraint the selection emits and gives the condition the value 0, the result evaluates to the
false branch, whatever the wires of `t` carry (they may be unconstrained wires created under a
false guard) -/
theorem C07_selected_false {c t f r : LinComb} {w' : Wire → Int} (hp : s.p = p) (ht : t.lc.WF) (hf : f.lc.WF)
    (h : iteLLL c t f s = .ok (r, s')) (hw : NewSat s s' w') (hc : ev p w' c.lc = 0) :
    ev p w' r.lc = ev p w' f.lc := iteLLL_selects_false hp ht hf h hw hc

theorem C07_selected_true {c t f r : LinComb} {w' : Wire → Int} (hp : s.p = p) (ht : t.lc.WF) (hf : f.lc.WF)
    (h : iteLLL c t f s = .ok (r, s')) (hw : NewSat s s' w') (hc : ev p w' c.lc = 1) :
    ev p w' r.lc = ev p w' t.lc := iteLLL_selects_true hp ht hf h hw hc

/-- uniqueness: two satisfying assignments that agree on the condition (0 or 1) and on the branch
it selects agree on the result; they may disagree arbitrarily on the other branch -/
theorem C07_selected_determined {c t f r : LinComb} {w1 w2 : Wire → Int} (hp : s.p = p) (ht : t.lc.WF)
    (hf : f.lc.WF) (h : iteLLL c t f s = .ok (r, s')) (hw1 : NewSat s s' w1) (hw2 : NewSat s s' w2)
    (hc : ev p w1 c.lc = ev p w2 c.lc) (hb : ev p w1 c.lc = 0 ∨ ev p w1 c.lc = 1)
    (hsel : (ev p w1 c.lc = 0 → ev p w1 f.lc = ev p w2 f.lc) ∧ (ev p w1 c.lc = 1 → ev p w1 t.lc = ev p w2 t.lc)) :
    ev p w1 r.lc = ev p w2 r.lc := iteLLL_determined hp ht hf h hw1 hw2 hc hb hsel
end select

/-- the wires of the inert branch really are unconstrained: under an assignment that gives the guard
expression the value 0, the two constraints of a guarded `add_constraint` are satisfied by the
choice of the dummy wire alone, whatever `v`, `w`, `y` evaluate to -/
theorem C07_false_guard_enforces_nothing {p : ℕ} {s s' : St} {w' : Wire → Int} {v w y g : LinComb} {check : Bool}
    {u : Unit} (hp : s.p = p) (hg : s.guard = some g) (hy : y.lc.WF)
    (h : addConstraint v w y check s = .ok (u, s')) (h0 : ev p w' g.lc = 0)
    (hd : (w' (.priv s.priv.length) : ZMod p) = ev p w' v.lc * ev p w' w.lc - ev p w' y.lc) :
    NewSat s s' w' := addConstraint_guarded_false_free hp hg hy h h0 hd

/-! ## (d) a true guard is transparent -/

/-- **programs: same values, same errors** — the statement for whole programs.  `body`: any
well-bracketed instruction list (regions nested to any depth, with guards of either value) without
`set ign` and `set bitlength 0`; `post`: any code at all.  `s`: any state without a guard, with
error checking on, bit length ≥ 1 and `LinComb.ONE` = 1; register `c` holds a secret (`LinComb` or
`LinCombBool`) of value 1.  The guarded text `genter c; body; gleave; post` and the text in which the
two markers are no-ops (`lit None`, keeping register numbers aligned) end with the same error at the
same instruction or both complete; all registers are pairwise of the same kind with the same
Python-level values; the final states agree on `is_guard()`, error mode, value of `LinComb.ONE`,
bit length, resolution, modulus (`OutRel`). -/
def C07_true_transparent_full : Prop :=
  ∀ (body post : List Instr) (k : Nat) (regs : List Val) (frames : List GuardBak) (s : St) (c : Nat) (x : LinComb),
    bracketed body 0 = true → (∀ i ∈ body, i.twinOk = true) →
    s.guard = none → s.ignoreErrors = false → 1 ≤ s.bitlength → s.one.value = 1 →
    (∃ cv, regs[c]? = some cv ∧ condOf cv = some x) → x.value = 1 →
    OutRel (runAux (.lit .none :: (body ++ .lit .none :: post)) k regs frames s)
      (runAux (.genter c :: (body ++ .gleave :: post)) k regs frames s)

theorem C07_true_transparent_programs : C07_true_transparent_full :=
  fun body post k regs frames s c _ hb hok hg hi hbl hone hc hx =>
    region_transparent_nest (nest_of_bracketed post body 0 hb hok) k regs frames s c hg hi hbl hone hc hx

/-- **both guard values at every nesting level: a true guard under a true guard.**  The same
statement for a region entered in a state whose active guard — the effective guard of ALL enclosing
regions — has value 1 (error checking on, as the tracer invariant says it is under a guard of value
1; `LinComb.ONE`, which is that guard, of value 1; bit length ≥ 1, without which `outer & cond`
cannot be computed).  The inner effective guard `outer & cond` is 1 again.  The unguarded twin runs
under the outer guard only. -/
def C07_true_transparent_nested_full : Prop :=
  ∀ (body post : List Instr) (k : Nat) (regs : List Val) (frames : List GuardBak) (s : St) (c : Nat) (g x : LinComb),
    bracketed body 0 = true → (∀ i ∈ body, i.twinOk = true) →
    s.guard = some g → g.value = 1 → s.ignoreErrors = false → 1 ≤ s.bitlength → s.one.value = 1 →
    (∃ cv, regs[c]? = some cv ∧ condOf cv = some x) → x.value = 1 →
    OutRel (runAux (.lit .none :: (body ++ .lit .none :: post)) k regs frames s)
      (runAux (.genter c :: (body ++ .gleave :: post)) k regs frames s)

theorem C07_true_transparent_nested : C07_true_transparent_nested_full :=
  fun body post k regs frames s c _ _ hb hok hg g1 hi hbl hone hc hx =>
    region_transparent_nested (nest_of_bracketed post body 0 hb hok) k regs frames s c hg g1 hi hbl hone hc hx

/-- the inner guard really is 1: `add_guard(x)` with `x = 1` under a guard of value 1 succeeds and
installs a guard of the same value as the outer one (`GRel`: same observable configuration, active
guards of equal value) -/
theorem C07_true_in_true_guard {s : St} {g x : LinComb} (hg : s.guard = some g) (g1 : g.value = 1)
    (hi : s.ignoreErrors = false) (hbl : 1 ≤ s.bitlength) (hone : s.one.value = 1) (hx : x.value = 1) :
    ∃ bak s' g', addGuardCore (.lc x) s = .ok (bak, s') ∧ s'.guard = some g' ∧ g'.value = 1 ∧
      s'.ignoreErrors = false := by
  obtain ⟨bak, s', h, hrel⟩ := addGuardCore_true_in_true hg g1 hi hbl hone hx
  have hgd := hrel.guard
  rw [hg] at hgd
  cases hg' : s'.guard with
  | none => rw [hg'] at hgd; cases hgd
  | some g' =>
    rw [hg'] at hgd
    have hv : g.value = g'.value := by cases hgd with | some h => exact h
    exact ⟨bak, s', g', h, hg', by rw [← hv, g1], by rw [← hrel.tr.ign, hi]⟩

/-- the hypothesis `1 ≤ s.bitlength` of the nested statements is needed: at bit length 0 the inner
`add_guard` computes `outer & cond` by `to_bits()`, which rejects the value 1 ("1 is not a 0-bit
positive integer": `AssertionError` from `guarded()` itself, replayed on the real code), while the
text without the inner markers completes -/
theorem C07_cex_nested_bitlength_zero :
    (run (St.init bn254 0 8) [.lit (.int 1), .mk .priv 0, .genter 1, .genter 1, .gleave, .gleave]).err
      = some (.assertion, 3) ∧
    (run (St.init bn254 0 8) [.lit (.int 1), .mk .priv 0, .genter 1, .lit .none, .lit .none, .gleave]).err = none := by
  constructor <;> first | decide +kernel | fail "closed computation failed"

/-- **whole programs from the initial state, any nesting level.**  `pre`: any code without
`set ign` (it may have entered any number of regions).  If it completes in a configuration whose
effective guard is absent or 1 (`is_guard()`), at a bit length ≥ 1, and register `c` then holds a
secret of value 1, the program with the region markers and the program with no-ops in their place
end alike; if `pre` raises, both programs are the same run. -/
theorem C07_true_transparent_from_init (q : Nat) (hq : q.Prime) (bl res : Nat) (pre body post : List Instr) (c : Nat)
    (hset : NoSetIgn pre) (hlit : ∀ w, Instr.lit w ∈ pre → w.noSecret = true)
    (hb : bracketed body 0 = true) (hok : ∀ i ∈ body, i.twinOk = true)
    (hentry : ∀ regs frames s, cfgAt pre pre.length [] [] (St.init q bl res) = some (regs, frames, s) →
      s.isGuard = true ∧ 1 ≤ s.bitlength ∧ ∃ cv x, regs[c]? = some cv ∧ condOf cv = some x ∧ x.value = 1) :
    OutRel (run (St.init q bl res) (pre ++ .lit .none :: (body ++ .lit .none :: post)))
      (run (St.init q bl res) (pre ++ .genter c :: (body ++ .gleave :: post))) := by
  unfold run
  obtain ⟨a1, a2⟩ := runAux_append_cfgAt pre (.lit .none :: (body ++ .lit .none :: post)) 0 [] [] (St.init q bl res)
  obtain ⟨b1, b2⟩ := runAux_append_cfgAt pre (.genter c :: (body ++ .gleave :: post)) 0 [] [] (St.init q bl res)
  cases hc : cfgAt pre pre.length [] [] (St.init q bl res) with
  | none =>
    rw [a2 hc, b2 hc]
    exact ⟨rfl, forall2_refl VRel.refl _, ⟨rfl, rfl, rfl, rfl, rfl, rfl⟩⟩
  | some cfg =>
    obtain ⟨regs, frames, s⟩ := cfg
    rw [a1 _ _ _ hc, b1 _ _ _ hc]
    obtain ⟨hisg, hbl, cv, x, hcv, hcond, hx⟩ := hentry _ _ _ hc
    obtain ⟨hR, -⟩ := cfgAt_reach pre pre.length [] [] _ ⟨Inv.init _ _ _, ⟨q, hq, rfl⟩, by simp, by simp⟩ (by simp)
      hset hlit _ _ _ hc
    have hinv := hR.inv
    cases hg : s.guard with
    | none =>
      have hone : s.one.value = 1 := by rw [hinv.oneNone hg]; rfl
      exact C07_true_transparent_programs body post _ regs frames s c x hb hok hg (hinv.ign_false_of_none hg) hbl hone
        ⟨cv, hcv, hcond⟩ hx
    | some g =>
      have g1 : g.value = 1 := by
        simpa [St.isGuard, hg] using hisg
      have hone : s.one.value = 1 := by rw [hinv.oneSome g hg]; exact g1
      exact C07_true_transparent_nested body post _ regs frames s c g x hb hok hg g1 (hinv.ign_false_of_one hg g1) hbl hone
        ⟨cv, hcv, hcond⟩ hx

/-- the same for flat bodies (no region inside the region, nothing after it), but in EVERY error mode
(also when the user has switched error checking off) and at every bit length: `Twin is1 is2` says
`is2 = body ++ [gleave]`, `is1 = body ++ [lit None]`, `body` free of region markers and `set ign` -/
theorem C07_true_transparent {is1 is2 : List Instr} (htw : Twin is1 is2) (k : Nat) (regs : List Val)
    (frames : List GuardBak) (s : St) (c : Nat) {x : LinComb}
    (hg : s.guard = none) (hone : s.one.value = 1)
    (hc : ∃ cv, regs[c]? = some cv ∧ condOf cv = some x) (hx : x.value = 1) :
    OutRel (runAux (.lit .none :: is1) k regs frames s) (runAux (.genter c :: is2) k regs frames s) :=
  region_transparent htw k regs frames s c hg hone hc hx

/-- the same program from two configurations that agree on everything observable and whose active
guards have equal values ends alike: what holds inside nested regions and after the region -/
theorem C07_true_transparent_same (is : List Instr) (k : Nat) (regs1 regs2 : List Val)
    (frames1 frames2 : List GuardBak) (s1 s2 : St) (hs : GRel s1 s2) (hregs : Forall2 VRel regs1 regs2)
    (hf : Forall2 BakPair frames1 frames2) :
    OutRel (runAux is k regs1 frames1 s1) (runAux is k regs2 frames2 s2) :=
  runAux_same is k regs1 regs2 frames1 frames2 s1 s2 hs hregs hf

/-- true outer guard, false inner guard: the nested region starts in a false-guard state, so part
(a) applies to its body -/
theorem C07_nested_false_in_true {cond : Val} {s s' : St} {bak : GuardBak} {g : LinComb}
    (hg : s.guard = some g) (g1 : g.value = 1) (hi : s.ignoreErrors = false)
    (hc : cond.isSecretCond = true) (h0 : condValue cond = 0) (h : addGuard cond s = .ok (bak, s')) :
    FalseGuard s' := (addGuard_enter_false_nested hg g1 hi hc h0 h).1

/-- one instruction (every operator, method, constructor, selection, array access) from related
register files in related states: same error or related results -/
theorem C07_true_transparent_step {regs1 regs2 : List Val} (hregs : Forall2 VRel regs1 regs2)
    (f1 f2 : List GuardBak) {i : Instr} (hi : i.isPureOp = true) {s1 s2 : St} (hs : TRel s1 s2) :
    TrOut (TStepRel f1 f2) s1 s2 (step regs1 f1 i s1) (step regs2 f2 i s2) := step_body_tr hregs f1 f2 hi s1 s2 hs

/-- every binary operator on operands of every kind -/
theorem C07_true_transparent_binop (op : BinOp) {a1 a2 b1 b2 : Val} (ha : VRel a1 a2) (hb : VRel b1 b2) :
    Tr VRel (binopV op a1 b1) (binopV op a2 b2) := binopV_tr op ha hb

/-- the gadgets whose hints depend on `is_guard()`: same hints, same checks, same results -/
theorem C07_true_transparent_gadgets {x1 x2 y1 y2 : LinComb} (hx : vEq x1 x2) (hy : vEq y1 y2) (bits : Option Nat)
    (c : Int) :
    Tr vEq (checkPositive x1 bits) (checkPositive x2 bits) ∧
    Tr (Forall2 vEq) (toBits x1 bits) (toBits x2 bits) ∧
    Tr (fun _ _ => True) (assertZero x1) (assertZero x2) ∧
    Tr (fun _ _ => True) (assertNonzero x1) (assertNonzero x2) ∧
    Tr (fun _ _ => True) (assertPositive x1 bits) (assertPositive x2 bits) ∧
    Tr vEq (truedivLL x1 y1) (truedivLL x2 y2) ∧ Tr vEq (truedivLI x1 c) (truedivLI x2 c) ∧
    Tr vEqP (divmodLL x1 y1) (divmodLL x2 y2) ∧ Tr vEq (powLL x1 y1) (powLL x2 y2) ∧
    Tr vEq (mkBool x1 true) (mkBool x2 true) :=
  ⟨checkPositive_tr hx bits, toBits_tr hx bits, assertZero_tr hx, assertNonzero_tr hx, assertPositive_tr hx bits,
   truedivLL_tr hx hy, truedivLI_tr hx c, divmodLL_tr hx hy, powLL_tr hx hy, mkBool_tr hx true⟩

/-- `add_constraint` itself: the guarded arm never raises, the unguarded arm raises when the integer
check fails; they agree given the call-site fact `hob` (established by every caller: `mkBool`,
`assert_zero`, `check_positive`, `/`, `divmod`) -/
theorem C07_true_transparent_addConstraint {v1 w1 y1 v2 w2 y2 : LinComb} {check : Bool} {s1 s2 : St}
    (h : TRel s1 s2) (hv : vEq v1 v2) (hw : vEq w1 w2) (hy : vEq y1 y2)
    (hob : check = true → s1.ignoreErrors = false → s1.isGuard = true → v1.value * w1.value = y1.value) :
    TrOut (fun _ _ => True) s1 s2 (addConstraint v1 w1 y1 check s1) (addConstraint v2 w2 y2 check s2) :=
  addConstraint_trOut h hv hw hy hob

/-- **same enforcement.**  Under a guard `g` the call emits `v*w = y + dummy` and `g*dummy = 0`; for
EVERY assignment `w'` satisfying both with the guard expression evaluating to 1, the relation the
unguarded call emits, `v*w = y`, holds -/
theorem C07_true_enforcement {p : ℕ} {s s' : St} {w' : Wire → Int} {v w y g : LinComb} {check : Bool} {u : Unit}
    (hp : s.p = p) (hg : s.guard = some g) (hy : y.lc.WF) (h : addConstraint v w y check s = .ok (u, s'))
    (hw : NewSat s s' w') (h1 : ev p w' g.lc = 1) :
    ev p w' v.lc * ev p w' w.lc = ev p w' y.lc := addConstraint_guarded_enforces hp hg hy h hw h1

/-- … and for every non-zero value of the guard expression over a prime field -/
theorem C07_true_enforcement_nonzero {p : ℕ} [Fact p.Prime] {s s' : St} {w' : Wire → Int} {v w y g : LinComb}
    {check : Bool} {u : Unit} (hp : s.p = p) (hg : s.guard = some g) (hy : y.lc.WF)
    (h : addConstraint v w y check s = .ok (u, s')) (hw : NewSat s s' w') (h1 : ev p w' g.lc ≠ 0) :
    ev p w' v.lc * ev p w' w.lc = ev p w' y.lc := addConstraint_guarded_enforces_ne hp hg hy h hw h1

/-- the relation the unguarded call enforces, for comparison -/
theorem C07_unguarded_enforcement {p : ℕ} {s s' : St} {w' : Wire → Int} {v w y : LinComb} {check : Bool} {u : Unit}
    (hp : s.p = p) (hg : s.guard = none) (h : addConstraint v w y check s = .ok (u, s')) (hw : NewSat s s' w') :
    ev p w' v.lc * ev p w' w.lc = ev p w' y.lc := addConstraint_unguarded_enforces hp hg h hw

/-! ### same enforcement, gadget by gadget

For every assignment `w'` that satisfies what the gadget emitted UNDER the guard `g` and gives the
guard expression the value 1, the relation the unguarded gadget enforces (C02/C03: Lemmas/Sound.lean,
quoted in each doc comment) holds under `w'`.  The extra wires of the guarded system (one dummy per
`add_constraint`) are forced to 0; nothing is assumed about them. -/
section enforcement
variable {p : ℕ} [Fact p.Prime] {s s' : St} {w' : Wire → Int} {g : LinComb}

/-- `x.assert_zero()` (unguarded: `assertZero_sound`, `x = 0`) -/
theorem C07_true_enforcement_assertZero {x : LinComb} {u : Unit} (hp : s.p = p) (hg : s.guard = some g) (hx : x.lc.WF)
    (h : assertZero x s = .ok (u, s')) (hw : NewSat s s' w') (hg1 : ev p w' g.lc = 1) : ev p w' x.lc = 0 :=
  (assertZero_guarded_enforces hp hg hx h hw hg1).1

/-- `a.assert_eq(b)` -/
theorem C07_true_enforcement_assertEq {a b : LinComb} {u : Unit} (hp : s.p = p) (hg : s.guard = some g)
    (ha : a.lc.WF) (hb : b.lc.WF) (h : assertEq a b s = .ok (u, s')) (hw : NewSat s s' w') (hg1 : ev p w' g.lc = 1) :
    ev p w' a.lc = ev p w' b.lc := assertEq_guarded_enforces hp hg ha hb h hw hg1

/-- `LinCombBool(x)` (unguarded: `mkBool_sound`, `x ∈ {0,1}`) -/
theorem C07_true_enforcement_mkBool {x r : LinComb} (hp : s.p = p) (hg : s.guard = some g) (hx : x.lc.WF)
    (h : mkBool x true s = .ok (r, s')) (h1 : w' .one = 1) (hw : NewSat s s' w') (hg1 : ev p w' g.lc = 1) :
    ev p w' x.lc = 0 ∨ ev p w' x.lc = 1 := (mkBool_guarded_enforces hp hg hx h h1 hw hg1).2.1

/-- `x.to_bits(bits)` (unguarded: `toBits_sound`): the bits are the binary digits of a natural
`S < 2^n` and `x = S` -/
theorem C07_true_enforcement_toBits {x : LinComb} {bits : Option Nat} {bs : List LinComb} (hp : s.p = p)
    (hg : s.guard = some g) (hx : x.lc.WF) (h : toBits x bits s = .ok (bs, s'))
    (h1 : w' .one = 1) (hw : NewSat s s' w') (hg1 : ev p w' g.lc = 1) :
    bs.length = bits.getD s.bitlength ∧
    ∃ S : ℕ, S < 2 ^ (bits.getD s.bitlength) ∧ ev p w' x.lc = (S : ZMod p) ∧
      ∀ (i : Nat) (hi : i < bs.length), ev p w' bs[i].lc = ((S / 2 ^ i % 2 : ℕ) : ZMod p) :=
  ⟨(toBits_guarded_enforces hp hg hx h h1 hw hg1).1, (toBits_guarded_enforces hp hg hx h h1 hw hg1).2.1⟩

/-- `x.assert_positive(bits)` (unguarded: `assertPositive_sound`) -/
theorem C07_true_enforcement_assertPositive {x : LinComb} {bits : Option Nat} {u : Unit} (hp : s.p = p)
    (hg : s.guard = some g) (hx : x.lc.WF) (h : assertPositive x bits s = .ok (u, s'))
    (h1 : w' .one = 1) (hw : NewSat s s' w') (hg1 : ev p w' g.lc = 1) :
    InRange p (bits.getD s.bitlength) (ev p w' x.lc) := assertPositive_guarded_enforces hp hg hx h h1 hw hg1

/-- `a.assert_lt(b)` (unguarded: `assertLt_sound`): `b − a − 1 ∈ [0, 2^bitlength)`; likewise
`assert_le`, `assert_gt`, `assert_ge` -/
theorem C07_true_enforcement_assertLt {a b : LinComb} {u : Unit} (hp : s.p = p) (hg : s.guard = some g)
    (ha : a.lc.WF) (hb : b.lc.WF) (h : assertLt a b s = .ok (u, s')) (h1 : w' .one = 1) (hw : NewSat s s' w')
    (hg1 : ev p w' g.lc = 1) : InRange p s.bitlength (ev p w' b.lc - ev p w' a.lc - 1) :=
  assertLt_guarded_enforces hp hg ha hb h h1 hw hg1

theorem C07_true_enforcement_assertLe {a b : LinComb} {u : Unit} (hp : s.p = p) (hg : s.guard = some g)
    (ha : a.lc.WF) (hb : b.lc.WF) (h : assertLe a b s = .ok (u, s')) (h1 : w' .one = 1) (hw : NewSat s s' w')
    (hg1 : ev p w' g.lc = 1) : InRange p s.bitlength (ev p w' b.lc - ev p w' a.lc) :=
  assertLe_guarded_enforces hp hg ha hb h h1 hw hg1

theorem C07_true_enforcement_assertGt {a b : LinComb} {u : Unit} (hp : s.p = p) (hg : s.guard = some g)
    (ha : a.lc.WF) (hb : b.lc.WF) (h : assertGt a b s = .ok (u, s')) (h1 : w' .one = 1) (hw : NewSat s s' w')
    (hg1 : ev p w' g.lc = 1) : InRange p s.bitlength (ev p w' a.lc - ev p w' b.lc - 1) :=
  assertGt_guarded_enforces hp hg ha hb h h1 hw hg1

theorem C07_true_enforcement_assertGe {a b : LinComb} {u : Unit} (hp : s.p = p) (hg : s.guard = some g)
    (ha : a.lc.WF) (hb : b.lc.WF) (h : assertGe a b s = .ok (u, s')) (h1 : w' .one = 1) (hw : NewSat s s' w')
    (hg1 : ev p w' g.lc = 1) : InRange p s.bitlength (ev p w' a.lc - ev p w' b.lc) :=
  assertGe_guarded_enforces hp hg ha hb h h1 hw hg1

/-- `x.check_positive(bits)`, hence `<`, `<=`, `>`, `>=` (unguarded: `checkPositive_sound`) -/
theorem C07_true_enforcement_checkPositive {x r : LinComb} {bits : Option Nat} (hp : s.p = p) (hg : s.guard = some g)
    (hx : x.lc.WF) (h : checkPositive x bits s = .ok (r, s')) (h1 : w' .one = 1) (hw : NewSat s s' w')
    (hg1 : ev p w' g.lc = 1) :
    (ev p w' r.lc = 1 ∧ InRange p (bits.getD s.bitlength) (ev p w' x.lc)) ∨
    (ev p w' r.lc = 0 ∧ InNegRange p (bits.getD s.bitlength) (ev p w' x.lc)) :=
  checkPositive_guarded_enforces hp hg hx h h1 hw hg1

/-- `x * y` uses `add_constraint_unsafe`: the product is enforced whatever the guard is
(`mulLL_sound` has no hypothesis on the guard) -/
theorem C07_true_enforcement_mulLL {x y r : LinComb} (hp : s.p = p) (h : mulLL x y s = .ok (r, s'))
    (hw : NewSat s s' w') : ev p w' r.lc = ev p w' x.lc * ev p w' y.lc := mulLL_sound hp h hw

/-- `a / b` for two secrets (unguarded: `truedivLL_sound`, `b * r = a`) -/
theorem C07_true_enforcement_truedivLL {a b r : LinComb} (hp : s.p = p) (hg : s.guard = some g) (ha : a.lc.WF)
    (h : truedivLL a b s = .ok (r, s')) (hw : NewSat s s' w') (hg1 : ev p w' g.lc = 1) :
    ev p w' b.lc * ev p w' r.lc = ev p w' a.lc := truedivLL_guarded_enforces hp hg ha h hw hg1

/-- `x.assert_nonzero()`: the constraint is `x * wit = LinComb.ONE`, and inside the region
`LinComb.ONE` is the guard (unguarded: `assertNonzero_sound`, `x ≠ 0`) -/
theorem C07_true_enforcement_assertNonzero {x : LinComb} {u : Unit} (hp : s.p = p) (hg : s.guard = some g)
    (hone : s.one = g) (hgw : g.lc.WF) (h : assertNonzero x s = .ok (u, s')) (hw : NewSat s s' w')
    (hg1 : ev p w' g.lc = 1) : ev p w' x.lc ≠ 0 := assertNonzero_guarded_enforces hp hg hone hgw h hw hg1
end enforcement

/-- closed form of what the guarded call appends -/
theorem C07_guarded_emission {v w y g : LinComb} {check : Bool} {s s' : St} {u : Unit}
    (hg : s.guard = some g) (h : addConstraint v w y check s = .ok (u, s')) :
    s' = s.ext [v.value * w.value - y.value]
      [(v.lc, w.lc, (y.add (fw s.priv.length (v.value * w.value - y.value))).lc),
       (g.lc, [(Wire.priv s.priv.length, 1)], LC.zero)] := addConstraint_some_ok hg h


/-! ## non-vacuity -/

/-- the false guard of the examples: the third private wire, value 0 -/
def exG : LinComb := ⟨0, [(Wire.priv 2, 1)]⟩
/-- the configuration just after `genter` on `PrivVal(0)`, with `PrivVal(300)`, `PrivVal(-7)` in registers 1, 3 -/
def exS : St := { (St.init 97 8 8) with priv := [300, -7, 0], guard := some exG, ignoreErrors := true, one := exG }
def exRegs : List Val :=
  [.int 300, .lc ⟨300, [(Wire.priv 0, 1)]⟩, .int (-7), .lc ⟨-7, [(Wire.priv 1, 1)]⟩, .int 0, .lc exG, .none]
/-- out-of-range comparison, failing assertions, inexact division, out-of-range bit decomposition, a
nested region, a failing range assertion, `~`, `abs`, an out-of-range secret array index -/
def exBody07 : List Instr :=
  [.bin .lt 1 3, .call .assertEq 1 [3], .bin .truediv 1 3, .call .toBits 3 [], .genter 1, .call .assertRange 1 [2, 4],
   .un .invert 3, .gleave, .un .abs 3, .bin .floordiv 1 3, .arr [1, 3], .aget 17 1, .call .assertNonzero 5 []]

/-- (a): the hypotheses of `C07_inert_total` hold for a concrete body full of invalid operands, and
the run completes -/
example : ICfg 0 exS exRegs [⟨none, false, oneSafe⟩] ∧ balanced exBody07 0 = true ∧
    okAlong exBody07 exRegs [⟨none, false, oneSafe⟩] exS = true ∧
    (runAux exBody07 7 exRegs [⟨none, false, oneSafe⟩] exS).err = none := by
  refine ⟨⟨⟨rfl, exG, rfl, rfl⟩, ?_, Nat.zero_le _, by simp⟩, by decide, by decide +kernel, by decide +kernel⟩
  intro v hv
  simp only [exRegs, List.mem_cons, List.mem_nil_iff, or_false] at hv
  rcases hv with rfl | rfl | rfl | rfl | rfl | rfl | rfl <;> simp

/-- (b): a program of the fragment with a false-guard region around failing assertions completes;
`C07_inert_sat` applies to it -/
def exProgSat : List Instr :=
  [.lit (.int 300), .mk .priv 0, .lit (.int (-7)), .mk .priv 2, .lit (.int 0), .mk .priv 4, .genter 5,
   .bin .lt 1 3, .call .assertEq 1 [3], .call .assertRange 1 [2, 4], .bin .mod 1 3, .gleave, .bin .add 1 3]

example : Fragment exProgSat ∧ (run (St.init 97 8 8) exProgSat).err = none ∧
    (run (St.init 97 8 8) exProgSat).st.cons.length = 97 := by
  refine ⟨⟨by decide, by decide, fun _ => by decide⟩, by decide +kernel, by decide +kernel⟩

/-- (c): a selection runs, whatever its operands -/
example (c t f : LinComb) (s : St) : ∃ r s', iteLLL c t f s = .ok (r, s') := iteLLL_total c t f s

/-- (d): a concrete region with guard value 1: the hypotheses of `C07_true_transparent` hold, the
guarded run raises the `AssertionError` of the failing `assert_lt` (instruction 10), as
the unguarded twin does -/
def exT : St := { (St.init 97 8 8) with priv := [5, 3, 1, 0] }
def exTRegs : List Val :=
  [.int 5, .lc ⟨5, [(Wire.priv 0, 1)]⟩, .int 3, .lc ⟨3, [(Wire.priv 1, 1)]⟩, .int 1, .lc ⟨1, [(Wire.priv 2, 1)]⟩,
   .lc ⟨0, [(Wire.priv 3, 1)]⟩]
def exTBody : List Instr := [.bin .lt 1 3, .bin .floordiv 1 3, .call .assertLt 1 [3]]

/-- a body with a region of its own (false inner guard around a failing assertion), followed by code
after the region: the hypotheses of `C07_true_transparent_programs` hold -/
def exTBody2 : List Instr := [.bin .lt 1 3, .genter 6, .call .assertEq 1 [3], .gleave, .bin .mul 1 3]
example : bracketed exTBody2 0 = true ∧ (∀ i ∈ exTBody2, i.twinOk = true) ∧ exT.ignoreErrors = false ∧
    1 ≤ exT.bitlength ∧
    (runAux (.genter 5 :: (exTBody2 ++ .gleave :: [.bin .add 1 3])) 7 exTRegs [] exT).err = none ∧
    (runAux (.lit .none :: (exTBody2 ++ .lit .none :: [.bin .add 1 3])) 7 exTRegs [] exT).err = none := by
  refine ⟨by decide, by decide, rfl, by decide, by decide +kernel, by decide +kernel⟩

example : Twin (exTBody ++ [.lit .none]) (exTBody ++ [.gleave]) ∧ exT.guard = none ∧ exT.one.value = 1 ∧
    (∃ cv, exTRegs[5]? = some cv ∧ condOf cv = some ⟨1, [(Wire.priv 2, 1)]⟩) ∧
    (runAux (.genter 5 :: (exTBody ++ [.gleave])) 7 exTRegs [] exT).err = some (.assertion, 10) ∧
    (runAux (.lit .none :: (exTBody ++ [.lit .none])) 7 exTRegs [] exT).err = some (.assertion, 10) := by
  refine ⟨.op rfl (.op rfl (.op rfl .done)), rfl, rfl, ⟨_, rfl, rfl⟩, by decide +kernel, by decide +kernel⟩

/-! ### non-vacuity of the program-level theorems from the initial state -/

/-- closed computation by kernel evaluation; `first` drops the lazily built error message of a
failing `decide +kernel` (which can be very expensive to produce) -/
macro "kdec07" : tactic =>
  `(tactic| first
    | decide +kernel
    | fail "kdec07: the kernel does not evaluate this closed proposition to `true`")

/-- a true region (condition `PrivVal(1)`) around a false region (condition `PrivVal(0)`) around a
failing assertion, an inexact division, an out-of-range comparison; then code after both -/
def exProgNest : List Instr :=
  [.lit (.int 300), .mk .priv 0, .lit (.int (-7)), .mk .priv 2, .lit (.int 1), .mk .priv 4, .lit (.int 0), .mk .priv 6,
   .genter 5, .genter 7, .call .assertEq 1 [3], .bin .truediv 1 3, .bin .lt 1 3, .gleave, .gleave, .bin .add 1 3]

/-- (a) `C07_inert_program`: the program is plain, the run reaches instruction 10 (the failing
assertion) with an effective guard of value 0 — the product of the outer 1 and the inner 0 —, the
instruction is none of the deviations there; (b) `C07_sat_program` applies, and the run completes -/
example : plainProg exProgNest = true ∧
    ((cfgAt exProgNest 10 [] [] (St.init 97 8 8)).bind (fun c => c.2.2.guard)).map (·.value) = some 0 ∧
    (cfgAt exProgNest 10 [] [] (St.init 97 8 8)).map
      (fun c => stepOk c.2.2.resolution c.1 (.call .assertEq 1 [3])) = some true ∧
    (run (St.init 97 8 8) exProgNest).err = none := by
  exact ⟨by simp [plainProg, exProgNest, Val.noSecret], by kdec07, by kdec07, by kdec07⟩

/-- the unguarded text raises where the guarded one does not: the same program without the inner
markers fails at the assertion (instruction 10), so the inner false guard is what makes it inert -/
example : (run (St.init 97 8 8) (exProgNest.set 9 (.lit .none))).err = some (.assertion, 10) := by kdec07

/-- (d) `C07_true_transparent_nested`: a state under a guard of value 1 (fifth private wire); the
region on `PrivVal(1)` (register 5) around a body with a false region of its own and a failing
`assert_lt` after it: the hypotheses hold, both texts raise the same `AssertionError` at the same
instruction -/
def exTN : St :=
  { (St.init 97 8 8) with priv := [5, 3, 1, 0, 1], guard := some ⟨1, [(Wire.priv 4, 1)]⟩, one := ⟨1, [(Wire.priv 4, 1)]⟩ }
def exTNBody : List Instr :=
  [.bin .lt 1 3, .genter 6, .call .assertEq 1 [3], .gleave, .bin .mul 1 3, .call .assertLt 1 [3]]
example : bracketed exTNBody 0 = true ∧ (∀ i ∈ exTNBody, i.twinOk = true) ∧
    exTN.guard = some ⟨1, [(Wire.priv 4, 1)]⟩ ∧ exTN.ignoreErrors = false ∧ 1 ≤ exTN.bitlength ∧ exTN.one.value = 1 ∧
    (∃ cv, exTRegs[5]? = some cv ∧ condOf cv = some ⟨1, [(Wire.priv 2, 1)]⟩) ∧
    (runAux (.genter 5 :: (exTNBody ++ .gleave :: [.bin .add 1 3])) 7 exTRegs [] exTN).err = some (.assertion, 13) ∧
    (runAux (.lit .none :: (exTNBody ++ .lit .none :: [.bin .add 1 3])) 7 exTRegs [] exTN).err = some (.assertion, 13) := by
  exact ⟨by decide, by decide, rfl, rfl, by decide, rfl, ⟨_, rfl, rfl⟩, by kdec07, by kdec07⟩

/-- `C07_true_transparent_from_init`: the prefix enters a true region; at its end the effective
guard is 1, the bit length 8, register 7 holds `PrivVal(1)`: the entry hypothesis holds -/
def exPreN : List Instr :=
  [.lit (.int 5), .mk .priv 0, .lit (.int 3), .mk .priv 2, .lit (.int 1), .mk .priv 4, .lit (.int 1), .mk .priv 6,
   .lit (.int 0), .mk .priv 8, .genter 5]
example : plainProg exPreN = true ∧
    (cfgAt exPreN exPreN.length [] [] (St.init 97 8 8)).map
      (fun c => (c.2.2.isGuard, decide (1 ≤ c.2.2.bitlength), ((c.1[7]?).bind condOf).map (·.value))) =
      some (true, true, some 1) := by
  exact ⟨by simp [plainProg, exPreN, Val.noSecret], by kdec07⟩

/-- `C07_zerodiv_program`: zero tests and a division by a public integer under a false guard on
values for which no field inversion fails: `stepOk` and `stepOkZ` hold at each of them (instructions
7, 8, 9, 12), and the run completes -/
def exProgZ : List Instr :=
  [.lit (.int 300), .mk .priv 0, .lit (.int (-7)), .mk .priv 2, .lit (.int 0), .mk .priv 4, .genter 5,
   .bin .eq 1 3, .bin .truediv 1 0, .call .checkNonzero 3 [], .arr [1, 3], .lit (.int 1), .aget 10 3, .gleave]
example : plainProg exProgZ = true ∧
    ([7, 8, 9, 12].all fun j => (cfgAt exProgZ j [] [] (St.init 97 8 8)).any fun c =>
      (c.2.2.guard.any fun g => g.value == 0) &&
      (exProgZ[j]?).any fun i => stepOk c.2.2.resolution c.1 i && stepOkZ c.2.2.p c.2.2.resolution c.1 i) = true ∧
    (run (St.init 97 8 8) exProgZ).err = none := by
  exact ⟨by simp [plainProg, exProgZ, Val.noSecret], by kdec07, by kdec07⟩

/-- … and the counterexample `C07_cex_field_zero` is exactly a failure of `stepOkZ`: at the `==`
(instruction 6) the effective guard is 0, `stepOk` holds, `stepOkZ` does not -/
example : (cfgAt [.lit (.int bn254), .mk .priv 0, .lit (.int 0), .mk .priv 2, .genter 3, .lit (.int 0),
      .bin .eq 1 5, .gleave] 6 [] [] (St.init bn254 8 8)).map
    (fun c => (c.2.2.guard.map (·.value), stepOk c.2.2.resolution c.1 (.bin .eq 1 5),
      stepOkZ c.2.2.p c.2.2.resolution c.1 (.bin .eq 1 5))) = some (some 0, true, false) := by kdec07

/-- `C07_true_enforcement_assertLt`: `PrivVal(3).assert_lt(PrivVal(5))` under the guard of `exTN`
(value 1) runs; the recorded witness satisfies every constraint emitted and gives the guard
expression the value 1, so the hypotheses are satisfiable (18 constraints: 9 relations, each with its guard constraint) -/
example : (match assertLt ⟨3, [(Wire.priv 1, 1)]⟩ ⟨5, [(Wire.priv 0, 1)]⟩ exTN with
    | .ok (_, s') =>
      (newCons exTN s').all (fun c =>
        (LC.eval s'.assign c.1 * LC.eval s'.assign c.2.1 - LC.eval s'.assign c.2.2) % 97 == 0) &&
      LC.eval s'.assign [(Wire.priv 4, 1)] % 97 == 1 && (newCons exTN s').length == 18
    | .error _ => false) = true := by kdec07

end Pysnark
