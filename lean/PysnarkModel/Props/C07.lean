import PysnarkModel.Lemmas.GuardedInertRun
import PysnarkModel.Lemmas.GuardedTransparentNest
import PysnarkModel.Lemmas.GuardedSound
import PysnarkModel.Lemmas.GuardedInv
/-!
# C07 — a false guard makes code inert; a true guard is transparent

Quantifier: all guarded bodies over the instruction language of `Model/Prog.lean` (every operator in
every operand-kind combination, every assertion and method, selection, arrays, nested regions), both
guard values, all operand values (including those invalid for the body), every bit length,
resolution and modulus.

Vocabulary (Lemmas/GuardedInert*.lean, GuardedTransparent*.lean, GuardedSound.lean):

* `FalseGuard s` : a guard of value 0 is active in `s` and error suppression is on (the tracer
  invariant `Inv` makes the second follow from the first: `FalseGuard.of_inv`).
* `Bad zd e` : `e` is a value-caused exception class: `AssertionError`, `ValueError`, and (when
  `zd = false`) `ZeroDivisionError`.
* `Inert zd p res Q m` : started in ANY false-guard state over modulus `p` / resolution `res`,
  `m` either returns (result satisfying `Q`; guard, error mode, `LinComb.ONE`, bit length,
  resolution, modulus unchanged) or raises an exception that is not `Bad zd`.
* `TRel s1 s2` : the two states agree on `is_guard()`, error suppression, the VALUE of `LinComb.ONE`,
  bit length, resolution, modulus; they may differ in whether a guard is installed.
  `Tr R m1 m2` : from `TRel`-related states both runs return `R`-related results or both raise the
  same exception class.  `vEq`/`VRel` : same kind, same Python-level value.

Deviations of the code (which the model reproduces), each with a closed counterexample below:
(1) division by zero raises before the guard is consulted [C07-zero-division-under-false-guard],
    including `x >> secret`, whose divisor `2**secret` is computed from `LinComb.ONE` = the guard = 0;
(2) `LinCombBool(x)` / `PrivValBool(c)` / `_ensurebool` on a non-boolean value raise
    [C07-boolean-declaration-under-false-guard];
(3) `backend.fieldinverse` raises `ZeroDivisionError` on a non-zero multiple of the modulus whatever
    the guard (`check_zero`, hence `==`, `!=`, secret array indices; `LinComb / int`)
    [C07-field-zero-under-false-guard].
-/
namespace Pysnark

/-! ## (a) a false guard makes code inert -/

/-- the property at full strength: from a false-guard configuration no balanced body ever ends with
a value-caused exception -/
def C07_inert_full : Prop :=
  ∀ (s : St) (regs : List Val) (frames : List GuardBak) (body : List Instr),
    FalseGuard s → (∀ v ∈ regs, BoolV v) → balanced body 0 = true →
    ∀ e j, (runAux body 0 regs frames s).err = some (e, j) → Bad false e = false

/-- **programs.**  From any configuration in which a false guard is active (`d` inner regions
entered since), a body that never leaves more regions than it enters and whose executed
instructions avoid the listed deviations (`okAlong`: computable; `stepOk` spells them out) ends
neither with `AssertionError` nor with `ValueError`, at any instruction.  (`ZeroDivisionError`:
deviation (3), characterised exactly at the gadget level below.) -/
theorem C07_inert_total (body : List Instr) (k : Nat) (regs : List Val) (frames : List GuardBak) (s : St) (d : Nat)
    (hcfg : ICfg d s regs frames) (hbal : balanced body d = true) (hok : okAlong body regs frames s = true)
    (e : Err) (j : Nat) (herr : (runAux body k regs frames s).err = some (e, j)) :
    e ≠ .assertion ∧ e ≠ .value := by
  have h := runAux_inert body k regs frames s d hcfg hbal hok e j herr
  constructor <;> (intro he; subst he; simp [Bad] at h)

/-- entering a region with a secret condition of value 0 from an unguarded configuration produces
such a configuration -/
theorem C07_inert_entry {regs regs' : List Val} {frames frames' : List GuardBak} {c : Nat} {s s' : St} {v : Val}
    (hg : s.guard = none) (hregs : ∀ w ∈ regs, BoolV w)
    (hc : (regD regs c).isSecretCond = true) (h0 : condValue (regD regs c) = 0)
    (h : step regs frames (.genter c) s = .ok ((v, regs', frames'), s')) :
    ICfg 0 s' (regs' ++ [v]) frames' := (genter_false_cfg hg hregs hc h0 h).1

/-- a purely syntactic sufficient condition: bodies built from literals, non-boolean constructors,
`+ - *`, unary operators, every non-comparing method (`assert_zero`, `assert_positive`,
`assert_range`, `check_*`, `to_bits`, `val`, …), lists, arrays, nested regions -/
theorem C07_inert_total_syntactic (body : List Instr) (hall : ∀ i ∈ body, i.alwaysOk = true) (k : Nat)
    (regs : List Val) (frames : List GuardBak) (s : St) (d : Nat)
    (hcfg : ICfg d s regs frames) (hbal : balanced body d = true)
    (e : Err) (j : Nat) (herr : (runAux body k regs frames s).err = some (e, j)) :
    e ≠ .assertion ∧ e ≠ .value := by
  refine C07_inert_total body k regs frames s d hcfg hbal ?_ e j herr
  clear herr hbal hcfg
  induction body generalizing regs frames s with
  | nil => rfl
  | cons i is ih =>
    unfold okAlong
    rw [stepOk_of_alwaysOk (hall i (List.mem_cons_self ..)), Bool.true_and]
    split
    · exact ih (fun j hj => hall j (List.mem_cons_of_mem _ hj)) _ _ _
    · rfl

/-! ### every gadget, with `ZeroDivisionError` in the forbidden set (`zd = false`) -/
section gadgets
variable {p : Int} {res : Nat}

/-- the guarded arm of `add_constraint` never raises, whatever `v·w − y` is -/
theorem C07_inert_addConstraint (v w y : LinComb) (check : Bool) :
    Inert false p res (fun _ => True) (addConstraint v w y check) := addConstraint_inert v w y check
theorem C07_inert_checkPositive (x : LinComb) (bits : Option Nat) :
    Inert false p res (fun r => r.value = 0 ∨ r.value = 1) (checkPositive x bits) := checkPositive_inert x bits
theorem C07_inert_toBits (x : LinComb) (bits : Option Nat) : Inert false p res (BitsOfVal x) (toBits x bits) :=
  toBits_inert x bits
theorem C07_inert_assertZero (x : LinComb) : Inert false p res (fun _ => True) (assertZero x) := assertZero_inert x
theorem C07_inert_assertPositive (x : LinComb) (bits : Option Nat) :
    Inert false p res (fun _ => True) (assertPositive x bits) := assertPositive_inert x bits
theorem C07_inert_assertNonzero (x : LinComb) : Inert false p res (fun _ => True) (assertNonzero x) :=
  assertNonzero_inert x
/-- the six comparison assertions and `assert_range`: all operand values -/
theorem C07_inert_asserts (a b lo hi : LinComb) :
    Inert false p res (fun _ => True) (assertLt a b) ∧ Inert false p res (fun _ => True) (assertLe a b) ∧
    Inert false p res (fun _ => True) (assertEq a b) ∧ Inert false p res (fun _ => True) (assertNe a b) ∧
    Inert false p res (fun _ => True) (assertGt a b) ∧ Inert false p res (fun _ => True) (assertGe a b) ∧
    Inert false p res (fun _ => True) (assertRange a lo hi) :=
  ⟨assertLt_inert a b, assertLe_inert a b, assertEq_inert a b, assertNe_inert a b, assertGt_inert a b,
   assertGe_inert a b, assertRange_inert a lo hi⟩
/-- the four order comparisons, with a secret or a public right operand: all operand values -/
theorem C07_inert_order (a b : LinComb) (c : Int) :
    Inert false p res (fun r => r.value = 0 ∨ r.value = 1) (ltLL a b) ∧
    Inert false p res (fun r => r.value = 0 ∨ r.value = 1) (leLL a b) ∧
    Inert false p res (fun r => r.value = 0 ∨ r.value = 1) (gtLL a b) ∧
    Inert false p res (fun r => r.value = 0 ∨ r.value = 1) (geLL a b) ∧
    Inert false p res (fun r => r.value = 0 ∨ r.value = 1) (ltLI a c) ∧
    Inert false p res (fun r => r.value = 0 ∨ r.value = 1) (leLI a c) ∧
    Inert false p res (fun r => r.value = 0 ∨ r.value = 1) (gtLI a c) ∧
    Inert false p res (fun r => r.value = 0 ∨ r.value = 1) (geLI a c) :=
  ⟨ltLL_inert a b, leLL_inert a b, gtLL_inert a b, geLL_inert a b, ltLI_inert a c, leLI_inert a c,
   gtLI_inert a c, geLI_inert a c⟩
/-- zero tests (`==`, `!=`, `check_zero`, `check_nonzero`): inert exactly when the tested value is
not a non-zero multiple of the modulus (deviation (3)) -/
theorem C07_inert_zero_tests (x a b : LinComb) (hx : FieldOk p x.value) (hab : FieldOk p (a.value - b.value)) :
    Inert false p res (fun r => r.value = 0 ∨ r.value = 1) (checkZero x) ∧
    Inert false p res (fun r => r.value = 0 ∨ r.value = 1) (checkNonzero x) ∧
    Inert false p res (fun r => r.value = 0 ∨ r.value = 1) (eqLL a b) ∧
    Inert false p res (fun r => r.value = 0 ∨ r.value = 1) (neLL a b) :=
  ⟨checkZero_inert x (fun _ => hx), checkNonzero_inert x (fun _ => hx), eqLL_inert a b (fun _ => hab),
   neLL_inert a b (fun _ => hab)⟩
/-- over a prime modulus the side condition reads: the value is 0 or not a multiple of the modulus -/
theorem C07_fieldOk_prime {q : Nat} (hq : q.Prime) (v : Int) : FieldOk q v ↔ (v = 0 ∨ ¬ (q : Int) ∣ v) :=
  fieldOk_iff_prime hq v
theorem C07_inert_mul (a b : LinComb) : Inert false p res (fun r => r.value = a.value * b.value) (mulLL a b) :=
  mulLL_inert a b
/-- exact division by a secret: inexact quotients are suppressed; a zero divisor is deviation (1) -/
theorem C07_inert_truediv_secret (a : LinComb) {b : LinComb} (hb : b.value ≠ 0) :
    Inert false p res (fun _ => True) (truedivLL a b) := truedivLL_inert a hb
/-- exact division by a public integer: zero is deviation (1), a multiple of the modulus deviation (3) -/
theorem C07_inert_truediv_public (a : LinComb) {c : Int} (hc : c ≠ 0) (hi : (Py.invert c p).isSome = true) :
    Inert false p res (fun _ => True) (truedivLI a c) := truedivLI_inert a hc (fun _ => hi)
/-- `divmod`, hence `//` and `%`: negative or oversized operands are suppressed; a zero divisor is
deviation (1) -/
theorem C07_inert_divmod (a : LinComb) {d : LinComb} (hd : d.value ≠ 0) :
    Inert false p res (fun _ => True) (divmodLL a d) := divmodLL_inert a hd
theorem C07_inert_pow_public (a : LinComb) (n : Nat) : Inert false p res (fun _ => True) (powLN a n) := powLN_inert a n
/-- power with a secret exponent (any exponent value), over a prime modulus -/
theorem C07_inert_pow_secret {q : Nat} (hq : q.Prime) (a e : LinComb) :
    Inert false (q : Int) res (fun _ => True) (powLL a e) := powLL_inert a e (SmallOk.of_prime hq false)
/-- shifts by a public count (a negative count of `<<` is Python's own `ValueError`) -/
theorem C07_inert_shifts (a : LinComb) {n : Int} (hn : 0 ≤ n) (m : Int) :
    Inert false p res (fun _ => True) (lshiftLI a n) ∧ Inert false p res (fun _ => True) (rshiftLI a m) :=
  ⟨lshiftLI_inert a hn, rshiftLI_inert a m⟩
/-- `&`, `|`, `^` with a secret or a public operand, `~`, `abs`, selection: all operand values -/
theorem C07_inert_bitwise (a b c t f : LinComb) (k : Int) :
    Inert false p res (fun _ => True) (andLL a b) ∧ Inert false p res (fun _ => True) (orLL a b) ∧
    Inert false p res (fun _ => True) (xorLL a b) ∧ Inert false p res (fun _ => True) (andLI a k) ∧
    Inert false p res (fun _ => True) (orLI a k) ∧ Inert false p res (fun _ => True) (xorLI a k) ∧
    Inert false p res (fun _ => True) (invertL a) ∧ Inert false p res (fun _ => True) (absL a) ∧
    Inert false p res (fun _ => True) (iteLLL c t f) :=
  ⟨andLL_inert a b, orLL_inert a b, xorLL_inert a b, andLI_inert a k, orLI_inert a k, xorLI_inert a k,
   invertL_inert a, absL_inert a, iteLLL_inert c t f⟩
/-- `LinCombBool(x)`: inert exactly for boolean values (deviation (2)) -/
theorem C07_inert_bool_declaration {x : LinComb} (c : Bool) (hx : x.value = 0 ∨ x.value = 1) :
    Inert false p res (fun r => r = x) (mkBool x c) := mkBool_inert c hx
/-- what `Inert` says, spelled out -/
theorem C07_inert_unfold {α : Type} {zd : Bool} {Q : α → Prop} {m : M α} (h : Inert zd p res Q m) (s : St)
    (hs : FalseGuard s) (hp : s.p = p) (hr : s.resolution = res) :
    (∀ a s', m s = .ok (a, s') → Q a ∧ Same s s') ∧ (∀ e, m s = .error e → Bad zd e = false) := h s hs hp hr
end gadgets

/-! ### the deviations: closed counterexamples on the model (each replayed on the real code) -/
def bn254 : Int := 21888242871839275222246405745257275088548364400416034343698204186575808495617

/-- `PrivVal(7) / PrivVal(0)` under `guarded(PrivVal(0))` raises `ValueError` (finding
C07-zero-division-under-false-guard; corpus/C07/known.case divzero) -/
theorem C07_cex_zero_division :
    (run (St.init bn254 8 8) [.lit (.int 7), .mk .priv 0, .lit (.int 0), .mk .priv 2, .lit (.int 0), .mk .priv 4,
      .genter 5, .bin .truediv 1 3, .gleave]).err = some (.value, 7) := by decide +kernel

/-- `LinCombBool(PrivVal(7))` under `guarded(PrivVal(0))` raises `ValueError` (finding
C07-boolean-declaration-under-false-guard; corpus/C07/known.case boolnonbool) -/
theorem C07_cex_boolean_declaration :
    (run (St.init bn254 8 8) [.lit (.int 7), .mk .priv 0, .lit (.int 0), .mk .priv 2, .genter 3, .wrapb 1,
      .gleave]).err = some (.value, 5) := by decide +kernel

theorem C07_cex_bool_declaration :
    (run (St.init bn254 8 8) [.lit (.int 7), .mk .priv 0, .lit (.int 0), .mk .priv 2, .genter 3, .wrapb 1,
      .gleave]).err = some (.value, 5) := C07_cex_boolean_declaration

/-- `PrivVal(p) == 0` under `guarded(PrivVal(0))` raises `ZeroDivisionError`: `check_zero` inverts a
non-zero multiple of the modulus before any guard is consulted (deviation (3); finding
C07-field-zero-under-false-guard; corpus/C07/known.case fieldzeroeq) -/
theorem C07_cex_field_zero :
    (run (St.init bn254 8 8) [.lit (.int bn254), .mk .priv 0, .lit (.int 0), .mk .priv 2, .genter 3, .lit (.int 0),
      .bin .eq 1 5, .gleave]).err = some (.zerodiv, 6) := by decide +kernel

/-- `PrivVal(8) >> PrivVal(1)` under `guarded(PrivVal(0))` raises `ValueError` ("Division by zero"):
the divisor `2**PrivVal(1)` is a product that starts from `LinComb.ONE`, which is the guard
(value 0) inside the region (an instance of deviation (1) outside the signature recorded for it) -/
theorem C07_cex_rshift_secret :
    (run (St.init bn254 8 8) [.lit (.int 8), .mk .priv 0, .lit (.int 1), .mk .priv 2, .lit (.int 0), .mk .priv 4,
      .genter 5, .bin .rshift 1 3, .gleave]).err = some (.value, 7) := by decide +kernel

/-- the unrestricted statement is false -/
theorem C07_inert_full_false : ¬ C07_inert_full := by
  intro h
  let g : LinComb := ⟨0, [(Wire.priv 2, 1)]⟩
  let s : St := { (St.init 97 8 8) with priv := [7, 0, 0], guard := some g, ignoreErrors := true, one := g }
  have := h s [.int 7, .lc ⟨7, [(Wire.priv 0, 1)]⟩, .int 0, .lc ⟨0, [(Wire.priv 1, 1)]⟩] []
    [.bin .truediv 1 3] ⟨rfl, g, rfl, rfl⟩ (by intro v hv; simp at hv; rcases hv with rfl | rfl | rfl | rfl <;> simp)
    rfl .value 0 (by decide +kernel)
  simp [Bad] at this

/-! ## (b) … and leaves the constraint system satisfied by the recorded witness -/

/-- `add_constraint` under a false guard keeps the tracer invariant (every constraint satisfied by
the recorded witness, every live value coherent) for ALL operand values, with no call-site
obligation at all -/
theorem C07_inert_sat_addConstraint {s s' : St} {v w y g : LinComb} {check : Bool} {u : Unit} (hinv : Inv s)
    (hv : Good s v) (hw : Good s w) (hy : Good s y) (hg : s.guard = some g) (g0 : g.value = 0)
    (h : addConstraint v w y check s = .ok (u, s')) : Inv s' ∧ ∀ c ∈ s'.cons, Sat s'.p s'.assign c := by
  obtain ⟨-, -, inv⟩ := addConstraint_false_guard_spec hinv hv hw hy hg g0 h
  exact ⟨inv, inv.sat⟩

/-- **programs**: a completed run of `pre; genter c; body; gleave; post` (either guard value,
operands of the body invalid or not) ends with every constraint satisfied by the recorded witness
and every register coherent.  Instance of the invariant proof (`run_inv_plain`); `Fragment`: regions
not nested, no `/` in a program with a region, no `set ign` (see Spec/R1CS.lean: none is a known
counterexample on the repaired tree). -/
theorem C07_inert_sat (q : Nat) (hq : q.Prime) (bl res : Nat) (pre body post : List Instr) (c : Nat)
    (hfrag : Fragment (pre ++ .genter c :: body ++ .gleave :: post))
    (hlit : ∀ w, Instr.lit w ∈ pre ++ .genter c :: body ++ .gleave :: post → w.noSecret = true)
    (out : Out) (hout : run (St.init q bl res) (pre ++ .genter c :: body ++ .gleave :: post) = out)
    (herr : out.err = none) :
    (∀ k ∈ out.st.cons, Sat out.st.p out.st.assign k) ∧ (∀ v ∈ out.regs, GoodV out.st v) ∧ Inv out.st := by
  obtain ⟨inv, good⟩ := run_inv_plain q hq bl res _ hfrag hlit out hout herr
  exact ⟨inv.sat, good, inv⟩

/-- inside the region the invariant pins the error mode to the guard value: suppression is on
exactly under a false guard -/
theorem C07_false_guard_of_inv {s : St} (hinv : Inv s) {g : LinComb} (hg : s.guard = some g) (h0 : g.value = 0) :
    FalseGuard s := FalseGuard.of_inv hinv hg h0

/-! ## (c) … while the value selected from the other branch is still uniquely determined -/
section select
variable {p : ℕ} [Fact p.Prime] {s s' : St}

/-- `if_then_else(c, t, f) = f + c·(t − f)`: under EVERY assignment `w'` that satisfies the
constraint the selection emits and gives the condition the value 0, the result evaluates to the
false branch, whatever the wires of `t` carry (they may be unconstrained wires created under a
false guard) -/
theorem C07_selected_false {c t f r : LinComb} {w' : Wire → Int} (hp : s.p = p) (ht : t.lc.WF) (hf : f.lc.WF)
    (h : iteLLL c t f s = .ok (r, s')) (hw : NewSat s s' w') (hc : ev p w' c.lc = 0) :
    ev p w' r.lc = ev p w' f.lc := iteLLL_selects_false hp ht hf h hw hc

theorem C07_selected_true {c t f r : LinComb} {w' : Wire → Int} (hp : s.p = p) (ht : t.lc.WF) (hf : f.lc.WF)
    (h : iteLLL c t f s = .ok (r, s')) (hw : NewSat s s' w') (hc : ev p w' c.lc = 1) :
    ev p w' r.lc = ev p w' t.lc := iteLLL_selects_true hp ht hf h hw hc

/-- uniqueness: two satisfying assignments that agree on the condition (0 or 1) and on the branch
it selects agree on the result; they may disagree arbitrarily on the other branch -/
theorem C07_selected_determined {c t f r : LinComb} {w1 w2 : Wire → Int} (hp : s.p = p) (ht : t.lc.WF)
    (hf : f.lc.WF) (h : iteLLL c t f s = .ok (r, s')) (hw1 : NewSat s s' w1) (hw2 : NewSat s s' w2)
    (hc : ev p w1 c.lc = ev p w2 c.lc) (hb : ev p w1 c.lc = 0 ∨ ev p w1 c.lc = 1)
    (hsel : (ev p w1 c.lc = 0 → ev p w1 f.lc = ev p w2 f.lc) ∧ (ev p w1 c.lc = 1 → ev p w1 t.lc = ev p w2 t.lc)) :
    ev p w1 r.lc = ev p w2 r.lc := iteLLL_determined hp ht hf h hw1 hw2 hc hb hsel
end select

/-- the wires of the inert branch really are unconstrained: under an assignment that gives the guard
expression the value 0, the two constraints of a guarded `add_constraint` are satisfied by the
choice of the dummy wire alone, whatever `v`, `w`, `y` evaluate to -/
theorem C07_false_guard_enforces_nothing {p : ℕ} {s s' : St} {w' : Wire → Int} {v w y g : LinComb} {check : Bool}
    {u : Unit} (hp : s.p = p) (hg : s.guard = some g) (hy : y.lc.WF)
    (h : addConstraint v w y check s = .ok (u, s')) (h0 : ev p w' g.lc = 0)
    (hd : (w' (.priv s.priv.length) : ZMod p) = ev p w' v.lc * ev p w' w.lc - ev p w' y.lc) :
    NewSat s s' w' := addConstraint_guarded_false_free hp hg hy h h0 hd

/-! ## (d) a true guard is transparent -/

/-- **programs: same values, same errors** — the statement for whole programs.  `body`: any
well-bracketed instruction list (regions nested to any depth, with guards of either value) without
`set ign` and `set bitlength 0`; `post`: any code at all.  `s`: any state without a guard, with
error checking on, bit length ≥ 1 and `LinComb.ONE` = 1; register `c` holds a secret (`LinComb` or
`LinCombBool`) of value 1.  The guarded text `genter c; body; gleave; post` and the text in which the
two markers are no-ops (`lit None`, keeping register numbers aligned) end with the same error at the
same instruction or both complete; all registers are pairwise of the same kind with the same
Python-level values; the final states agree on `is_guard()`, error mode, value of `LinComb.ONE`,
bit length, resolution, modulus (`OutRel`). -/
def C07_true_transparent_full : Prop :=
  ∀ (body post : List Instr) (k : Nat) (regs : List Val) (frames : List GuardBak) (s : St) (c : Nat) (x : LinComb),
    bracketed body 0 = true → (∀ i ∈ body, i.twinOk = true) →
    s.guard = none → s.ignoreErrors = false → 1 ≤ s.bitlength → s.one.value = 1 →
    (∃ cv, regs[c]? = some cv ∧ condOf cv = some x) → x.value = 1 →
    OutRel (runAux (.lit .none :: (body ++ .lit .none :: post)) k regs frames s)
      (runAux (.genter c :: (body ++ .gleave :: post)) k regs frames s)

theorem C07_true_transparent_programs : C07_true_transparent_full :=
  fun body post k regs frames s c _ hb hok hg hi hbl hone hc hx =>
    region_transparent_nest (nest_of_bracketed post body 0 hb hok) k regs frames s c hg hi hbl hone hc hx

/-- the same for flat bodies (no region inside the region, nothing after it), but in EVERY error mode
(also when the user has switched error checking off) and at every bit length: `Twin is1 is2` says
`is2 = body ++ [gleave]`, `is1 = body ++ [lit None]`, `body` free of region markers and `set ign` -/
theorem C07_true_transparent {is1 is2 : List Instr} (htw : Twin is1 is2) (k : Nat) (regs : List Val)
    (frames : List GuardBak) (s : St) (c : Nat) {x : LinComb}
    (hg : s.guard = none) (hone : s.one.value = 1)
    (hc : ∃ cv, regs[c]? = some cv ∧ condOf cv = some x) (hx : x.value = 1) :
    OutRel (runAux (.lit .none :: is1) k regs frames s) (runAux (.genter c :: is2) k regs frames s) :=
  region_transparent htw k regs frames s c hg hone hc hx

/-- the same program from two configurations that agree on everything observable and whose active
guards have equal values ends alike: what holds inside nested regions and after the region -/
theorem C07_true_transparent_same (is : List Instr) (k : Nat) (regs1 regs2 : List Val)
    (frames1 frames2 : List GuardBak) (s1 s2 : St) (hs : GRel s1 s2) (hregs : Forall2 VRel regs1 regs2)
    (hf : Forall2 BakPair frames1 frames2) :
    OutRel (runAux is k regs1 frames1 s1) (runAux is k regs2 frames2 s2) :=
  runAux_same is k regs1 regs2 frames1 frames2 s1 s2 hs hregs hf

/-- true outer guard, false inner guard: the nested region starts in a false-guard state, so part
(a) applies to its body -/
theorem C07_nested_false_in_true {cond : Val} {s s' : St} {bak : GuardBak} {g : LinComb}
    (hg : s.guard = some g) (g1 : g.value = 1) (hi : s.ignoreErrors = false)
    (hc : cond.isSecretCond = true) (h0 : condValue cond = 0) (h : addGuard cond s = .ok (bak, s')) :
    FalseGuard s' := (addGuard_enter_false_nested hg g1 hi hc h0 h).1

/-- one instruction (every operator, method, constructor, selection, array access) from related
register files in related states: same error or related results -/
theorem C07_true_transparent_step {regs1 regs2 : List Val} (hregs : Forall2 VRel regs1 regs2)
    (f1 f2 : List GuardBak) {i : Instr} (hi : i.isPureOp = true) {s1 s2 : St} (hs : TRel s1 s2) :
    TrOut (TStepRel f1 f2) s1 s2 (step regs1 f1 i s1) (step regs2 f2 i s2) := step_body_tr hregs f1 f2 hi s1 s2 hs

/-- every binary operator on operands of every kind -/
theorem C07_true_transparent_binop (op : BinOp) {a1 a2 b1 b2 : Val} (ha : VRel a1 a2) (hb : VRel b1 b2) :
    Tr VRel (binopV op a1 b1) (binopV op a2 b2) := binopV_tr op ha hb

/-- the gadgets whose hints depend on `is_guard()`: same hints, same checks, same results -/
theorem C07_true_transparent_gadgets {x1 x2 y1 y2 : LinComb} (hx : vEq x1 x2) (hy : vEq y1 y2) (bits : Option Nat)
    (c : Int) :
    Tr vEq (checkPositive x1 bits) (checkPositive x2 bits) ∧
    Tr (Forall2 vEq) (toBits x1 bits) (toBits x2 bits) ∧
    Tr (fun _ _ => True) (assertZero x1) (assertZero x2) ∧
    Tr (fun _ _ => True) (assertNonzero x1) (assertNonzero x2) ∧
    Tr (fun _ _ => True) (assertPositive x1 bits) (assertPositive x2 bits) ∧
    Tr vEq (truedivLL x1 y1) (truedivLL x2 y2) ∧ Tr vEq (truedivLI x1 c) (truedivLI x2 c) ∧
    Tr vEqP (divmodLL x1 y1) (divmodLL x2 y2) ∧ Tr vEq (powLL x1 y1) (powLL x2 y2) ∧
    Tr vEq (mkBool x1 true) (mkBool x2 true) :=
  ⟨checkPositive_tr hx bits, toBits_tr hx bits, assertZero_tr hx, assertNonzero_tr hx, assertPositive_tr hx bits,
   truedivLL_tr hx hy, truedivLI_tr hx c, divmodLL_tr hx hy, powLL_tr hx hy, mkBool_tr hx true⟩

/-- `add_constraint` itself: the guarded arm never raises, the unguarded arm raises when the integer
check fails; they agree given the call-site fact `hob` (established by every caller: `mkBool`,
`assert_zero`, `check_positive`, `/`, `divmod`) -/
theorem C07_true_transparent_addConstraint {v1 w1 y1 v2 w2 y2 : LinComb} {check : Bool} {s1 s2 : St}
    (h : TRel s1 s2) (hv : vEq v1 v2) (hw : vEq w1 w2) (hy : vEq y1 y2)
    (hob : check = true → s1.ignoreErrors = false → s1.isGuard = true → v1.value * w1.value = y1.value) :
    TrOut (fun _ _ => True) s1 s2 (addConstraint v1 w1 y1 check s1) (addConstraint v2 w2 y2 check s2) :=
  addConstraint_trOut h hv hw hy hob

/-- **same enforcement.**  Under a guard `g` the call emits `v*w = y + dummy` and `g*dummy = 0`; for
EVERY assignment `w'` satisfying both with the guard expression evaluating to 1, the relation the
unguarded call emits, `v*w = y`, holds -/
theorem C07_true_enforcement {p : ℕ} {s s' : St} {w' : Wire → Int} {v w y g : LinComb} {check : Bool} {u : Unit}
    (hp : s.p = p) (hg : s.guard = some g) (hy : y.lc.WF) (h : addConstraint v w y check s = .ok (u, s'))
    (hw : NewSat s s' w') (h1 : ev p w' g.lc = 1) :
    ev p w' v.lc * ev p w' w.lc = ev p w' y.lc := addConstraint_guarded_enforces hp hg hy h hw h1

/-- … and for every non-zero value of the guard expression over a prime field -/
theorem C07_true_enforcement_nonzero {p : ℕ} [Fact p.Prime] {s s' : St} {w' : Wire → Int} {v w y g : LinComb}
    {check : Bool} {u : Unit} (hp : s.p = p) (hg : s.guard = some g) (hy : y.lc.WF)
    (h : addConstraint v w y check s = .ok (u, s')) (hw : NewSat s s' w') (h1 : ev p w' g.lc ≠ 0) :
    ev p w' v.lc * ev p w' w.lc = ev p w' y.lc := addConstraint_guarded_enforces_ne hp hg hy h hw h1

/-- the relation the unguarded call enforces, for comparison -/
theorem C07_unguarded_enforcement {p : ℕ} {s s' : St} {w' : Wire → Int} {v w y : LinComb} {check : Bool} {u : Unit}
    (hp : s.p = p) (hg : s.guard = none) (h : addConstraint v w y check s = .ok (u, s')) (hw : NewSat s s' w') :
    ev p w' v.lc * ev p w' w.lc = ev p w' y.lc := addConstraint_unguarded_enforces hp hg h hw

/-- closed form of what the guarded call appends -/
theorem C07_guarded_emission {v w y g : LinComb} {check : Bool} {s s' : St} {u : Unit}
    (hg : s.guard = some g) (h : addConstraint v w y check s = .ok (u, s')) :
    s' = s.ext [v.value * w.value - y.value]
      [(v.lc, w.lc, (y.add (fw s.priv.length (v.value * w.value - y.value))).lc),
       (g.lc, [(Wire.priv s.priv.length, 1)], LC.zero)] := addConstraint_some_ok hg h


/-! ## non-vacuity -/

/-- the false guard of the examples: the third private wire, value 0 -/
def exG : LinComb := ⟨0, [(Wire.priv 2, 1)]⟩
/-- the configuration just after `genter` on `PrivVal(0)`, with `PrivVal(300)`, `PrivVal(-7)` in registers 1, 3 -/
def exS : St := { (St.init 97 8 8) with priv := [300, -7, 0], guard := some exG, ignoreErrors := true, one := exG }
def exRegs : List Val :=
  [.int 300, .lc ⟨300, [(Wire.priv 0, 1)]⟩, .int (-7), .lc ⟨-7, [(Wire.priv 1, 1)]⟩, .int 0, .lc exG, .none]
/-- out-of-range comparison, failing assertions, inexact division, out-of-range bit decomposition, a
nested region, a failing range assertion, `~`, `abs`, an out-of-range secret array index -/
def exBody07 : List Instr :=
  [.bin .lt 1 3, .call .assertEq 1 [3], .bin .truediv 1 3, .call .toBits 3 [], .genter 1, .call .assertRange 1 [2, 4],
   .un .invert 3, .gleave, .un .abs 3, .bin .floordiv 1 3, .arr [1, 3], .aget 17 1, .call .assertNonzero 5 []]

/-- (a): the hypotheses of `C07_inert_total` hold for a concrete body full of invalid operands, and
the run completes -/
example : ICfg 0 exS exRegs [⟨none, false, oneSafe⟩] ∧ balanced exBody07 0 = true ∧
    okAlong exBody07 exRegs [⟨none, false, oneSafe⟩] exS = true ∧
    (runAux exBody07 7 exRegs [⟨none, false, oneSafe⟩] exS).err = none := by
  refine ⟨⟨⟨rfl, exG, rfl, rfl⟩, ?_, Nat.zero_le _, by simp⟩, by decide, by decide +kernel, by decide +kernel⟩
  intro v hv
  simp only [exRegs, List.mem_cons, List.mem_nil_iff, or_false] at hv
  rcases hv with rfl | rfl | rfl | rfl | rfl | rfl | rfl <;> simp

/-- (b): a program of the fragment with a false-guard region around failing assertions completes;
`C07_inert_sat` applies to it -/
def exProgSat : List Instr :=
  [.lit (.int 300), .mk .priv 0, .lit (.int (-7)), .mk .priv 2, .lit (.int 0), .mk .priv 4, .genter 5,
   .bin .lt 1 3, .call .assertEq 1 [3], .call .assertRange 1 [2, 4], .bin .mod 1 3, .gleave, .bin .add 1 3]

example : Fragment exProgSat ∧ (run (St.init 97 8 8) exProgSat).err = none ∧
    (run (St.init 97 8 8) exProgSat).st.cons.length = 97 := by
  refine ⟨⟨by decide, by decide, fun _ => by decide⟩, by decide +kernel, by decide +kernel⟩

/-- (c): a selection runs, whatever its operands -/
example (c t f : LinComb) (s : St) : ∃ r s', iteLLL c t f s = .ok (r, s') := iteLLL_total c t f s

/-- (d): a concrete region with guard value 1: the hypotheses of `C07_true_transparent` hold, the
guarded run raises the `AssertionError` of the failing `assert_lt` (instruction 10), as
the unguarded twin does -/
def exT : St := { (St.init 97 8 8) with priv := [5, 3, 1, 0] }
def exTRegs : List Val :=
  [.int 5, .lc ⟨5, [(Wire.priv 0, 1)]⟩, .int 3, .lc ⟨3, [(Wire.priv 1, 1)]⟩, .int 1, .lc ⟨1, [(Wire.priv 2, 1)]⟩,
   .lc ⟨0, [(Wire.priv 3, 1)]⟩]
def exTBody : List Instr := [.bin .lt 1 3, .bin .floordiv 1 3, .call .assertLt 1 [3]]

/-- a body with a region of its own (false inner guard around a failing assertion), followed by code
after the region: the hypotheses of `C07_true_transparent_programs` hold -/
def exTBody2 : List Instr := [.bin .lt 1 3, .genter 6, .call .assertEq 1 [3], .gleave, .bin .mul 1 3]
example : bracketed exTBody2 0 = true ∧ (∀ i ∈ exTBody2, i.twinOk = true) ∧ exT.ignoreErrors = false ∧
    1 ≤ exT.bitlength ∧
    (runAux (.genter 5 :: (exTBody2 ++ .gleave :: [.bin .add 1 3])) 7 exTRegs [] exT).err = none ∧
    (runAux (.lit .none :: (exTBody2 ++ .lit .none :: [.bin .add 1 3])) 7 exTRegs [] exT).err = none := by
  refine ⟨by decide, by decide, rfl, by decide, by decide +kernel, by decide +kernel⟩

example : Twin (exTBody ++ [.lit .none]) (exTBody ++ [.gleave]) ∧ exT.guard = none ∧ exT.one.value = 1 ∧
    (∃ cv, exTRegs[5]? = some cv ∧ condOf cv = some ⟨1, [(Wire.priv 2, 1)]⟩) ∧
    (runAux (.genter 5 :: (exTBody ++ [.gleave])) 7 exTRegs [] exT).err = some (.assertion, 10) ∧
    (runAux (.lit .none :: (exTBody ++ [.lit .none])) 7 exTRegs [] exT).err = some (.assertion, 10) := by
  refine ⟨.op rfl (.op rfl (.op rfl .done)), rfl, rfl, ⟨_, rfl, rfl⟩, by decide +kernel, by decide +kernel⟩

end Pysnark
