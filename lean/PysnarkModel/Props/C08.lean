import PysnarkModel.Lemmas.Triple
import PysnarkModel.Spec.R1CS
/-!
# C08 — guard state is restored on every exit path and nests as a conjunction

Quantifier: all histories (trees of events) of entering, leaving and aborting guarded regions to
any nesting depth, with any guard values and any condition kind, where an exception may be raised
at any statement, explicitly or by a traced operation, and may be caught at any level.
-/
namespace Pysnark

/-- the guard triple after a history whose regions are all entered through `guarded()` equals the
triple before it — whether it ends normally or by an exception propagating out (`.2`) -/
def C08_restore_full : Prop :=
  (∀ (e : Ev) (s : St), e.wrapped = true → (execEv e s).1.triple = s.triple) ∧
  (∀ (es : List Ev) (s : St), wrappedList es = true → (execList es s).1.triple = s.triple)

mutual
theorem execEv_restores : ∀ (e : Ev) (s : St), e.wrapped = true → (execEv e s).1.triple = s.triple
  | .guarded kind c body, s, _ => by
    cases h1 : mkCond kind c s with
    | error e => simp only [execEv, h1]; unfold condFailSt; split <;> rfl
    | ok r =>
      obtain ⟨cv, s1⟩ := r
      have t1 := mkCond_triple kind c s cv s1 h1
      cases h2 : addGuard cv s1 with
      | error e => simp only [execEv, h1, h2]; exact t1
      | ok r2 =>
        obtain ⟨bak, s2⟩ := r2
        have hb := addGuard_bak h2
        simp only [execEv, h1, h2]
        rw [← t1, ← hb]
        rfl
  | .raw _ _ _, s, h => by simp [Ev.wrapped] at h
  | .tryCatch body, s, h => by
    unfold execEv
    simp only [Ev.wrapped] at h
    exact execList_restores body s h
  | .raise, s, _ => by unfold execEv; rfl
  | .opLt a b, s, _ => by
    unfold execEv
    simp only
    split
    · rename_i r s' h
      exact ltLL_triple _ _ _ r s' h ▸ rfl
    · rfl
  | .opAssertZero a, s, _ => by
    unfold execEv
    simp only
    split
    · rename_i r s' h
      exact assertZero_triple _ _ r s' h ▸ rfl
    · rfl

theorem execList_restores : ∀ (es : List Ev) (s : St), wrappedList es = true → (execList es s).1.triple = s.triple
  | [], s, _ => by unfold execList; rfl
  | e :: es, s, h => by
    unfold execList
    simp only [wrappedList, Bool.and_eq_true] at h
    have h1 := execEv_restores e s h.1
    cases hr : execEv e s with
    | mk s1 exc =>
      rw [hr] at h1
      simp only
      cases exc with
      | true => simpa using h1
      | false =>
        simp only [Bool.false_eq_true, if_false]
        rw [execList_restores es s1 h.2]; exact h1
end

theorem C08_restore : C08_restore_full := ⟨execEv_restores, execList_restores⟩

/-- inside the body of a region the error-suppression mode is the disjunction "was on, or this
condition is false" (the conjunction of guards, seen through the flag every gadget consults) -/
theorem C08_ignore_nests (c : LinComb) (s s' : St) (bak : GuardBak) (h : addGuard (.lc c) s = .ok (bak, s'))
    (hb : TriplePres (bwLV .and (s.guard.getD c) (.lc c))) :
    s'.ignoreErrors = (s.ignoreErrors || c.value == 0) := addGuard_ignore h hb

/-- inside the outermost region the active guard and the meaning of constants are the condition -/
theorem C08_outermost (c : LinComb) (s s' : St) (bak : GuardBak) (hg : s.guard = none)
    (h : addGuard (.lc c) s = .ok (bak, s')) : s'.guard = some c ∧ s'.one = c := by
  unfold addGuard unwrapBoolCond addGuardCore at h
  simp only at h
  split at h
  · cases h
  · simp only [hg, Except.ok.injEq, Prod.mk.injEq] at h
    obtain ⟨_, rfl⟩ := h; exact ⟨rfl, rfl⟩

/-- the statement-based block API (bare `add_guard`/`restore_guard`, no unwinding) does NOT have
the property: an exception inside a region leaves the guard installed (finding C08-block-unwind).
Closed counterexample, evaluated by the kernel on the model. -/
theorem C08_cex_raw_no_unwind :
    let s0 : St := St.init 97 8 8
    (execEv (.tryCatch [.raw .priv 0 [.raise]]) s0).1.triple ≠ s0.triple := by
  decide +kernel

/-! non-vacuity: a three-deep history with a false middle guard, an operation that raises only
because of its values, a catch in the middle and a raise that escapes everything -/
example : (execEv (.guarded .priv 1 [.tryCatch [.guarded .priv 0 [.opLt 5 300, .guarded .priv 1 [.opAssertZero 3, .raise]]], .raise]) (St.init 97 8 8)).1.triple
    = (St.init 97 8 8).triple ∧
    (execEv (.guarded .priv 1 [.tryCatch [.guarded .priv 0 [.opLt 5 300, .guarded .priv 1 [.opAssertZero 3, .raise]]], .raise]) (St.init 97 8 8)).2 = true := by
  decide +kernel

end Pysnark
