import PysnarkModel.Lemmas.Triple
import PysnarkModel.Gen.Api
import PysnarkModel.Spec.R1CS
/-!
# C08 — guard state is restored on every exit path and nests as a conjunction

Quantifier: all histories (trees of events) of entering, leaving and aborting guarded regions to
any nesting depth, with any guard values and any condition kind, where an exception may be raised
at any statement, explicitly or by a traced operation, and may be caught at any level, and where
the decorator object of an enclosing region may be activated again while it is active (recursion
of the decorated function, one decorator shared by caller and callee) to any depth.
-/
namespace Pysnark

/-- the guard triple after a history whose regions are all entered through `guarded()` — including
re-entries of a decorator object that is already active (`.reenter`) — equals the triple before
it, whether it ends normally or by an exception propagating out (`.2`); for every stack `stk` of
enclosing condition objects, i.e. also for a history that starts inside guarded regions -/
def C08_restore_full : Prop :=
  (∀ (e : Ev) (stk : List Val) (s : St), e.wrapped = true → (execEv e stk s).1.triple = s.triple) ∧
  (∀ (es : List Ev) (stk : List Val) (s : St), wrappedList es = true → (execList es stk s).1.triple = s.triple)

mutual
theorem execEv_restores : ∀ (e : Ev) (stk : List Val) (s : St), e.wrapped = true →
    (execEv e stk s).1.triple = s.triple
  | .guarded kind c body, stk, s, _ => by
    cases h1 : mkCond kind c s with
    | error e => simp only [execEv, h1]; unfold condFailSt; split <;> rfl
    | ok r =>
      obtain ⟨cv, s1⟩ := r
      have t1 := mkCond_triple kind c s cv s1 h1
      cases h2 : addGuard cv s1 with
      | error e => simp only [execEv, h1, h2]; exact t1
      | ok r2 =>
        obtain ⟨bak, s2⟩ := r2
        have hb := addGuard_bak h2
        simp only [execEv, h1, h2]
        rw [← t1, ← hb]
        rfl
  | .raw _ _ _, _, s, h => by simp [Ev.wrapped] at h
  | .reenter body, [], s, h => by
    simp only [execEv]
    simp only [Ev.wrapped] at h
    exact execList_restores body [] s h
  | .reenter body, cv :: rest, s, _ => by
    -- the activation's own backup is the triple it found: nothing about the body is needed
    cases h2 : addGuard cv s with
    | error e => simp only [execEv, h2]
    | ok r2 =>
      obtain ⟨bak, s2⟩ := r2
      have hb := addGuard_bak h2
      simp only [execEv, h2]
      rw [← hb]
      rfl
  | .tryCatch body, stk, s, h => by
    unfold execEv
    simp only [Ev.wrapped] at h
    exact execList_restores body stk s h
  | .raise, _, s, _ => by unfold execEv; rfl
  | .opLt a b, _, s, _ => by
    unfold execEv
    simp only
    split
    · rename_i r s' h
      exact ltLL_triple _ _ _ r s' h ▸ rfl
    · rfl
  | .opAssertZero a, _, s, _ => by
    unfold execEv
    simp only
    split
    · rename_i r s' h
      exact assertZero_triple _ _ r s' h ▸ rfl
    · rfl

theorem execList_restores : ∀ (es : List Ev) (stk : List Val) (s : St), wrappedList es = true →
    (execList es stk s).1.triple = s.triple
  | [], _, s, _ => by unfold execList; rfl
  | e :: es, stk, s, h => by
    unfold execList
    simp only [wrappedList, Bool.and_eq_true] at h
    have h1 := execEv_restores e stk s h.1
    cases hr : execEv e stk s with
    | mk s1 exc =>
      rw [hr] at h1
      simp only
      cases exc with
      | true => simpa using h1
      | false =>
        simp only [Bool.false_eq_true, if_false]
        rw [execList_restores es stk s1 h.2]; exact h1
end

theorem C08_restore : C08_restore_full := ⟨execEv_restores, execList_restores⟩

/-- inside the body of a region the error-suppression mode is the disjunction "was on, or this
condition is false" (the conjunction of guards, seen through the flag every gadget consults) -/
theorem C08_ignore_nests (c : LinComb) (s s' : St) (bak : GuardBak) (h : addGuard (.lc c) s = .ok (bak, s'))
    (hb : TriplePres (bwLV .and (s.guard.getD c) (.lc c))) :
    s'.ignoreErrors = (s.ignoreErrors || c.value == 0) := addGuard_ignore h hb

/-- inside the outermost region the active guard and the meaning of constants are the condition -/
theorem C08_outermost (c : LinComb) (s s' : St) (bak : GuardBak) (hg : s.guard = none)
    (h : addGuard (.lc c) s = .ok (bak, s')) : s'.guard = some c ∧ s'.one = c := by
  unfold addGuard unwrapBoolCond addGuardCore at h
  simp only at h
  split at h
  · cases h
  · simp only [hg, Except.ok.injEq, Prod.mk.injEq] at h
    obtain ⟨_, rfl⟩ := h; exact ⟨rfl, rfl⟩

/-- below an active guard `g` the guard installed by `add_guard(c)` — for a nested region as well as
for a re-entry of the same decorator, where `c` is the condition `g` was built from — is the output
of the bitwise-AND gadget on `g` and `c`, and constants mean that guard -/
theorem C08_nested_guard_is_and (c g : LinComb) (s s' : St) (bak : GuardBak) (hg : s.guard = some g)
    (h : addGuard (.lc c) s = .ok (bak, s')) :
    ∃ g' s1, bwLV .and g (.lc c) s = .ok (.lc g', s1) ∧ s'.guard = some g' ∧ s'.one = g' := by
  unfold addGuard unwrapBoolCond addGuardCore at h
  simp only at h
  split at h
  · cases h
  · simp only [hg] at h
    split at h
    · cases h
    · rename_i g' s1 hand
      simp only [Except.ok.injEq, Prod.mk.injEq] at h
      obtain ⟨_, rfl⟩ := h
      exact ⟨g', s1, hand, rfl, rfl⟩
    · cases h

/-- a re-entry of the active decorator IS another `add_guard` of the same condition object followed
by the body and the restoration of the backup taken by this activation: the body runs from the
state `add_guard` leaves, so `C08_ignore_nests` and `C08_nested_guard_is_and` speak about it -/
theorem C08_reenter_activates (body : List Ev) (cv : Val) (rest : List Val) (s s2 : St) (bak : GuardBak)
    (h : addGuard cv s = .ok (bak, s2)) :
    execEv (.reenter body) (cv :: rest) s =
      ({ (execList body (cv :: rest) s2).1 with guard := bak.guard, ignoreErrors := bak.ignoreErrors, one := bak.one },
       (execList body (cv :: rest) s2).2) := by
  simp only [execEv, h]

/-- the statement-based block API (bare `add_guard`/`restore_guard`, no unwinding) does NOT have
the property: an exception inside a region leaves the guard installed (finding C08-block-unwind).
Closed counterexample, evaluated by the kernel on the model. -/
theorem C08_cex_raw_no_unwind :
    let s0 : St := St.init 97 8 8
    (execEv (.tryCatch [.raw .priv 0 [.raise]]) [] s0).1.triple ≠ s0.triple := by
  decide +kernel

/-! non-vacuity: a three-deep history with a false middle guard, an operation that raises only
because of its values, a catch in the middle and a raise that escapes everything -/
example : (execEv (.guarded .priv 1 [.tryCatch [.guarded .priv 0 [.opLt 5 300, .guarded .priv 1 [.opAssertZero 3, .raise]]], .raise]) [] (St.init 97 8 8)).1.triple
    = (St.init 97 8 8).triple ∧
    (execEv (.guarded .priv 1 [.tryCatch [.guarded .priv 0 [.opLt 5 300, .guarded .priv 1 [.opAssertZero 3, .raise]]], .raise]) [] (St.init 97 8 8)).2 = true := by
  decide +kernel

/-! non-vacuity with re-entry: the decorator of a false region is entered again twice while active
(the second time inside the first), an operation that would raise is absorbed, the innermost
activation raises, the exception crosses all three activations and is caught outside; then a
true region re-entered once lets the assertion `3 == 0` raise through both activations -/
example : (execEv (.tryCatch [.guarded .priv 0 [.reenter [.opLt 5 300, .reenter [.raise]]]]) [] (St.init 97 8 8)).1.triple
    = (St.init 97 8 8).triple ∧
    (execList [.guarded .priv 0 [.reenter [.opLt 5 300, .reenter [.raise]]]] [] (St.init 97 8 8)).2 = true ∧
    (execList [.guarded .priv 1 [.reenter [.opAssertZero 3]]] [] (St.init 97 8 8)).2 = true ∧
    (execList [.guarded .priv 1 [.reenter [.opAssertZero 3]]] [] (St.init 97 8 8)).1.triple = (St.init 97 8 8).triple := by
  decide +kernel

/-! inside a re-entry the error-suppression flag is still the region's (the assertion `3 == 0` is
absorbed under the false condition, with or without the re-entry), the re-entry costs the AND
gadget (more constraints than the plain region, the same number for both guard values), and the
state a re-entry's body starts from has the AND output — not the condition — as guard and as ONE -/
example :
    (execList [.guarded .priv 0 [.reenter [.opAssertZero 3]]] [] (St.init 97 8 8)).2 = false ∧
    (execList [.guarded .priv 0 [.opAssertZero 3]] [] (St.init 97 8 8)).2 = false ∧
    (execList [.guarded .priv 0 [.reenter []]] [] (St.init 97 8 8)).1.cons.length
      > (execList [.guarded .priv 0 []] [] (St.init 97 8 8)).1.cons.length ∧
    (execList [.guarded .priv 0 [.reenter []]] [] (St.init 97 8 8)).1.cons.length
      = (execList [.guarded .priv 1 [.reenter []]] [] (St.init 97 8 8)).1.cons.length ∧
    (match mkCond .priv 0 (St.init 97 8 8) with
     | .ok (cv, s1) =>
       match addGuard cv s1 with
       | .ok (_, s2) =>
         match addGuard cv s2 with
         | .ok (bak, s3) =>
           decide (s2.guard = (match cv with | .lc c => some c | _ => none)) && decide (s3.guard ≠ s2.guard) &&
           decide (s3.guard.map (·.value) = some 0) && decide (s3.one.value = 0) && s3.ignoreErrors &&
           decide (bak.guard = s2.guard) && bak.ignoreErrors
         | .error _ => false
       | .error _ => false
     | .error _ => false) = true := by
  decide +kernel


/-- **API surface pinned** (regenerated from the source on every run, `Gen/Api.lean`): the functions this property's model
transcribes are exactly the functions the code has; an added or removed function changes the generated list and this
obligation fails (the tie is then broken by construction and the check runs its extended search). -/
theorem C08_api_surface :
    Gen.api_runtime_functions = ["ignore_errors", "is_base_value", "assert_base_value", "add_constraint_unsafe", "benchmark", "add_guard", "restore_guard", "guarded", "is_guard", "if_guard", "add_constraint", "PubVal", "PrivVal", "ConstVal", "for_each_in", "snark", "final"] := rfl

end Pysnark
