import PysnarkModel.Lemmas.BranchNative
import PysnarkModel.Gen.Api
import PysnarkModel.Lemmas.BranchInv
import PysnarkModel.Lemmas.BranchObl
import PysnarkModel.Lemmas.BranchGuard
import PysnarkModel.Lemmas.BranchKinds
import PysnarkModel.Lemmas.BranchLen
/-!
# C09 — oblivious if/elif/else, while and for compute what native control flow computes

Statement language (`Model/Branching.lean`).  Tracked variables hold secret integers (`LinComb`),
booleans (`LinCombBool`), fixed-point numbers (`LinCombFxp`) and (nested) lists of these (`TVal`).
Expressions: `+ - *` over tracked variables, secret integer and fixed-point inputs, loop variables and
constants; comparisons (booleans); `~ & |` on booleans; list literals, `l[i]` with a public index.
Statements: assignment (bare names alias the object), element assignment `_.l[i][j] = e`,
`if_then_else` on evaluated values of any (mixed) kinds and on lazily evaluated branches,
`if/elif/else` on any boolean-valued expression with variables first bound inside the arms, `for`
with a secret bound and a public maximum, `while` with a public cap and an optional break condition;
arbitrary nesting.  `runBlockT` is the model of the rendered Python source run against
`pysnark/branching.py` (the merge at a block exit as `BranchContext.exit()` does it for every kind:
identity shortcut, deep-copied snapshot that re-creates booleans and fixed-point numbers,
element-wise merge of lists of one length — a length mismatch is refused with `ValueError` —,
fixed-point coercion, kind changes; a selection between two booleans is a boolean); `nativeRunT`
(`Spec/Native.lean`) is the same program with native Python control flow on plain values (Python
ints, exact multiples of `2^-r` for fixed point, lists).

* `C09_refines` — for ALL programs, nestings, initial values and inputs: when the traced run
  completes, and the initial values are representable at the resolution, the native run does not
  fail (`NameError`, `TypeError`, inexact product), and unless it reaches a `for` whose bound is
  outside `0 … max` (outside the domain of the property) the tracked variables at the end are
  exactly the native variables and stand for the same numbers (`RefV`: integers and booleans by
  value, fixed point by representation, lists element-wise; every tracked boolean is 0 or 1); no
  context is left open and the guard is back to "true".  Whatever the native run does: every variable
  that the program never assigns ends with the TYPES it was created with (`initKinds`: `LinComb`,
  `LinCombBool`, `LinCombFxp`, lists element-wise) — in particular a tracked boolean is still a
  `LinCombBool` after all the blocks it lived through.  "The traced run completes" carries the
  side conditions of the library (a comparison raises when its operands leave the bit length,
  reading an unbound variable raises, binding a variable in only some arms raises, a selection between
  lists of different lengths — in particular a block that rebinds a tracked list to a list of another
  length — raises: `C09_length_mismatch_refused`) and of the model (operand kinds for which the library
  computes something else than Python — `LinComb < LinCombFxp`, fixed point times fixed point — stop it).
* `C09_refines_int` — the same for integer variables and inputs only (`runBlock` / `nativeRun`).
* `C09_guard_restored` — after every completed run (statement) the guard triple (active guard,
  error suppression, `LinComb.ONE`) is what it was, whatever the conditions were; no context is open.
* `C09_untouched` — a variable holding secret integers (or lists of them) that a statement does not
  assign keeps its objects: value, wire expression and identity, whatever the conditions are.
  `C09_untouched_value` — a variable of ANY kind that a statement run under a true guard does not
  assign ends with the number it had and (holding secrets) with the types it had, and is coherent
  (`C09_sat`).  Its OBJECT changes when it is a boolean or a fixed-point number: the snapshot of
  `BranchingValues.backup()` re-creates these, the identity shortcut of `if_then_else` does not
  apply and one constraint is spent.
* `C09_kind_kept` — whatever the guards are and wherever the conditions go: a variable holding
  secrets that a statement (block) does not assign keeps its types; `C09_boolean_usable` — so a
  tracked boolean is accepted as the condition of a later `_if` / `_while` / `if_then_else`
  (`C09_boolean_kept_regression`: the closed run of the repaired finding C09-boolean-demoted; before
  the repair `if_then_else` returned `copy + cond*(b - copy)`, a plain `LinComb`, for two booleans and
  the later block raised `RuntimeError('Wrong type for if_then_else condition')`).
* `C09_length_mismatch_refused` (`_sel`, `_exit`) — `if_then_else` on two lists of different lengths
  raises `ValueError` before it merges anything, in every state and under every guard: at the value
  level, as the statement `_.x = if_then_else(c, t, f)`, and at a block exit where an arm or a loop
  round rebound a tracked list to a list of another length (native Python would rebind; no
  element-wise merge can express that, so the run is refused).  `C09_never_truncated` (`_exit`) — a
  merge that completes returns a value with the list structure (every length, at every nesting depth)
  of BOTH operands, so no element is ever dropped.  `C09_length_mismatch_regression` — the closed runs
  of the repaired finding C09-list-length-truncated (before the repair the merge went through `zip`
  and `if c: l = [8, 9, 10]` on a two-element list ended as `[8, 9]`).
* `C09_sat` — every constraint emitted by a completed run holds on the recorded witness, every
  tracked scalar is coherent with its wire expression and every tracked boolean is 0 or 1 (all
  nesting depths: the effective guard of a nested block is the bitwise AND of the enclosing guard
  and the condition).
* `C09_oblivious` — two completed runs of the same program on any two vectors of secret values emit
  the same constraints over the same wires, and end with values of the same shape (kinds, wire
  expressions, identities).
* `C09_cex_negative_bound` — the cap precondition has two sides: a negative secret bound makes the
  oblivious `for` run all `max` rounds where `range(bound)` runs none.
-/
namespace Pysnark

/-- **values**: the traced program ends with the native program's variables -/
def C09_refines_full : Prop :=
  ∀ (s0 : St) (init : List (Nat × IVal)) (inputs : List Int) (finputs : List (Int × Nat)) (prog : BBlock)
    (bs : BSt) (s : St),
    s0.guard = none → s0.ignoreErrors = false →
    runBlockT init inputs finputs prog s0 = .ok (bs, s) →
    bs.stack = [] ∧
    (∀ x, prog.assigns x = false → bs.bv.vals.kindOf x = initKinds init x none) ∧
    match nativeInit s0.resolution init inputs finputs with
    | .error _ => True          -- an initial fixed-point value is not a multiple of `2^-r`
    | .ok (E0, nc) =>
      match nBlock nc prog E0 with
      | .ok E => RefV s0.resolution bs.bv.vals E ∧ Live s0.resolution s
      | .error .uncapped => True
      | .error _ => False

theorem C09_refines : C09_refines_full := by
  intro s0 init inputs finputs prog bs s hg hi h
  obtain ⟨hst, hpost⟩ := runBlockT_ref hg hi h
  refine ⟨hst, fun x hx => runBlockT_kinds h x hx, ?_⟩
  cases hI : nativeInit s0.resolution init inputs finputs with
  | error e => trivial
  | ok p =>
    obtain ⟨E0, nc⟩ := p
    have hp := hpost E0 nc hI
    unfold Post at hp
    show match nBlock nc prog E0 with
      | .ok E => RefV s0.resolution bs.bv.vals E ∧ Live s0.resolution s
      | .error .uncapped => True
      | .error _ => False
    cases hN : nBlock nc prog E0 with
    | ok E => rw [hN] at hp; exact ⟨hp.2, hp.1⟩
    | error e => rw [hN] at hp; cases e <;> exact hp

/-! ### integers only -/
/-- integer variables and inputs only: the native run starts from the same integers -/
theorem C09_refines_int (s0 : St) (init : List (Nat × Int)) (inputs : List Int) (prog : BBlock) (bs : BSt) (s : St)
    (hg : s0.guard = none) (hi : s0.ignoreErrors = false) (h : runBlock init inputs prog s0 = .ok (bs, s)) :
    bs.stack = [] ∧
    match nativeRun s0.resolution init inputs prog with
    | .ok E => RefV s0.resolution bs.bv.vals E ∧ Live s0.resolution s
    | .error .uncapped => True
    | .error _ => False := by
  obtain ⟨hst, -, hpost⟩ := C09_refines s0 _ inputs [] prog bs s hg hi h
  refine ⟨hst, ?_⟩
  have hI : nativeInit s0.resolution (init.map (fun kv => (kv.1, PTree.leaf (ILeaf.int kv.2)))) inputs []
      = .ok (init.foldl (fun e kv => e.set kv.1 (.leaf (.int kv.2))) [],
             { res := s0.resolution, inputs := inputs.map NLeaf.int, finputs := [] }) := by
    simp only [nativeInit, nInitVars_int, nLeaves_int, ok_bind, List.map_nil, nLeaves]
    rfl
  rw [hI] at hpost
  simp only [nativeRun, nativeRunT, hI, ok_bind]
  exact hpost

/-- the same for one statement inside any program: from a state whose effective guard is true and
whose tracked variables are the native variables, to such a state -/
theorem C09_refines_stmt {r : Nat} (st : BStmt) (env : BEnv) (nc : NCtx) (bs bs' : BSt) (s s' : St) (E : NEnv)
    (hi : RefI r env nc) (hl : Live r s) (hr : RefV r bs.bv.vals E) (h : execStmt env st bs s = .ok (bs', s')) :
    match nStmt nc st E with
    | .ok E' => Live r s' ∧ RefV r bs'.bv.vals E'
    | .error .uncapped => True
    | .error _ => False := by
  have hp := execStmt_ref st env nc bs bs' s s' E hi hl hr h
  unfold Post at hp
  cases hN : nStmt nc st E with
  | ok E' => rw [hN] at hp; exact hp
  | error e => rw [hN] at hp; cases e <;> exact hp

/-- **guard state restored**: after a completed run no context is open and the guard triple
(active guard, error-suppression flag, `LinComb.ONE`) is the initial one -/
theorem C09_guard_restored (s0 : St) (init : List (Nat × IVal)) (inputs : List Int) (finputs : List (Int × Nat))
    (prog : BBlock) (bs : BSt) (s : St) (hg : s0.guard = none) (hi : s0.ignoreErrors = false)
    (h : runBlockT init inputs finputs prog s0 = .ok (bs, s)) :
    bs.stack = [] ∧ s.guard = s0.guard ∧ s.ignoreErrors = s0.ignoreErrors ∧ s.one = s0.one := by
  have hst := (runBlockT_ref hg hi h).1
  refine ⟨hst, ?_⟩
  unfold runBlockT at h
  obtain ⟨bv, s1, h1, h⟩ := bind_ok.mp h
  obtain ⟨⟨inp, n1⟩, s2, h2, h⟩ := bind_ok.mp h
  obtain ⟨⟨finp, n2⟩, s3, h3, h⟩ := bind_ok.mp h
  have hl0 : Live s0.resolution s0 := ⟨by unfold St.isGuard; rw [hg], hi, rfl⟩
  have sm1 := setupVars_same init (bv := {}) hl0 h1
  obtain ⟨sm2, _, _⟩ := setupInputs_ref _ (hl0.same sm1) h2
  obtain ⟨sm3, _, _⟩ := setupInputs_ref _ ((hl0.same sm1).same sm2) h3
  have ht := execBlock_triple prog _ _ _ _ _ h
  have sm := (sm1.trans sm2).trans sm3
  rw [sm.triple] at ht
  simp only [St.triple, Triple.mk.injEq] at ht
  exact ht

/-- the same for one statement in any state, whatever the guard is and wherever the conditions go -/
theorem C09_guard_restored_stmt (st : BStmt) (env : BEnv) (bs bs' : BSt) (s s' : St)
    (h : execStmt env st bs s = .ok (bs', s')) :
    bs'.stack = bs.stack ∧ s'.guard = s.guard ∧ s'.ignoreErrors = s.ignoreErrors ∧ s'.one = s.one := by
  have ht := execStmt_triple st env bs bs' s s' h
  simp only [St.triple, Triple.mk.injEq] at ht
  exact ⟨(execStmt_struct st env bs bs' s s' h).1.1, ht⟩

/-- **untouched variables** (secret integers, lists of them): same objects (value, wire expression,
identity) after the statement -/
theorem C09_untouched (st : BStmt) (x : Nat) (env : BEnv) (bs bs' : BSt) (s s' : St)
    (hx : st.assigns x = false) (hk : ∀ t, bs.bv.vals.get? x = some t → t.stable = true)
    (h : execStmt env st bs s = .ok (bs', s')) :
    bs'.bv.vals.get? x = bs.bv.vals.get? x ∧ bs'.stack = bs.stack :=
  ⟨execStmt_untouched st x env bs bs' s s' hx hk h, (execStmt_struct st env bs bs' s s' h).1.1⟩

theorem C09_untouched_block (b : BBlock) (x : Nat) (env : BEnv) (bs bs' : BSt) (s s' : St)
    (hx : b.assigns x = false) (hk : ∀ t, bs.bv.vals.get? x = some t → t.stable = true)
    (h : execBlock env b bs s = .ok (bs', s')) :
    bs'.bv.vals.get? x = bs.bv.vals.get? x :=
  execBlock_untouched b x env bs bs' s s' hx hk h

/-- **untouched variables of any kind** (booleans, fixed point, lists of anything): the variable
ends with the NUMBER it had (its object may be a new one), tracked booleans are still 0 or 1, and
— whatever the native run does — a variable holding secrets ends with the TYPES it had: a boolean
is still a `LinCombBool`, a fixed-point number a `LinCombFxp` -/
theorem C09_untouched_value {r : Nat} (st : BStmt) (x : Nat) (env : BEnv) (nc : NCtx) (bs bs' : BSt) (s s' : St)
    (E : NEnv) (hx : st.assigns x = false) (hi : RefI r env nc) (hl : Live r s) (hr : RefV r bs.bv.vals E)
    (h : execStmt env st bs s = .ok (bs', s')) :
    (match nStmt nc st E with
    | .ok _ => bs'.bv.vals.valOf r x = bs.bv.vals.valOf r x ∧ bs'.bv.vals.bok
    | .error _ => True) ∧
    ((∀ t, bs.bv.vals.get? x = some t → t.isSecret = true) → bs'.bv.vals.kindOf x = bs.bv.vals.kindOf x) :=
  ⟨execStmt_untouched_value st x env nc bs bs' s s' E hx hi hl hr h,
   fun hsec => execStmt_kinds st x env bs bs' s s' hx (kindOf_sec hsec) h⟩

/-- **types kept**, whatever the guard is and wherever the conditions go: a variable holding
secrets (every tracked variable does: `_.x = …` is modelled for secrets only) that a statement does
not assign has the same types afterwards — `LinComb`s, `LinCombBool`s, `LinCombFxp`s, lists
element-wise -/
theorem C09_kind_kept (st : BStmt) (x : Nat) (env : BEnv) (bs bs' : BSt) (s s' : St)
    (hx : st.assigns x = false) (hk : ∀ t, bs.bv.vals.get? x = some t → t.isSecret = true)
    (h : execStmt env st bs s = .ok (bs', s')) :
    bs'.bv.vals.kindOf x = bs.bv.vals.kindOf x :=
  execStmt_kinds st x env bs bs' s s' hx (kindOf_sec hk) h

theorem C09_kind_kept_block (b : BBlock) (x : Nat) (env : BEnv) (bs bs' : BSt) (s s' : St)
    (hx : b.assigns x = false) (hk : ∀ t, bs.bv.vals.get? x = some t → t.isSecret = true)
    (h : execBlock env b bs s = .ok (bs', s')) :
    bs'.bv.vals.kindOf x = bs.bv.vals.kindOf x :=
  execBlock_kinds b x env bs bs' s s' hx (kindOf_sec hk) h

/-- **a tracked boolean stays usable as a condition**: after any block (sequence of statements,
arbitrarily nested, whatever its conditions were) that does not assign it, the variable evaluates
to a `LinCombBool`, the type `_if` / `_elif` / `_while` / `_breakif` / `if_then_else` require of a
condition (`condLC`; the repaired behaviour of finding C09-boolean-demoted) -/
theorem C09_boolean_usable (b : BBlock) (x : Nat) (env : BEnv) (bs bs' : BSt) (s s' : St)
    (hx : b.assigns x = false) (hb : bs.bv.vals.kindOf x = some (.leaf (some .bool)))
    (h : execBlock env b bs s = .ok (bs', s')) :
    bs'.bv.vals.kindOf x = some (.leaf (some .bool)) ∧
    ∀ (env' : BEnv) (t : St), ∃ l, evalC env' bs'.bv (.var x) t = .ok (.lcb l, t) ∧ condLC (.lcb l) t = .ok (l, t) := by
  have hk : bs'.bv.vals.kindOf x = some (.leaf (some .bool)) := by
    rw [execBlock_kinds b x env bs bs' s s' hx (fun k hk' => by rw [hb] at hk'; cases hk'; rfl) h]
    exact hb
  exact ⟨hk, fun env' t => evalC_var_bool t hk⟩

/-- **satisfaction and coherence** of every completed run, for every prime modulus -/
theorem C09_sat (p : Nat) (hp : p.Prime) (bl res : Nat) (init : List (Nat × IVal)) (inputs : List Int)
    (finputs : List (Int × Nat)) (prog : BBlock) (bs : BSt) (s : St)
    (h : runBlockT init inputs finputs prog (St.init p bl res) = .ok (bs, s)) :
    (∀ c ∈ s.cons, Sat s.p s.assign c) ∧ (∀ x t, bs.bv.vals.get? x = some t → CohT s t ∧ BoolT t) := by
  obtain ⟨_, inv, good⟩ := runBlockT_inv (Inv.init p bl res) ⟨p, hp, rfl⟩ h
  exact ⟨inv.sat, fun x t hx => ⟨(good.vals.get? hx).coh, (good.vals.get? hx).bok⟩⟩

/-- **obliviousness**: the constraint system and the final values' shapes (kinds, wire
expressions, identities) do not depend on the secret values (hence not on which branches were
taken, nor on how often a loop ran) -/
theorem C09_oblivious (s1 s2 : St) (hs : s1.shape = s2.shape) (init1 init2 : List (Nat × IVal))
    (hinit : Forall2 (fun a b => a.1 = b.1 ∧ IRel a.2 b.2) init1 init2) (in1 in2 : List Int) (hin : in1.length = in2.length)
    (f1 f2 : List (Int × Nat)) (hf : f1.length = f2.length)
    (prog : BBlock) (bs1 bs2 : BSt) (t1 t2 : St)
    (h1 : runBlockT init1 in1 f1 prog s1 = .ok (bs1, t1)) (h2 : runBlockT init2 in2 f2 prog s2 = .ok (bs2, t2)) :
    t1.shape = t2.shape ∧ ValsRel bs1.bv.vals bs2.bv.vals := by
  obtain ⟨hr, ht⟩ := runBlockT_obl hinit hin hf prog s1 s2 bs1 bs2 t1 t2 hs h1 h2
  exact ⟨ht, hr.bv.vals⟩

/-! ## the cap precondition has two sides -/

/-- `for l0 in _range(inp[0], max=2): x0 = x0 + 1` -/
def exNeg : BBlock := .cons (.forr 0 (.inp 0) 2 (.cons (.assign 0 (.add (.var 0) (.const 1))) .nil)) .nil

mutual
/-- the values a tracked variable holds (fixed point: the representation), lists flattened -/
def tvalInts : TVal → List Int
  | .leaf (.pub c) => [c]
  | .leaf (.sc _ l _) => [l.value]
  | .node ts => tvalsInts ts
def tvalsInts : List TVal → List Int
  | [] => []
  | t :: ts => tvalInts t ++ tvalsInts ts
end

mutual
/-- the kinds of the scalars of a value: 0 plain int, 1 `LinComb`, 2 `LinCombBool`, 3 `LinCombFxp` -/
def tvalKinds : TVal → List Nat
  | .leaf (.pub _) => [0]
  | .leaf (.sc .int _ _) => [1]
  | .leaf (.sc .bool _ _) => [2]
  | .leaf (.sc .fxp _ _) => [3]
  | .node ts => tvalsKinds ts
def tvalsKinds : List TVal → List Nat
  | [] => []
  | t :: ts => tvalKinds t ++ tvalsKinds ts
end

mutual
def nvalInts (r : Nat) : NVal → List Int
  | .leaf a => [a.norm r]
  | .node ts => nvalsInts r ts
def nvalsInts (r : Nat) : List NVal → List Int
  | [] => []
  | t :: ts => nvalInts r t ++ nvalsInts r ts
end

def runValsT (init : List (Nat × IVal)) (inputs : List Int) (finputs : List (Int × Nat)) (prog : BBlock) (s0 : St) :
    Option (List (Nat × List Int) × St) :=
  match runBlockT init inputs finputs prog s0 with
  | .ok (bs, s) => some (bs.bv.vals.map (fun kv => (kv.1, tvalInts kv.2)), s)
  | .error _ => none

def runVals (init : List (Nat × Int)) (inputs : List Int) (prog : BBlock) (s0 : St) : Option (List (Nat × List Int) × St) :=
  runValsT (init.map (fun kv => (kv.1, PTree.leaf (ILeaf.int kv.2)))) inputs [] prog s0

/-- the native variables as numbers in units of `2^-r` -/
def natVals (r : Nat) (res : NM NEnv) : Option (List (Nat × List Int)) :=
  match res with
  | .ok E => some (E.map (fun kv => (kv.1, nvalInts r kv.2)))
  | .error _ => none

/-- with the secret bound −1 the oblivious loop runs both rounds (`x0` ends as 5) where
`for l0 in range(-1)` runs none (`x0` stays 3): `0 ≤ bound` is part of the precondition, and the
reference semantics reports the run as outside the domain (finding C09-negative-bound) -/
theorem C09_cex_negative_bound :
    (runVals [(0, 3)] [-1] exNeg (St.init 97 3 8)).map (·.1) = some [(0, [5])] ∧
    (match nativeRun 8 [(0, 3)] [-1] exNeg with | .error .uncapped => true | _ => false) = true ∧
    natVals 0 (nIter ((-1 : Int).toNat) (fun _ e => nBlock { res := 8, inputs := [.int (-1)] }
        (.cons (.assign 0 (.add (.var 0) (.const 1))) .nil) e) 0 [(0, .leaf (.int 3))])
      = some [(0, [3])] := by
  first | decide +kernel | fail "C09_cex_negative_bound: the closed run no longer evaluates to the recorded values"

/-! ## a tracked boolean lives through every block as a boolean (repaired finding C09-boolean-demoted) -/

def satAll (s : St) : Bool :=
  s.cons.all (fun c => (LC.eval s.assign c.1 * LC.eval s.assign c.2.1 - LC.eval s.assign c.2.2) % s.p == 0)

/-- `if in0 == 1: x1 = x1 + 1` with `x0` a tracked boolean that the block does not touch -/
def exDemote : BBlock :=
  .cons (.ifs (.cmp .eq (.inp 0) (.const 1)) (.cons (.assign 1 (.add (.var 1) (.const 1))) .nil) .endif) .nil

/-- the same block, then `if x0: x1 = x1 + 1` with the tracked boolean as the condition -/
def exDemoteThenUse : BBlock :=
  .cons (.ifs (.cmp .eq (.inp 0) (.const 1)) (.cons (.assign 1 (.add (.var 1) (.const 1))) .nil) .endif)
    (.cons (.ifs (.var 0) (.cons (.assign 1 (.add (.var 1) (.const 1))) .nil) .endif) .nil)

def runKinds (init : List (Nat × IVal)) (inputs : List Int) (finputs : List (Int × Nat)) (prog : BBlock) (s0 : St) :
    Option (List (Nat × List Nat) × List (Nat × List Int) × Nat) :=
  match runBlockT init inputs finputs prog s0 with
  | .ok (bs, s) => some (bs.bv.vals.map (fun kv => (kv.1, tvalKinds kv.2)), bs.bv.vals.map (fun kv => (kv.1, tvalInts kv.2)), s.cons.length)
  | .error _ => none

/-- REGRESSION STATEMENT of the repaired finding C09-boolean-demoted (`fix:` commit in `if_then_else`:
a selection between two `LinCombBool`s returns `LinCombBool(ret, False)`).  A tracked `LinCombBool`
that a block does not touch keeps its value 1 AND its type (kind 2; before the repair it came out as a
plain `LinComb`, kind 1: the snapshot taken by `BranchingValues.backup()` is a new `LinCombBool`,
`if_then_else` does not take its identity shortcut and returned `copy + cond*(b - copy)`).  The
constraint count is what it was (6 against 3 with an integer in its place: the two merges of
`_endif` and the boolean test of the initial value; the new constructor call adds none).  Using
`_.x0` as the condition of a later `_if` now runs and gives the native result (`x1 == 6`; before the
repair: `RuntimeError: Wrong type for if_then_else condition`, the model stopped with `unmodelled`),
all constraints hold, and the native program ends with the same numbers. -/
theorem C09_boolean_kept_regression :
    (runKinds [(0, .leaf (.bool 1)), (1, .leaf (.int 5))] [0] [] exDemote (St.init 97 3 8)
      == some ([(0, [2]), (1, [1])], [(0, [1]), (1, [5])], 6)) = true ∧
    (runKinds [(0, .leaf (.int 1)), (1, .leaf (.int 5))] [0] [] exDemote (St.init 97 3 8)
      == some ([(0, [1]), (1, [1])], [(0, [1]), (1, [5])], 3)) = true ∧
    (match runBlockT [(0, .leaf (.bool 1)), (1, .leaf (.int 5))] [0] [] exDemoteThenUse (St.init 97 3 8),
        natVals 8 (nativeRunT 8 [(0, .leaf (.bool 1)), (1, .leaf (.int 5))] [0] [] exDemoteThenUse) with
      | .ok (bs, s), some E =>
        bs.bv.vals.map (fun kv => (kv.1, tvalKinds kv.2)) == [(0, [2]), (1, [1])] &&
        bs.bv.vals.map (fun kv => (kv.1, tvalInts kv.2)) == [(0, [1]), (1, [6])] &&
        E == [(0, [256]), (1, [6 * 256])] && satAll s && bs.stack.isEmpty
      | _, _ => false) = true := by
  first | decide +kernel | fail "C09_boolean_kept_regression: the closed run no longer evaluates to the recorded values"

/-! ## lists of different lengths are refused, never truncated (repaired finding C09-list-length-truncated) -/

/-- **a length mismatch is refused**: `if_then_else(cond, truev, falsev)` on two lists of different
lengths raises `ValueError`, whatever the condition, the elements, the state and the guard are, and
before anything is merged (no constraint is emitted: the result is the error itself) -/
theorem C09_length_mismatch_refused (cond : LinComb) (ts fs : List TVal) (n : Nat) (s : St)
    (hl : ts.length ≠ fs.length) :
    mergeT cond (.node ts) (.node fs) n s = .error .value :=
  mergeT_len_refused n s hl

/-- the statement `_.x = if_then_else(c, t, f)` whose two (evaluated) branches are lists of different
lengths ends the run with `ValueError` -/
theorem C09_length_mismatch_refused_sel (env : BEnv) (x : Nat) (c : BCond) (t f : BExpr) (bs : BSt) (s s1 s2 s3 : St)
    (cl : LinComb) (ts fs : List TVal) (n1 n2 : Nat)
    (hc : evalC env bs.bv c s = .ok (.lcb cl, s1))
    (ht : evalE env bs.bv.vals t bs.bv.next s1 = .ok ((.node ts, n1), s2))
    (hf : evalE env bs.bv.vals f n1 s2 = .ok ((.node fs, n2), s3))
    (hl : ts.length ≠ fs.length) :
    execStmt env (.sel x c t f) bs s = .error .value :=
  sel_len_refused hc ht hf hl

/-- `BranchContext.exit()` — the end of an arm or of a loop round — when the arm rebound a tracked
list to a list of another length: `ValueError` (native Python would simply rebind the name; that can
not be expressed by an element-wise selection, so the run is REFUSED).  Stated for the first variable
of the dictionary, in the first arm / round of the context, every variable bound before the block. -/
theorem C09_length_mismatch_refused_exit (ctx : BCtx) (bv : BV) (s s1 : St) (x : Nat) (ts fs : List TVal) (rest : Vals)
    (hg : restoreGuard ctx.origguard s = .ok ((), s1)) (hn : ctx.nodefvals = none)
    (hv : bv.vals = (x, .node ts) :: rest) (hall : ∀ kv ∈ bv.vals, ctx.bak.has kv.1 = true)
    (hb : ctx.bak.get? x = some (.node fs)) (hl : ts.length ≠ fs.length) :
    ctx.exit bv s = .error .value :=
  exit_len_refused hg hn hv hall hb hl

/-- **never truncated**: a selection that completes returns a value with the list structure
(`PTree.skel`: all lengths at every nesting depth) of `truev`, and `falsev` has that structure too;
for two lists: the result has the length of both -/
theorem C09_never_truncated (cond : LinComb) (t f r : TVal) (n n' : Nat) (s s' : St)
    (h : mergeT cond t f n s = .ok ((r, n'), s')) :
    r.skel = t.skel ∧ r.skel = f.skel ∧
    ∀ ts fs, t = .node ts → f = .node fs → ∃ rs, r = .node rs ∧ rs.length = ts.length ∧ rs.length = fs.length := by
  obtain ⟨h1, h2⟩ := mergeT_skel h
  refine ⟨h1, h1.trans h2.symm, ?_⟩
  rintro ts fs rfl rfl
  exact mergeT_node_length h

/-- the same at a block exit that completes: every variable merged with its snapshot leaves the block
with the list structure it had in the arm and the one it had before the block -/
theorem C09_never_truncated_exit (ctx ctx' : BCtx) (bv bv' : BV) (s s' : St)
    (h : ctx.exit bv s = .ok ((ctx', bv'), s')) (x : Nat) (r : TVal) (hx : bv'.vals.get? x = some r) :
    ∃ t f, bv.vals.get? x = some t ∧ ctx.bak.get? x = some f ∧ r.skel = t.skel ∧ r.skel = f.skel :=
  exit_skel h x r hx

def runErr (init : List (Nat × IVal)) (inputs : List Int) (finputs : List (Int × Nat)) (prog : BBlock) (s0 : St) : Option Err :=
  match runBlockT init inputs finputs prog s0 with
  | .error e => some e
  | .ok _ => none

/-- `[in0 + 7, in0 + 8, in0 + 9]`, `[in0 + 7, in0 + 8]`, `[x0[0]]` -/
def exLit3 : BExpr := .list (.cons (.add (.inp 0) (.const 7)) (.cons (.add (.inp 0) (.const 8)) (.cons (.add (.inp 0) (.const 9)) .nil)))
def exLit2 : BExpr := .list (.cons (.add (.inp 0) (.const 7)) (.cons (.add (.inp 0) (.const 8)) .nil))
def exLit1 : BExpr := .list (.cons (.item (.var 0) 0) .nil)
/-- `if in0 == 1: x0 = [in0 + 7, in0 + 8, in0 + 9]` on a tracked list of two elements (the replay of the finding) -/
def exLenIf : BBlock := .cons (.ifs (.cmp .eq (.inp 0) (.const 1)) (.cons (.assign 0 exLit3) .nil) .endif) .nil
/-- the same block with a list of the SAME length -/
def exLenSame : BBlock := .cons (.ifs (.cmp .eq (.inp 0) (.const 1)) (.cons (.assign 0 exLit2) .nil) .endif) .nil
/-- `for l0 in _range(in1, max=2): x0 = [x0[0]]` -/
def exLenFor : BBlock := .cons (.forr 0 (.inp 1) 2 (.cons (.assign 0 exLit1) .nil)) .nil
/-- `x1 = if_then_else(in0 == 1, [x0[0]], x0)` on values, and on lazily evaluated branches -/
def exLenSel : BBlock := .cons (.sel 1 (.cmp .eq (.inp 0) (.const 1)) exLit1 (.var 0)) .nil
def exLenIte : BBlock := .cons (.ite 1 (.cmp .eq (.inp 0) (.const 1)) exLit1 (.var 0)) .nil
/-- `if in0 == 1: x0[1] = [in0 + 7, in0 + 8]` on `x0 = [[1, 2], [3]]`: a ROW changes its length -/
def exLenRow : BBlock := .cons (.ifs (.cmp .eq (.inp 0) (.const 1)) (.cons (.setitem 0 [1] exLit2) .nil) .endif) .nil
def exLenInit : List (Nat × IVal) := [(0, .node [.leaf (.int 1), .leaf (.int 2)])]
def exLenInitM : List (Nat × IVal) := [(0, .node [.node [.leaf (.int 1), .leaf (.int 2)], .node [.leaf (.int 3)]])]

/-- REGRESSION STATEMENT of the repaired finding C09-list-length-truncated (`fix:` commit in
`if_then_else`: `if len(truev) != len(falsev): raise ValueError`).  Every way in which the two
operands of a list merge can differ in length is refused with `ValueError`, whichever way the
condition goes (the merge is made in both cases: the run is oblivious): a block that rebinds a
tracked list of two elements to three (before the repair: `[8, 9]` for a true condition, native
`[8, 9, 10]`), a loop round that rebinds it to one (refused even for the bound 0, where the native
loop does not run at all), a selection on values and on lazily evaluated branches, a row of a list
of lists replaced by a longer one.  The native runs complete with the rebound lists (in units of
`2^-8`): the refusal is a restriction of the library, stated, not a wrong value.  The same block with
a list of the SAME length runs and ends with the native values. -/
theorem C09_length_mismatch_regression :
    ((runErr exLenInit [1] [] exLenIf (St.init 97 3 8) == some .value &&
     runErr exLenInit [0] [] exLenIf (St.init 97 3 8) == some .value &&
     natVals 8 (nativeRunT 8 exLenInit [1] [] exLenIf) == some [(0, [2048, 2304, 2560])] &&
     natVals 8 (nativeRunT 8 exLenInit [0] [] exLenIf) == some [(0, [256, 512])]) &&
    (runErr exLenInit [0, 2] [] exLenFor (St.init 97 3 8) == some .value &&
     runErr exLenInit [0, 0] [] exLenFor (St.init 97 3 8) == some .value &&
     natVals 8 (nativeRunT 8 exLenInit [0, 2] [] exLenFor) == some [(0, [256])] &&
     natVals 8 (nativeRunT 8 exLenInit [0, 0] [] exLenFor) == some [(0, [256, 512])]) &&
    (runErr exLenInit [1] [] exLenSel (St.init 97 3 8) == some .value &&
     runErr exLenInit [0] [] exLenSel (St.init 97 3 8) == some .value &&
     runErr exLenInit [1] [] exLenIte (St.init 97 3 8) == some .value &&
     runErr exLenInit [0] [] exLenIte (St.init 97 3 8) == some .value &&
     natVals 8 (nativeRunT 8 exLenInit [1] [] exLenSel) == some [(0, [256, 512]), (1, [256])] &&
     natVals 8 (nativeRunT 8 exLenInit [0] [] exLenSel) == some [(0, [256, 512]), (1, [256, 512])]) &&
    (runErr exLenInitM [1] [] exLenRow (St.init 97 3 8) == some .value &&
     runErr exLenInitM [0] [] exLenRow (St.init 97 3 8) == some .value &&
     natVals 8 (nativeRunT 8 exLenInitM [1] [] exLenRow) == some [(0, [256, 512, 2048, 2304])]) &&
    ((runValsT exLenInit [1] [] exLenSame (St.init 97 3 8)).map (·.1) == some [(0, [8, 9])] &&
     (runValsT exLenInit [0] [] exLenSame (St.init 97 3 8)).map (·.1) == some [(0, [1, 2])] &&
     natVals 8 (nativeRunT 8 exLenInit [1] [] exLenSame) == some [(0, [2048, 2304])] &&
     natVals 8 (nativeRunT 8 exLenInit [0] [] exLenSame) == some [(0, [256, 512])])) = true := by
  first | decide +kernel | fail "C09_length_mismatch_regression: the closed runs no longer evaluate to the recorded values"

/-! ## non-vacuity -/

/-- `if in0 == 1: x0 = x0 + 2; x1 = in0  elif x0 < 1: x1 = x0 * 2  else: x1 = x0` (x1 first bound inside),
`for l0 in range(in1) [max 2]: x0 = x0 + l0`, `while x0 != 5 [cap 2]: x0 = x0 + 1; if x0 == 4: break`,
`x1 = if_then_else(in0 != 0, lambda: x0 + 1, lambda: 2)` -/
def exProg09 : BBlock :=
  .cons (.ifs (.cmp .eq (.inp 0) (.const 1)) (.cons (.assign 0 (.add (.var 0) (.const 2))) (.cons (.assign 1 (.inp 0)) .nil))
     (.elif (.cmp .lt (.var 0) (.const 1)) (.cons (.assign 1 (.mul (.var 0) (.const 2))) .nil)
       (.els (.cons (.assign 1 (.var 0)) .nil)))) <|
  .cons (.forr 0 (.inp 1) 2 (.cons (.assign 0 (.add (.var 0) (.loopvar 0))) .nil)) <|
  .cons (.whil (.cmp .ne (.var 0) (.const 5)) 2 (.cons (.assign 0 (.add (.var 0) (.const 1))) .nil) (some (.cmp .eq (.var 0) (.const 4)))) <|
  .cons (.ite 1 (.cmp .ne (.inp 0) (.const 0)) (.add (.var 0) (.const 1)) (.const 2)) .nil

/-- `C09_refines`, `C09_sat`: the run completes (first arm taken, loop of 2 rounds, while stops by its test),
ends with the native values, and its constraints hold -/
example : (match runVals [(0, 1)] [1, 2] exProg09 (St.init 97 3 8), natVals 0 (nativeRun 8 [(0, 1)] [1, 2] exProg09) with
    | some (vs, s), some E => vs == [(0, [5]), (1, [6])] && E == [(0, [5]), (1, [6])] && satAll s && decide (s.cons.length > 30)
    | _, _ => false) = true := by
  first | decide +kernel | fail "C09 example 1"

/-- `C09_oblivious`, other branches: else arm, loop of 0 rounds, while stopped by the break; same constraints -/
example : (match runVals [(0, 1)] [1, 2] exProg09 (St.init 97 3 8), runVals [(0, 2)] [0, 0] exProg09 (St.init 97 3 8),
      natVals 0 (nativeRun 8 [(0, 2)] [0, 0] exProg09) with
    | some (_, s), some (vs', s'), some E' => vs' == [(0, [4]), (1, [2])] && E' == [(0, [4]), (1, [2])] && satAll s' &&
        decide (s.shape = s'.shape)
    | _, _, _ => false) = true := by
  first | decide +kernel | fail "C09 example 2"

/-- `C09_untouched`: `x0` (an integer) is not assigned by the `if`; it is the same object afterwards and the two
merges cost no constraint for it -/
example : (match runBlock [(0, 1), (1, 7)] [0] (.cons (.ifs (.cmp .eq (.inp 0) (.const 1)) (.cons (.assign 1 (.inp 0)) .nil) .endif) .nil)
      (St.init 97 3 8) with
    | .ok (bs, _) => (match bs.bv.vals.get? 0 with
        | some (.leaf (.sc .int l (some 0))) => l.value == 1 && l.lc == [(Wire.priv 0, 1)]
        | _ => false) && ((bs.bv.vals.get? 1).map tvalInts == some [7])
    | _ => false) = true := by
  first | decide +kernel | fail "C09 example 3"

/-- typed variables (resolution 2): `x0` boolean, `x1` fixed point 1.5, `x2 = [[1, 2], [3, 4]]`, `x3 = 5`;
`x3 = if_then_else(~x0 | (x3 < 2), x1, x3)`, `if in0 == 1: x2[0][1] = in0 + 9; x1 = x0   else: x1 = x1 + fin0`,
`for l0 in range(in1) [max 2]: x2[1][0] = x2[1][0] + l0`.  Branch not taken (in0 = 0): the two-index write does
not survive, the else arm adds 0.75; the selection takes the integer 5 into a fixed-point variable (20 = 5·2²);
the traced values are the native numbers (in units of 2⁻²) and all constraints hold. -/
def exTyped : BBlock :=
  .cons (.sel 3 (.or (.not (.var 0)) (.cmp .lt (.var 3) (.const 2))) (.var 1) (.var 3)) <|
  .cons (.ifs (.cmp .eq (.inp 0) (.const 1))
      (.cons (.setitem 2 [0, 1] (.add (.inp 0) (.const 9))) (.cons (.assign 1 (.var 0)) .nil))
      (.els (.cons (.assign 1 (.add (.var 1) (.finp 0))) .nil))) <|
  .cons (.forr 0 (.inp 1) 2 (.cons (.setitem 2 [1, 0] (.add (.item (.item (.var 2) 1) 0) (.loopvar 0))) .nil)) .nil

def exTypedInit : List (Nat × IVal) :=
  [(0, .leaf (.bool 1)), (1, .leaf (.fxp 3 1)), (2, .node [.node [.leaf (.int 1), .leaf (.int 2)], .node [.leaf (.int 3), .leaf (.int 4)]]),
   (3, .leaf (.int 5))]

example : (match runValsT exTypedInit [0, 2] [(3, 2)] exTyped (St.init 97 4 2),
      natVals 2 (nativeRunT 2 exTypedInit [0, 2] [(3, 2)] exTyped) with
    | some (vs, s), some E =>
      vs == [(0, [1]), (1, [9]), (2, [1, 2, 4, 4]), (3, [20])] &&
      E == [(0, [4]), (1, [9]), (2, [4, 8, 16, 16]), (3, [20])] && satAll s
    | _, _ => false) = true := by
  first | decide +kernel | fail "C09 example 4 (typed, branch not taken)"

/-- the same program with the branch taken (in0 = 1): the element is written, the fixed-point variable takes the
boolean (1 = 4·2⁻²); a different witness, the same constraint system -/
example : (match runValsT exTypedInit [1, 1] [(3, 2)] exTyped (St.init 97 4 2), runValsT exTypedInit [0, 2] [(3, 2)] exTyped (St.init 97 4 2),
      natVals 2 (nativeRunT 2 exTypedInit [1, 1] [(3, 2)] exTyped) with
    | some (vs, s), some (_, s'), some E =>
      vs == [(0, [1]), (1, [4]), (2, [1, 10, 3, 4]), (3, [20])] &&
      E == [(0, [4]), (1, [4]), (2, [4, 40, 12, 16]), (3, [20])] && satAll s && decide (s.shape = s'.shape)
    | _, _, _ => false) = true := by
  first | decide +kernel | fail "C09 example 5 (typed, branch taken)"


/-- **API surface pinned** (regenerated from the source on every run, `Gen/Api.lean`): the methods the model of this
property transcribes are exactly the methods the code has.  A method added to the code (say an in-place `__iadd__`, which
Python would prefer over the `__add__` the model knows) or removed from it changes the generated list and this obligation
fails: the tie is then broken by construction and the check runs its extended search. -/
theorem C09_api_surface :
    Gen.api_branching = ["if_then_else", "BranchingValues.__init__", "BranchingValues.__del__", "BranchingValues.__getattr__", "BranchingValues.__setattr__", "BranchingValues.backup", "BranchContext.__init__", "BranchContext.exit", "BranchContext.enter", "BranchContext.end", "IfContext.__init__", "IfContext._elif", "IfContext._else", "IfContext.end", "getcontext", "_if", "_elif", "_else", "_endif", "WhileContext.exit", "WhileContext._while", "WhileContext.end", "_while", "_endwhile", "_breakif", "ObliviousIterator.__init__", "ObliviousIterator.__next__", "_range.__init__", "_range.__iter__", "_endfor"] := rfl

end Pysnark
