import PysnarkModel.Lemmas.BranchRun
import PysnarkModel.Lemmas.BranchUntouched
import PysnarkModel.Lemmas.BranchInv
import PysnarkModel.Lemmas.BranchObl
/-!
# C09 — oblivious if/elif/else, while and for compute what native control flow computes

Statement language (`Model/Branching.lean`): assignments of `+ - *` expressions over tracked
variables, secret inputs, loop variables and constants (bare names alias the object); `if/elif/else`
on comparisons of such expressions, with variables first bound inside the arms; `for` with a secret
bound and a public maximum; `while` with a public cap and an optional break condition; selection
with lazily evaluated branches; arbitrary nesting.  `runBlock` is the model of the rendered Python
source run against `pysnark/branching.py`; `nativeRun` (`Spec/Native.lean`) is the same program with
native Python control flow on plain integers.

* `C09_refines` — for ALL programs, nestings, initial values and inputs: when the traced run
  completes, the native run does not fail with a `NameError`, and unless it reaches a `for` whose
  bound is outside `0 … max` (outside the domain of the property), the tracked variables at the end
  are exactly the native variables with the native values; no context is left open and the guard
  is back to "true".  "The traced run completes" carries the range side conditions of the library:
  a comparison raises when its operands leave the bit length, reading an unbound variable raises,
  binding a variable in only some arms raises.
* `C09_untouched` — a variable that a statement (block) does not assign keeps its object: value,
  wire expression and identity, whatever the conditions are.
* `C09_sat` — every constraint emitted by a completed run holds on the recorded witness, and every
  tracked variable is coherent with its wire expression (all nesting depths: the effective guard of
  a nested block is the bitwise AND of the enclosing guard and the condition).
* `C09_oblivious` — two completed runs of the same program on any two vectors of secret values emit
  the same constraints over the same wires, and end with the same wire expressions.
* `C09_cex_negative_bound` — the cap precondition has two sides: a negative secret bound makes the
  oblivious `for` run all `max` rounds where `range(bound)` runs none.

Not covered by the Lean statement language (direct oracle only, `harness/props/c09_typed.py`):
tracked variables of boolean, fixed-point and list kind and value-level `if_then_else` on them.
-/
namespace Pysnark

/-- **values**: the traced program ends with the native program's variables -/
def C09_refines_full : Prop :=
  ∀ (s0 : St) (init : List (Nat × Int)) (inputs : List Int) (prog : BBlock) (bs : BSt) (s : St),
    s0.guard = none → s0.ignoreErrors = false →
    runBlock init inputs prog s0 = .ok (bs, s) →
    bs.stack = [] ∧
    match nativeRun init inputs prog with
    | .ok E => (∀ x, bs.bv.vals.valOf x = E.get? x) ∧ Live s
    | .error .uncapped => True
    | .error .name => False

theorem C09_refines : C09_refines_full := by
  intro s0 init inputs prog bs s hg hi h
  obtain ⟨hst, hpost⟩ := runBlock_ref hg hi h
  refine ⟨hst, ?_⟩
  unfold Post at hpost
  cases hN : nativeRun init inputs prog with
  | ok E => rw [hN] at hpost; exact ⟨hpost.2, hpost.1⟩
  | error e => rw [hN] at hpost; cases e <;> exact hpost

/-- the same for one statement inside any program: from a state whose effective guard is true and
whose tracked variables are the native variables, to such a state -/
theorem C09_refines_stmt (st : BStmt) (env : BEnv) (nc : NCtx) (bs bs' : BSt) (s s' : St) (E : NEnv)
    (hi : RefI env nc) (hl : Live s) (hr : RefV bs.bv.vals E) (h : execStmt env st bs s = .ok (bs', s')) :
    match nStmt nc st E with
    | .ok E' => Live s' ∧ RefV bs'.bv.vals E'
    | .error .uncapped => True
    | .error .name => False :=
  execStmt_ref st env nc bs bs' s s' E hi hl hr h

/-- **untouched variables**: same object (value, wire expression, identity) after the statement -/
theorem C09_untouched (st : BStmt) (x : Nat) (env : BEnv) (bs bs' : BSt) (s s' : St)
    (hx : st.assigns x = false) (h : execStmt env st bs s = .ok (bs', s')) :
    bs'.bv.vals.get? x = bs.bv.vals.get? x ∧ bs'.stack = bs.stack :=
  ⟨execStmt_untouched st x env bs bs' s s' hx h, (execStmt_struct st env bs bs' s s' h).1⟩

theorem C09_untouched_block (b : BBlock) (x : Nat) (env : BEnv) (bs bs' : BSt) (s s' : St)
    (hx : b.assigns x = false) (h : execBlock env b bs s = .ok (bs', s')) :
    bs'.bv.vals.get? x = bs.bv.vals.get? x :=
  execBlock_untouched b x env bs bs' s s' hx h

/-- **satisfaction and coherence** of every completed run, for every prime modulus -/
theorem C09_sat (p : Nat) (hp : p.Prime) (bl res : Nat) (init : List (Nat × Int)) (inputs : List Int)
    (prog : BBlock) (bs : BSt) (s : St) (h : runBlock init inputs prog (St.init p bl res) = .ok (bs, s)) :
    (∀ c ∈ s.cons, Sat s.p s.assign c) ∧ (∀ x o, bs.bv.vals.get? x = some o → Coh s o.v) := by
  obtain ⟨_, inv, good⟩ := runBlock_inv (Inv.init p bl res) ⟨p, hp, rfl⟩ h
  exact ⟨inv.sat, fun x o hx => (good.vals.get? hx).2⟩

/-- **obliviousness**: the constraint system and the final wire expressions do not depend on the
secret values (hence not on which branches were taken, nor on how often a loop ran) -/
theorem C09_oblivious (s1 s2 : St) (hs : s1.shape = s2.shape) (init1 init2 : List (Nat × Int))
    (hinit : Forall2 (fun a b => a.1 = b.1) init1 init2) (in1 in2 : List Int) (hin : in1.length = in2.length)
    (prog : BBlock) (bs1 bs2 : BSt) (t1 t2 : St)
    (h1 : runBlock init1 in1 prog s1 = .ok (bs1, t1)) (h2 : runBlock init2 in2 prog s2 = .ok (bs2, t2)) :
    t1.shape = t2.shape ∧ ValsRel bs1.bv.vals bs2.bv.vals := by
  obtain ⟨hr, ht⟩ := runBlock_obl hinit hin prog s1 s2 bs1 bs2 t1 t2 hs h1 h2
  exact ⟨ht, hr.bv.vals⟩

/-! ## the cap precondition has two sides -/

/-- `for l0 in _range(inp[0], max=2): x0 = x0 + 1` -/
def exNeg : BBlock := .cons (.forr 0 (.inp 0) 2 (.cons (.assign 0 (.add (.var 0) (.const 1))) .nil)) .nil

def runVals (init : List (Nat × Int)) (inputs : List Int) (prog : BBlock) (s0 : St) : Option (List (Nat × Int) × St) :=
  match runBlock init inputs prog s0 with
  | .ok (bs, s) => some (bs.bv.vals.map (fun kv => (kv.1, kv.2.v.value)), s)
  | .error _ => none

/-- with the secret bound −1 the oblivious loop runs both rounds (`x0` ends as 5) where
`for l0 in range(-1)` runs none (`x0` stays 3): `0 ≤ bound` is part of the precondition, and the
reference semantics reports the run as outside the domain (finding C09-negative-bound) -/
theorem C09_cex_negative_bound :
    (runVals [(0, 3)] [-1] exNeg (St.init 97 3 8)).map (·.1) = some [(0, 5)] ∧
    nativeRun [(0, 3)] [-1] exNeg = .error .uncapped ∧
    nIter ((-1 : Int).toNat) (fun _ e => nBlock { inputs := [-1] } (.cons (.assign 0 (.add (.var 0) (.const 1))) .nil) e) 0 [(0, 3)]
      = .ok [(0, 3)] := by
  decide +kernel

/-! ## non-vacuity -/

/-- `if in0 == 1: x0 = x0 + 2; x1 = in0  elif x0 < 1: x1 = x0 * 2  else: x1 = x0` (x1 first bound inside),
`for l0 in range(in1) [max 2]: x0 = x0 + l0`, `while x0 != 5 [cap 2]: x0 = x0 + 1; if x0 == 4: break`,
`x1 = if_then_else(in0 != 0, lambda: x0 + 1, lambda: 2)` -/
def exProg09 : BBlock :=
  .cons (.ifs ⟨.eq, .inp 0, .const 1⟩ (.cons (.assign 0 (.add (.var 0) (.const 2))) (.cons (.assign 1 (.inp 0)) .nil))
     (.elif ⟨.lt, .var 0, .const 1⟩ (.cons (.assign 1 (.mul (.var 0) (.const 2))) .nil)
       (.els (.cons (.assign 1 (.var 0)) .nil)))) <|
  .cons (.forr 0 (.inp 1) 2 (.cons (.assign 0 (.add (.var 0) (.loopvar 0))) .nil)) <|
  .cons (.whil ⟨.ne, .var 0, .const 5⟩ 2 (.cons (.assign 0 (.add (.var 0) (.const 1))) .nil) (some ⟨.eq, .var 0, .const 4⟩)) <|
  .cons (.ite 1 ⟨.ne, .inp 0, .const 0⟩ (.add (.var 0) (.const 1)) (.const 2)) .nil

def satAll (s : St) : Bool :=
  s.cons.all (fun c => (LC.eval s.assign c.1 * LC.eval s.assign c.2.1 - LC.eval s.assign c.2.2) % s.p == 0)

/-- `C09_refines`, `C09_sat`: the run completes (first arm taken, loop of 2 rounds, while stops by its test),
ends with the native values, and its 38 constraints hold -/
example : (match runVals [(0, 1)] [1, 2] exProg09 (St.init 97 3 8), nativeRun [(0, 1)] [1, 2] exProg09 with
    | some (vs, s), .ok E => vs == [(0, 5), (1, 6)] && E == [(0, 5), (1, 6)] && satAll s && decide (s.cons.length > 30)
    | _, _ => false) = true := by decide +kernel

/-- `C09_oblivious`, other branches: else arm, loop of 0 rounds, while stopped by the break; same constraints -/
example : (match runVals [(0, 1)] [1, 2] exProg09 (St.init 97 3 8), runVals [(0, 2)] [0, 0] exProg09 (St.init 97 3 8),
      nativeRun [(0, 2)] [0, 0] exProg09 with
    | some (_, s), some (vs', s'), .ok E' => vs' == [(0, 4), (1, 2)] && E' == [(0, 4), (1, 2)] && satAll s' &&
        decide (s.shape = s'.shape)
    | _, _, _ => false) = true := by decide +kernel

/-- `C09_untouched`: `x0` is not assigned by the `if`; it is the same object afterwards and the two
merges cost no constraint for it -/
example : (match runBlock [(0, 1), (1, 7)] [0] (.cons (.ifs ⟨.eq, .inp 0, .const 1⟩ (.cons (.assign 1 (.inp 0)) .nil) .endif) .nil)
      (St.init 97 3 8) with
    | .ok (bs, _) => bs.bv.vals.get? 0 == some ⟨⟨1, [(Wire.priv 0, 1)]⟩, 0⟩ && (bs.bv.vals.valOf 1 == some 7)
    | _ => false) = true := by decide +kernel

end Pysnark
