import PysnarkModel.Lemmas.Snarkjs
import PysnarkModel.Gen.Api
import PysnarkModel.Gen.Constants
/-!
# C10 — snarkjs files encode exactly the traced circuit and a valid witness

The encoder model (`Model/Snarkjs.lean`) follows `snarkjsbackend.prove()` statement by statement
and is compared byte-for-byte with the files the real `prove()` writes on every run; the decoder
(`Spec/Iden3.lean`) is written from the iden3 format description and *checks* magic, version,
section table, every declared size and count, and full consumption of the input.
Quantifier: all traces satisfying the explicit, decidable size predicate `Trace.WF` (counts below
2^32, section size below 2^64, prime below 2^256, keys referring to existing wires), and ALL integer
witness values and coefficients — negative, at or above the prime, wider than 256 bits, zero
coefficients, empty linear combinations.
-/
namespace Pysnark
open Pysnark.Snarkjs Pysnark.Iden3

/-- well-formed, decodes to exactly the recorded assignment under the wire numbering
"constant one, publics in creation order, privates in creation order", every element reduced -/
def C10_wtns_full : Prop := ∀ t : Trace, t.WF →
  decodeWtns (encodeWtns t) = some ⟨32, t.p.toNat, t.pubs.length + t.privs.length + 1, decodedWitness t⟩
theorem C10_wtns : C10_wtns_full := wtns_roundtrip

/-- well-formed (section table, declared sizes and counts equal to actual content), decodes to
exactly the traced constraints -/
def C10_r1cs_full : Prop := ∀ t : Trace, t.WF →
  decodeR1cs (encodeR1cs t) =
    some { fieldSize := 32, prime := t.p.toNat, nWires := t.pubs.length + t.privs.length + 1,
           nPubOut := t.pubs.length, nPubIn := 0, nPrvIn := 0, nLabels := 0,
           nConstraints := t.cons.length, constraints := t.cons.map (mapCon t),
           labels := List.replicate (t.pubs.length + t.privs.length + 1) 0 }
theorem C10_r1cs : C10_r1cs_full := r1cs_roundtrip

/-- the wire numbering is the bijection "one, publics in creation order, privates in creation order" -/
theorem C10_wire_numbering (npub npriv : Nat) :
    wireIndex npub 0 = 0 ∧
    (∀ i : Nat, 1 ≤ i → i ≤ npub → wireIndex npub (i : Int) = (i : Int)) ∧
    (∀ j : Nat, 1 ≤ j → j ≤ npriv → wireIndex npub (-(j : Int)) = (npub : Int) + (j : Int)) ∧
    (∀ k : Int, -(npriv : Int) ≤ k → k ≤ (npub : Int) → 0 ≤ wireIndex npub k ∧ wireIndex npub k ≤ (npub : Int) + (npriv : Int)) ∧
    (∀ k k' : Int, -(npriv : Int) ≤ k → k ≤ (npub : Int) → -(npriv : Int) ≤ k' → k' ≤ (npub : Int) →
      wireIndex npub k = wireIndex npub k' → k = k') ∧
    (∀ w : Int, 0 ≤ w → w ≤ (npub : Int) + (npriv : Int) → ∃ k : Int, -(npriv : Int) ≤ k ∧ k ≤ (npub : Int) ∧ wireIndex npub k = w) :=
  wireIndex_bijective npub npriv

/-- every field element in either file is canonical (below the prime) -/
theorem C10_canonical (t : Trace) (h : t.WF) (w : WtnsFile) (r : R1csFile)
    (hw : decodeWtns (encodeWtns t) = some w) (hr : decodeR1cs (encodeR1cs t) = some r) :
    (1 < t.p → ∀ v ∈ w.values, v < w.prime) ∧
    (∀ c ∈ r.constraints, ∀ l ∈ [c.1, c.2.1, c.2.2], ∀ ic ∈ l, ic.2 < r.prime) :=
  canonical t h w r hw hr

/-- the decoded witness satisfies the decoded constraints exactly when the recorded assignment
satisfies the recorded constraints (with C01: it does) -/
theorem C10_sat_transfer (t : Trace) (h : t.WF) (w : WtnsFile) (r : R1csFile)
    (hw : decodeWtns (encodeWtns t) = some w) (hr : decodeR1cs (encodeR1cs t) = some r) :
    r.prime = w.prime ∧ r.nWires = w.nWitness ∧
    ((∀ dc ∈ r.constraints, satDecoded r.prime w.values dc) ↔ (∀ c ∈ t.cons, satRecorded t c)) := by
  obtain ⟨a, b, _, d⟩ := sat_transfer_files t h w r hw hr
  exact ⟨a, b, d⟩

/-- the prime written into both headers is the backend's modulus as extracted from the source -/
theorem C10_prime_is_backend_modulus : (Gen.snarkjsModulus : Int) < 2 ^ 256 ∧ 1 < (Gen.snarkjsModulus : Int) := by decide

/-! non-vacuity: a concrete trace with a negative public value, a private value above the prime,
a zero coefficient and empty linear combinations meets `WF`, and both files decode -/
example : exTrace.WF ∧ (decodeWtns (encodeWtns exTrace)).isSome ∧ (decodeR1cs (encodeR1cs exTrace)).isSome := by
  decide +kernel


/-- **API surface pinned** (regenerated from the source on every run, `Gen/Api.lean`): the functions this property's model
transcribes are exactly the functions the code has; an added or removed function changes the generated list and this
obligation fails (the tie is then broken by construction and the check runs its extended search). -/
theorem C10_api_surface :
    Gen.api_snarkjsbackend = ["LinearCombination.__init__", "LinearCombination.__add__", "LinearCombination.__sub__", "LinearCombination.__mul__", "LinearCombination.__neg__", "privval", "pubval", "zero", "one", "fieldinverse", "get_modulus", "add_constraint", "prove"] := rfl

end Pysnark
