import PysnarkModel.Lemmas.Zkif
import PysnarkModel.Gen.Api
import PysnarkModel.Lemmas.Snarkjs
import PysnarkModel.Gen.Constants
/-!
# C11 — zkinterface files encode the traced circuit; the verifier file has no witness

The model (`Model/Zkif.lean`) is the MESSAGE TREE `prove()` hands to the FlatBuffers builder: which
`Root` messages in which order, with which `Variables` tables.  The FlatBuffers byte layout and the
size prefix are the library's and are not modelled; the runtime check compares the model with an
independent reader of the real files.
Quantifier: all traces with `0 < p` (and, for satisfaction, keys referring to existing wires); ALL
integer witness values and coefficients — negative, at or above the prime, zero, empty LCs.
-/
namespace Pysnark
open Pysnark.Snarkjs Pysnark.Zkif

/-- the header declares the instance variables `1..n` with the public values reduced modulo `p`,
the first free variable id `n+m+1` and the field maximum `p-1` -/
theorem C11_header (t : Trace) (h0 : 0 < t.p) :
    ∃ inst : Vars,
      writeCircuit t = .header inst (t.pubs.length + t.privs.length + 1) (t.p - 1).toNat ∧
      (((t.p - 1).toNat : Nat) : Int) = t.p - 1 ∧
      inst.ids = List.range' 1 t.pubs.length ∧
      inst.values.map Int.ofNat = t.pubs.map (· % t.p) ∧
      (∀ v ∈ inst.values, (v : Int) < t.p) ∧
      inst.elemBytes = BL t.p :=
  ⟨writeVarlist t.p t.pubs 1, rfl, by omega, writeVarlist_ids .., writeVarlist_values _ h0 .., by
    intro v hv
    simp only [writeVarlist, List.mem_map] at hv
    obtain ⟨x, _, rfl⟩ := hv
    rw [Int.toNat_of_nonneg (Int.emod_nonneg _ (by omega))]
    exact Int.emod_lt_of_pos _ h0, rfl⟩

/-- the witness message assigns exactly the ids `n+1..n+m`, with the private values reduced
modulo `p` -/
theorem C11_witness (t : Trace) (h0 : 0 < t.p) :
    ∃ a : Vars,
      writeWitness t = .witness a ∧
      a.ids = List.range' (t.pubs.length + 1) t.privs.length ∧
      a.values.map Int.ofNat = t.privs.map (· % t.p) ∧
      (∀ v ∈ a.values, (v : Int) < t.p) ∧
      a.elemBytes = BL t.p :=
  ⟨writeVarlist t.p t.privs (t.pubs.length + 1), rfl, writeVarlist_ids .., writeVarlist_values _ h0 .., by
    intro v hv
    simp only [writeVarlist, List.mem_map] at hv
    obtain ⟨x, _, rfl⟩ := hv
    rw [Int.toNat_of_nonneg (Int.emod_nonneg _ (by omega))]
    exact Int.emod_lt_of_pos _ h0, rfl⟩

/-- a written `Variables` table decodes to the recorded LC: same length and order, ids under
`k < 0 ↦ n - k`, `k ≥ 0 ↦ k`, coefficients reduced modulo `p` and canonical (`< p`) -/
def DecodesTo (t : Trace) (v : Vars) (l : KLC) : Prop :=
  v.ids.map Int.ofNat = l.map (fun kc => if kc.1 < 0 then (t.pubs.length : Int) - kc.1 else kc.1) ∧
  v.values.map Int.ofNat = l.map (fun kc => kc.2 % t.p) ∧
  (∀ c ∈ v.values, (c : Int) < t.p) ∧
  v.elemBytes = BL t.p

/-- the constraint message decodes to exactly the traced constraints, in order -/
theorem C11_constraints (t : Trace) (h0 : 0 < t.p) :
    ∃ cs : List (Vars × Vars × Vars),
      writeConstraints t = .constraints cs ∧
      List.Forall₂ (fun (d : Vars × Vars × Vars) (c : KLC × KLC × KLC) =>
        DecodesTo t d.1 c.1 ∧ DecodesTo t d.2.1 c.2.1 ∧ DecodesTo t d.2.2 c.2.2) cs t.cons := by
  refine ⟨t.cons.map (writeConstraint t), rfl, ?_⟩
  rw [List.forall₂_map_left_iff]
  apply List.forall₂_same.mpr
  intro c _
  have h (l : KLC) : DecodesTo t (writeLC t l) l :=
    ⟨writeLC_ids t l, writeLC_values t h0 l, writeLC_canonical t h0 l, rfl⟩
  exact ⟨h _, h _, h _⟩

/-- a reduced element (and the field maximum) fits the `BL` bytes it is written in; `BL` is the
least such byte count -/
theorem C11_elements_fit (p : Int) (h0 : 0 < p) :
    (∀ v : Int, (v % p).toNat < 256 ^ BL p) ∧ (p - 1).toNat < 256 ^ BL p ∧
    p.natAbs < 256 ^ BL p ∧ 256 ^ (BL p - 1) ≤ p.natAbs :=
  ⟨emod_fits p h0, max_fits p h0, le_pow_BL p, BL_minimal p h0⟩

/-- `circuit.zkif` contains no witness message; `computation.zkif` contains exactly one, second -/
theorem C11_circuit_no_witness (t : Trace) :
    (∀ m ∈ circuitFile t, m.isWitness = false) ∧
    (computationFile t).map Msg.isWitness = [false, true, false] ∧
    circuitFile t = (computationFile t).filter (fun m => !m.isWitness) := by
  refine ⟨?_, rfl, rfl⟩
  intro m hm
  simp only [circuitFile, List.mem_cons, List.not_mem_nil, or_false] at hm
  rcases hm with rfl | rfl <;> rfl

/-- for equal modulus, public values and constraints, `circuit.zkif` is identical whatever the
private VALUES are; it depends on their NUMBER only (through `free_variable_id`) -/
theorem C11_circuit_indep_priv (t t' : Trace) (hp : t.p = t'.p) (hpub : t.pubs = t'.pubs)
    (hcons : t.cons = t'.cons) (hlen : t.privs.length = t'.privs.length) :
    circuitFile t = circuitFile t' := by
  obtain ⟨p, pubs, privs, cons⟩ := t
  obtain ⟨p', pubs', privs', cons'⟩ := t'
  simp only at hp hpub hcons hlen
  subst hp hpub hcons
  simp only [circuitFile, writeCircuit, writeConstraints, hlen]
  rfl

/-- the free-variable id DOES reveal the number of private values -/
theorem C11_circuit_reveals_count (t t' : Trace) (h : circuitFile t = circuitFile t')
    (hpub : t.pubs.length = t'.pubs.length) : t.privs.length = t'.privs.length := by
  simp only [circuitFile, writeCircuit, List.cons.injEq, Msg.header.injEq] at h
  omega

/-- the assignment read from header + witness of `computation.zkif` (id `0 ↦ 1`) satisfies a
written constraint modulo `p` iff the recorded assignment satisfies the traced one -/
theorem C11_sat_transfer (t : Trace) (h0 : 0 < t.p) (c : KLC × KLC × KLC) (hc : conOK t c) :
    satVars t.p (fileAssign (computationFile t)) (writeConstraint t c) ↔ satRecorded t c :=
  sat_transfer t h0 c hc

/-- the same for the whole constraint message -/
theorem C11_sat_transfer_all (t : Trace) (h0 : 0 < t.p) (hc : ∀ c ∈ t.cons, conOK t c)
    (cs : List (Vars × Vars × Vars)) (hcs : writeConstraints t = .constraints cs) :
    (∀ dc ∈ cs, satVars t.p (fileAssign (computationFile t)) dc) ↔ (∀ c ∈ t.cons, satRecorded t c) := by
  simp only [writeConstraints, Msg.constraints.injEq] at hcs
  subst hcs
  simp only [List.mem_map, forall_exists_index, and_imp, forall_apply_eq_imp_iff₂]
  constructor
  · intro hs c hcm; exact (sat_transfer t h0 c (hc c hcm)).1 (hs c hcm)
  · intro hs c hcm; exact (sat_transfer t h0 c (hc c hcm)).2 (hs c hcm)

/-- the key predicate of the snarkjs writer (`Trace.WF`) implies the one used here -/
theorem C11_WF_conOK (t : Trace) (h : t.WF) : 0 < t.p ∧ ∀ c ∈ t.cons, conOK t c :=
  ⟨h.1, fun c hc => let ⟨a, b, d⟩ := h.2.2.2.2.2 c hc; ⟨a.2, b.2, d.2⟩⟩

/-! ## the three supported fields: 32-byte elements, every reduced element fits -/

theorem C11_BL_zkinterface : BL (Gen.zkifModulus : Int) = 32 := by decide
theorem C11_BL_bellman : BL (Gen.bellmanModulus : Int) = 32 := by decide
theorem C11_BL_bulletproofs : BL (Gen.bulletproofsModulus : Int) = 32 := by decide

theorem C11_fit_zkinterface (v : Int) : (v % (Gen.zkifModulus : Int)).toNat < 256 ^ 32 :=
  C11_BL_zkinterface ▸ (C11_elements_fit _ (by decide)).1 v
theorem C11_fit_bellman (v : Int) : (v % (Gen.bellmanModulus : Int)).toNat < 256 ^ 32 :=
  C11_BL_bellman ▸ (C11_elements_fit _ (by decide)).1 v
theorem C11_fit_bulletproofs (v : Int) : (v % (Gen.bulletproofsModulus : Int)).toNat < 256 ^ 32 :=
  C11_BL_bulletproofs ▸ (C11_elements_fit _ (by decide)).1 v

/-- for each supported field: satisfaction transfers (instances of `C11_sat_transfer_all`) -/
theorem C11_sat_supported (t : Trace)
    (hp : t.p = Gen.zkifModulus ∨ t.p = Gen.bellmanModulus ∨ t.p = Gen.bulletproofsModulus)
    (hc : ∀ c ∈ t.cons, conOK t c) :
    (∀ dc ∈ t.cons.map (writeConstraint t), satVars t.p (fileAssign (computationFile t)) dc) ↔
      (∀ c ∈ t.cons, satRecorded t c) := by
  have h0 : 0 < t.p := by
    rcases hp with h | h | h <;> rw [h] <;> decide
  exact C11_sat_transfer_all t h0 hc _ rfl

/-! ## non-vacuity: the snarkjs example trace (negative public value, private value above the
prime, zero coefficient, negative and oversized coefficients, empty LCs) -/

example : 0 < exTrace.p ∧ ∀ c ∈ exTrace.cons, conOK exTrace c := by decide +kernel

example : computationFile exTrace =
    [.header ⟨[1, 2], [5, (bn128 - 7).toNat], 32⟩ 5 (bn128 - 1).toNat,
     .witness ⟨[3, 4], [3, 11], 32⟩,
     .constraints
       [(⟨[3], [1], 32⟩, ⟨[1, 0], [2, 0], 32⟩, ⟨[4, 0], [1, (bn128 - 1).toNat], 32⟩),
        (⟨[], [], 32⟩, ⟨[2, 4], [4, (bn128 - 3).toNat], 32⟩, ⟨[], [], 32⟩)]] := by decide +kernel

/-- the first recorded constraint `3 * 10 = 10` is not satisfied, the second `0 * _ = 0` is; the
assignment read from the file agrees on both -/
example :
    ¬ satVars exTrace.p (fileAssign (computationFile exTrace)) (writeConstraint exTrace exTrace.cons[0]) ∧
    satVars exTrace.p (fileAssign (computationFile exTrace)) (writeConstraint exTrace exTrace.cons[1]) := by
  decide +kernel

/-- different private values, same circuit file; different number of private values, different -/
example : circuitFile exTrace = circuitFile { exTrace with privs := [1000, -5] } ∧
    circuitFile exTrace ≠ circuitFile { exTrace with privs := [1000] } := by decide +kernel


/-- **API surface pinned** (regenerated from the source on every run, `Gen/Api.lean`): the functions this property's model
transcribes are exactly the functions the code has; an added or removed function changes the generated list and this
obligation fails (the tie is then broken by construction and the check runs its extended search). -/
theorem C11_api_surface :
    Gen.api_zkif_backend = ["set_modulus", "LinearCombination.__init__", "LinearCombination.__add__", "LinearCombination.__sub__", "LinearCombination.__mul__", "LinearCombination.__neg__", "privval", "pubval", "zero", "one", "fieldinverse", "get_modulus", "add_constraint", "write_varlist", "prove", "write_circuit", "write_witness", "write_constraints"] := rfl

end Pysnark
