import PysnarkModel.Lemmas.QaptoolsScope
import PysnarkModel.Gen.Api
import PysnarkModel.Lemmas.QaptoolsGlue
import PysnarkModel.Lemmas.QaptoolsFile
import PysnarkModel.Lemmas.QaptoolsText
import PysnarkModel.Gen.Constants
/-!
# C12 — qaptools equation/wire/I-O files are consistent and split faithfully

The model (`Model/Qaptools.lean`) follows `pysnark/qaptools/backend.py` and `qapsplit.py` function by
function and is compared line by line with every file the real backend writes, including the content
of `pysnark_eqs` that `prove()` actually reads back.  A history is a list of backend-level events
(`privval`, `pubval`, `add_constraint`, a `@subqap` call entered with its flattened arguments, its
body returned with its flattened results); the copies, the `ensure_single` wires and equations, the
`[function]`/`[ioblock]`/`[glue]` lines, the counters and the flush pointer are produced by the model.
The meaning of an equation line is `Spec/QapEq.lean` (independent of the emitters).
Quantifier: ALL histories (any nesting and repetition of calls, malformed ones included), ALL integer
witness values, coefficients, random values, any modulus, any digest function `H`.
`Cfg.pinned` is the code as it is; theorems for arbitrary `cfg` also cover the code before the two repairs
(flush in `prove()`, coefficient test in `ensure_single`).
-/
namespace Pysnark
open Pysnark.Qaptools Pysnark.QapEq

/-- the code as it is, with the modulus extracted from `qaptools/options.py` -/
def C12cfg : Cfg := Cfg.pinned Gen.qaptoolsModulus

/-! ## 1. every equation written is satisfied by the wire and I/O files -/

/-- Clause 1 at full strength.  The files are judged as they are (`E.ok`: names pairwise distinct, none
called `one` — decidable, checked on the real files).  Hypotheses: the traced constraints hold on the
values of the files (C01) and the arguments/results that cross a call boundary are coherent (C04). -/
def C12_eqs_sat_full : Prop :=
  ∀ (cfg : Cfg) (d1 d2 d3 : Int) (ops : List Op),
    let s := run cfg d1 d2 d3 ops
    let E : Env := ⟨cfg.p, s.wires, s.ios⟩
    E.ok → (∀ c ∈ consOf ops, ConHold E c) → (∀ x ∈ lcsOf ops, Coherent E x) →
    ∀ l ∈ s.eqs, holds cfg.p (asgOf s.wires s.ios) "" l = true

theorem C12_eqs_sat : C12_eqs_sat_full := by
  intro cfg d1 d2 d3 ops s E hok hc hl l hmem
  let K : Hyp := ⟨cfg.p, consOf ops, lcsOf ops⟩
  obtain ⟨st, _⟩ := run_spec cfg K rfl d1 d2 d3 ops (opOK_of_mem cfg.p ops)
  exact eqs_good_of_step st l hmem E rfl hok ⟨fun e he => he, fun e he => he⟩ ⟨hc, hl⟩

/-! ## 2. every public value is tied to its wire -/

/-- one I/O line per `PubVal`, in order, each tied to a wire of equal value by an equality that is in
the equation file when `prove()` reads it back (both with and without the flush in `prove()`) -/
def C12_pub_linked_full : Prop :=
  ∀ (cfg : Cfg) (d1 d2 d3 : Int) (ops : List Op),
    let s := run cfg d1 d2 d3 ops
    s.ios.map Prod.snd = pubsOf ops ∧
    ∀ e ∈ s.ios, ∃ w, (w, e.2) ∈ s.wires ∧ pubLine w e.1 ∈ onDisk cfg s

theorem C12_pub_linked : C12_pub_linked_full := by
  intro cfg d1 d2 d3 ops s
  let K : Hyp := ⟨cfg.p, consOf ops, lcsOf ops⟩
  obtain ⟨_, _, h1, h2, _⟩ := run_spec cfg K rfl d1 d2 d3 ops (opOK_of_mem cfg.p ops)
  refine ⟨h1, ?_⟩
  intro e he
  obtain ⟨w, hw, hl⟩ := h2 e he
  refine ⟨w, hw, ?_⟩
  unfold onDisk
  split
  · exact List.mem_of_mem_take hl
  · exact hl

/-! ## 3. the split -/

/-- Context faithfulness, for every content `D` of the equation file: if `qapsplit` goes through, every
equation of the file has all its wires in ONE context and is filed, stripped, under exactly that
context; per context the filed equations are exactly the traced ones, in order, nothing else. -/
def C12_split_context_full : Prop :=
  ∀ {Dg : Type} [DecidableEq Dg] (H : List Line → Dg) (D : List Line) (out : SplitOut Dg),
    qapsplit H D = .ok out →
    (∀ l ∈ D, isEquation (strip l) = true → strip l ≠ [] →
      oneCtx (strip l) ∧ stripCtx (strip l) ∈ eqsGet out.acc.eqs (lineKey (strip l))) ∧
    (∀ k, eqsGet out.acc.eqs k = tracedEqs (D.map strip) k) ∧
    (∀ c, blocksGet out.acc.blocks c = tracedBlocks (D.map strip) c)

theorem C12_split_context : C12_split_context_full := by
  intro Dg _ H D out h
  obtain ⟨h1, _⟩ := splitLines_of_qapsplit H D out h
  obtain ⟨e1, e2, e3⟩ := splitLines_spec D Acc.empty out.acc h1
  have e1' : ∀ k, eqsGet out.acc.eqs k = tracedEqs (D.map strip) k := by
    intro k; rw [e1 k]; simp [Acc.empty, eqsGet]
  refine ⟨?_, e1', ?_⟩
  · intro l hl hq hne
    refine ⟨e3 l hl hq hne, ?_⟩
    rw [e1']
    unfold tracedEqs
    rw [List.mem_filterMap]
    refine ⟨strip l, List.mem_map.2 ⟨l, hl, rfl⟩, ?_⟩
    have : (strip l).isEmpty = false := by cases hs : strip l <;> simp_all
    simp [hq, this]
  · intro c; rw [e2 c]; simp [Acc.empty, blocksGet]

/-- what is in the per-function files: each file is the normalised (sorted) equation set of one call
of that function; the normalised set of a call is a permutation of its blocks and its filed equations;
every call of every function has the digest recorded for the function. -/
def C12_split_files_full : Prop :=
  ∀ {Dg : Type} [DecidableEq Dg] (H : List Line → Dg) (D : List Line) (out : SplitOut Dg),
    qapsplit H D = .ok out →
    (∀ fq ∈ out.files, ∃ x, (x, fq.1) ∈ out.acc.fns ∧ fq.2 = getqap out.acc x) ∧
    (∀ x, (getqap out.acc x).Perm ((blocksGet out.acc.blocks x).map blockStr ++ eqsGet out.acc.eqs (some x))) ∧
    (∀ xf ∈ out.acc.fns, sigGet out.sigs xf.2 = some (H (getqap out.acc xf.1)))

theorem C12_split_files : C12_split_files_full := by
  intro Dg _ H D out h
  obtain ⟨_, h2⟩ := splitLines_of_qapsplit H D out h
  obtain ⟨_, f2, new, f3, f4⟩ := finish_spec H out.acc out.acc.fns [] [] out.files out.sigs h2
  refine ⟨?_, getqap_perm out.acc, f2⟩
  intro fq hfq
  rw [f3] at hfq
  simp only [List.nil_append] at hfq
  obtain ⟨_, x, hx, he⟩ := f4 fq hfq
  exact ⟨x, hx, he⟩

/-- Completeness of the split over the ON-DISK content at proving time: per context the filed
equations are exactly the equations `prove()` finds in the file (for either setting of the flush). -/
theorem C12_split_complete_partial {Dg : Type} [DecidableEq Dg] (H : List Line → Dg) (cfg : Cfg)
    (d1 d2 d3 : Int) (ops : List Op) (out : SplitOut Dg)
    (h : prove H cfg (run cfg d1 d2 d3 ops) = .ok out) :
    ∀ k, eqsGet out.acc.eqs k = tracedEqs ((onDisk cfg (run cfg d1 d2 d3 ops)).map strip) k :=
  (C12_split_context H _ out h).2.1

/-- Completeness at full strength (every TRACED equation, per context) for the code with the flush in
`prove()` -/
theorem C12_split_complete_of_flush {Dg : Type} [DecidableEq Dg] (H : List Line → Dg) (cfg : Cfg)
    (hf : cfg.flushAtProve = true) (d1 d2 d3 : Int) (ops : List Op) (out : SplitOut Dg)
    (h : prove H cfg (run cfg d1 d2 d3 ops) = .ok out) :
    ∀ k, eqsGet out.acc.eqs k = tracedEqs ((run cfg d1 d2 d3 ops).eqs.map strip) k := by
  have := C12_split_complete_partial H cfg d1 d2 d3 ops out h
  simpa [onDisk, hf] using this

/-- Clause "the per-function files contain every traced equation" at full strength, for the code as it is -/
def C12_split_complete_full : Prop :=
  ∀ (d1 d2 d3 : Int) (ops : List Op) (out : SplitOut (List Line)),
    prove id C12cfg (run C12cfg d1 d2 d3 ops) = .ok out →
    ∀ k, eqsGet out.acc.eqs k = tracedEqs ((run C12cfg d1 d2 d3 ops).eqs.map strip) k

theorem C12_split_complete : C12_split_complete_full := by
  intro d1 d2 d3 ops out h
  exact C12_split_complete_of_flush id C12cfg rfl d1 d2 d3 ops out h

/-! ## 4. same function, same equation set and signature, or the inconsistency is reported -/

/-- all calls of one named function have the digest recorded as the function's signature; a failure of
the per-function loop is the report `Inconsistent functions` -/
def C12_same_function_full : Prop :=
  ∀ {Dg : Type} [DecidableEq Dg] (H : List Line → Dg) (D : List Line),
    (∀ out, qapsplit H D = .ok out →
      ∀ x y f, (x, f) ∈ out.acc.fns → (y, f) ∈ out.acc.fns →
        H (getqap out.acc x) = H (getqap out.acc y) ∧ sigGet out.sigs f = some (H (getqap out.acc x))) ∧
    (∀ a e, splitLines Acc.empty D = .ok a → qapsplit H D = .error e →
      (∃ f, e = .inconsistentFunctions f) ∨ e = .emptyMax)

theorem C12_same_function : C12_same_function_full := by
  intro Dg _ H D
  constructor
  · intro out h x y f hx hy
    obtain ⟨_, _, h3⟩ := C12_split_files H D out h
    have a := h3 (x, f) hx
    have b := h3 (y, f) hy
    simp only at a b
    rw [a] at b
    exact ⟨by simpa using b, a⟩
  · intro a e h1 h2
    unfold qapsplit at h2
    rw [h1] at h2
    simp only at h2
    cases hf : finish H a a.fns [] [] with
    | error e' =>
      rw [hf] at h2
      simp only [Except.error.injEq] at h2
      subst h2
      exact Or.inl (finish_error H a a.fns [] [] e' hf)
    | ok fs =>
      rw [hf] at h2
      simp only at h2
      split at h2
      · simp only [Except.error.injEq] at h2; exact Or.inr h2.symm
      · cases h2

/-- "a different signature whenever the equations differ" at full strength: for every digest function -/
def C12_digest_full : Prop :=
  ∀ {Dg : Type} [DecidableEq Dg] (H : List Line → Dg) (D : List Line) (out : SplitOut Dg),
    qapsplit H D = .ok out →
    ∀ x y f g, (x, f) ∈ out.acc.fns → (y, g) ∈ out.acc.fns → getqap out.acc x ≠ getqap out.acc y →
      sigGet out.sigs f ≠ sigGet out.sigs g

/-- the clause relative to injectivity of the digest on the normalised sets of this run: different
equation sets have different signatures, and calls of one name have IDENTICAL normalised sets, i.e.
the same blocks and equations up to order -/
theorem C12_digest_partial {Dg : Type} [DecidableEq Dg] (H : List Line → Dg) (D : List Line) (out : SplitOut Dg)
    (h : qapsplit H D = .ok out)
    (hinj : ∀ x y, x ∈ out.acc.fns.map Prod.fst → y ∈ out.acc.fns.map Prod.fst →
      H (getqap out.acc x) = H (getqap out.acc y) → getqap out.acc x = getqap out.acc y) :
    (∀ x y f g, (x, f) ∈ out.acc.fns → (y, g) ∈ out.acc.fns → getqap out.acc x ≠ getqap out.acc y →
      sigGet out.sigs f ≠ sigGet out.sigs g) ∧
    (∀ x y f, (x, f) ∈ out.acc.fns → (y, f) ∈ out.acc.fns →
      ((blocksGet out.acc.blocks x).map blockStr ++ eqsGet out.acc.eqs (some x)).Perm
        ((blocksGet out.acc.blocks y).map blockStr ++ eqsGet out.acc.eqs (some y))) ∧
    (∀ x f, (x, f) ∈ out.acc.fns → (f, getqap out.acc x) ∈ out.files) := by
  obtain ⟨k1, k2, k3⟩ := C12_split_files H D out h
  have same : ∀ x y f, (x, f) ∈ out.acc.fns → (y, f) ∈ out.acc.fns → getqap out.acc x = getqap out.acc y := by
    intro x y f hx hy
    exact hinj x y (List.mem_map.2 ⟨_, hx, rfl⟩) (List.mem_map.2 ⟨_, hy, rfl⟩)
      ((C12_same_function H D).1 out h x y f hx hy).1
  refine ⟨?_, ?_, ?_⟩
  · intro x y f g hx hy hne he
    have a := k3 (x, f) hx
    have b := k3 (y, g) hy
    simp only at a b
    rw [a, b] at he
    exact hne (hinj x y (List.mem_map.2 ⟨_, hx, rfl⟩) (List.mem_map.2 ⟨_, hy, rfl⟩) (by simpa using he))
  · intro x y f hx hy
    have e := same x y f hx hy
    exact (k2 x).symm.trans (e ▸ k2 y)
  · intro x f hx
    obtain ⟨_, h2⟩ := splitLines_of_qapsplit H D out h
    obtain ⟨_, f2, new, f3, f4⟩ := finish_spec H out.acc out.acc.fns [] [] out.files out.sigs h2
    -- the function has a signature, hence a file; the file is the set of one of its calls
    have hs := f2 (x, f) hx
    simp only at hs
    have : ∃ q, (f, q) ∈ out.files := by
      by_contra hno
      -- no file for f: then sigs has no entry for f (entries and files are created together)
      have : sigGet out.sigs f = none := by
        have key : ∀ (r : List (String × String)) (files : List (String × List Line)) (sigs : List (String × Dg))
            (files' : List (String × List Line)) (sigs' : List (String × Dg)),
            finish H out.acc r files sigs = .ok (files', sigs') →
            (∀ g, sigGet sigs g ≠ none → ∃ q, (g, q) ∈ files) →
            ∀ g, sigGet sigs' g ≠ none → ∃ q, (g, q) ∈ files' := by
          intro r
          induction r with
          | nil =>
            intro files sigs files' sigs' hfin hinv
            simp only [finish, Except.ok.injEq, Prod.mk.injEq] at hfin
            obtain ⟨rfl, rfl⟩ := hfin; exact hinv
          | cons xf r ih =>
            obtain ⟨x', f'⟩ := xf
            intro files sigs files' sigs' hfin hinv
            simp only [finish] at hfin
            cases hsg : sigGet sigs f' with
            | some hv =>
              rw [hsg] at hfin
              simp only at hfin
              split at hfin
              · cases hfin
              · exact ih _ _ _ _ hfin hinv
            | none =>
              rw [hsg] at hfin
              simp only at hfin
              apply ih _ _ _ _ hfin
              intro g hg
              rw [sigGet_append] at hg
              cases hsg' : sigGet sigs g with
              | some v =>
                obtain ⟨q, hq⟩ := hinv g (by rw [hsg']; simp)
                exact ⟨q, by simp [hq]⟩
              | none =>
                rw [hsg'] at hg
                by_cases hfg : f' = g
                · subst hfg; exact ⟨getqap out.acc x', by simp⟩
                · simp [hfg] at hg
        by_contra hne
        exact hno (key _ _ _ _ _ h2 (by intro g hg; simp [sigGet] at hg) f hne)
      rw [this] at hs; cases hs
    obtain ⟨q, hq⟩ := this
    obtain ⟨y, hy, he⟩ := k1 (f, q) hq
    simp only at hy he
    rw [same x y f hx hy, ← he]; exact hq

/-- the equation file of two different one-equation functions `f` and `g`, each called once -/
def cexDigestFile : List Line :=
  [functionLine "f" "main_1_f", conLine [(1, ("main_1_f", "1"))] [(1, ("main_1_f", "1"))] [(1, ("main_1_f", "2"))],
   functionLine "g" "main_2_g", conLine [(1, ("main_2_g", "1"))] [(2, ("main_2_g", "1"))] [(1, ("main_2_g", "2"))]]

/-- with a digest that is not injective (here: constant) different equation sets get equal signatures -/
theorem C12_cex_digest_collision :
    (match qapsplit (fun _ => ()) cexDigestFile with
     | .ok out => decide (getqap out.acc "main_1_f" ≠ getqap out.acc "main_2_g") &&
                  decide (sigGet out.sigs "f" = sigGet out.sigs "g") &&
                  decide (("main_1_f", "f") ∈ out.acc.fns ∧ ("main_2_g", "g") ∈ out.acc.fns)
     | .error _ => false) = true := by decide +kernel

theorem C12_digest_full_false : ¬ C12_digest_full := by
  intro h
  have c := C12_cex_digest_collision
  cases hq : qapsplit (fun _ => ()) cexDigestFile with
  | error e => rw [hq] at c; cases c
  | ok out =>
    rw [hq] at c
    simp only [Bool.and_eq_true, decide_eq_true_eq] at c
    exact h (fun _ => ()) cexDigestFile out hq _ _ _ _ c.2.1 c.2.2 c.1.1 c.1.2

/-! ## 5. the split goes through when contexts are respected -/

/-- Clause "the per-function files are produced" at full strength, for the code as it is: for every
history, reading the equation file back does not fail on contexts -/
def C12_split_ok_full : Prop :=
  ∀ (d1 d2 d3 : Int) (ops : List Op), ∃ a, splitLines Acc.empty (onDisk C12cfg (run C12cfg d1 d2 d3 ops)) = .ok a

/-- For histories that respect the contexts (`scopedFrom`: every traced equation and every `LinComb`
argument/result mentions only wires of the context it occurs in, and every call has at least one
`LinComb` argument or result) reading the file back never fails, so `qapsplit` either succeeds, or
reports `Inconsistent functions`, or (nothing on disk yet) fails in `max()`. -/
theorem C12_split_ok_partial {Dg : Type} [DecidableEq Dg] (H : List Line → Dg) (cfg : Cfg)
    (d1 d2 d3 : Int) (ops : List Op) (hsc : scopedFrom cfg (St.init d1 d2 d3) ops = true) :
    (∃ a, splitLines Acc.empty (onDisk cfg (run cfg d1 d2 d3 ops)) = .ok a) ∧
    ((∃ out, prove H cfg (run cfg d1 d2 d3 ops) = .ok out) ∨
     (∃ f, prove H cfg (run cfg d1 d2 d3 ops) = .error (.inconsistentFunctions f)) ∨
     prove H cfg (run cfg d1 d2 d3 ops) = .error .emptyMax) := by
  have inv := scope_run cfg ops (St.init d1 d2 d3) (scope_init d1 d2 d3) hsc
  have hl : ∀ l ∈ onDisk cfg (run cfg d1 d2 d3 ops), LineOK l := by
    intro l hl
    apply inv.lines
    unfold onDisk at hl
    split at hl
    · exact hl
    · exact List.mem_of_mem_take hl
  obtain ⟨a, ha⟩ := splitLines_ok _ hl Acc.empty
  refine ⟨⟨a, ha⟩, ?_⟩
  cases hp : prove H cfg (run cfg d1 d2 d3 ops) with
  | ok out => exact Or.inl ⟨out, rfl⟩
  | error e =>
    rcases (C12_same_function H _).2 a e ha hp with ⟨f, rfl⟩ | rfl
    · exact Or.inr (Or.inl ⟨f, rfl⟩)
    · exact Or.inr (Or.inr rfl)

/-- `@subqap("iseq") def f(v): return v == 3` called on `x = PrivVal(3)`: the zero test inside the body
uses `LinComb.ONE_SAFE`, which was created at import time in context `main` (`globalOne`) -/
def cexGlobalOne : List Op :=
  [.priv 3,
   .enter "iseq" [⟨.lincomb, ⟨3, [(1, ("main", "1"))]⟩⟩] 0 0 0,
   .priv 1, .priv 1,
   .con [(1, ("main_1_iseq", "1")), (-3, ("main_1_iseq", "onex"))] [(1, ("main_1_iseq", "3"))]
        (Sig.sub 97 globalOne [(1, ("main_1_iseq", "2"))]),
   .leave [⟨.lincomb, ⟨1, [(1, ("main_1_iseq", "2"))]⟩⟩] 0 0 0]

/-- Finding (b): a constant inside a `@subqap` body that goes through `LinComb.ONE` mixes contexts;
`prove()` raises `ValueError("Inconsistent contexts")` and no per-function file is written. -/
theorem C12_cex_global_one :
    (match prove id C12cfg (run C12cfg 0 0 0 cexGlobalOne) with
     | .error e => decide (e = .inconsistentContexts)
     | .ok _ => false) = true ∧ scopedFrom C12cfg (St.init 0 0 0) cexGlobalOne = false := by
  constructor <;> decide +kernel

/-- `@subqap("nb") def f(b, v): return (b, v*v)` called with a `LinCombBool` `b` and a `LinComb` `v`;
in the body `b & (…)` multiplies the caller's wire of `b` with a wire of the callee -/
def cexBool : List Op :=
  [.priv 3, .priv 1,
   .enter "nb" [⟨.bool, ⟨1, [(1, ("main", "2"))]⟩⟩, ⟨.lincomb, ⟨3, [(1, ("main", "1"))]⟩⟩] 0 0 0,
   .priv 9, .con [(1, ("main_2_nb", "1"))] [(1, ("main_2_nb", "1"))] [(1, ("main_2_nb", "2"))],
   .priv 9, .con [(1, ("main", "2"))] [(1, ("main_2_nb", "2"))] [(1, ("main_2_nb", "3"))],
   .leave [⟨.bool, ⟨1, [(1, ("main", "2"))]⟩⟩, ⟨.lincomb, ⟨9, [(1, ("main_2_nb", "3"))]⟩⟩] 0 0 0]

/-- Finding (d), first half: only `LinComb` instances are copied into the callee; an equation of the
body that uses a `LinCombBool` argument mixes contexts and `prove()` fails. -/
theorem C12_cex_uncopied_bool_split :
    (match prove id C12cfg (run C12cfg 0 0 0 cexBool) with
     | .error e => decide (e = .inconsistentContexts)
     | .ok _ => false) = true ∧ scopedFrom C12cfg (St.init 0 0 0) cexBool = false := by
  constructor <;> decide +kernel

/-- `@subqap("noarg") def f(k): PrivVal(k); return k` called with the integer 4 -/
def cexEmpty : List Op := [.priv 3, .enter "noarg" [] 0 0 0, .priv 4, .leave [] 0 0 0]

/-- Finding (e): a call without any `LinComb` argument or result writes `[ioblock]` lines without
wires; `qapsplit` fails with `TypeError` on them. -/
theorem C12_cex_empty_block :
    (match prove id C12cfg (run C12cfg 0 0 0 cexEmpty) with
     | .error e => decide (e = .emptyBlock)
     | .ok _ => false) = true ∧ scopedFrom C12cfg (St.init 0 0 0) cexEmpty = false := by
  constructor <;> decide +kernel

theorem C12_split_ok_full_false : ¬ C12_split_ok_full := by
  intro h
  obtain ⟨a, ha⟩ := h 0 0 0 cexGlobalOne
  have c := C12_cex_global_one.1
  unfold prove qapsplit at c
  rw [ha] at c
  simp only at c
  split at c
  · rename_i e he
    split at he
    · rename_i e' hf
      simp only [Except.error.injEq] at he
      obtain ⟨f, hf'⟩ := finish_error id a a.fns [] [] e' hf
      rw [← he, hf'] at c
      simp at c
    · split at he
      · simp only [Except.error.injEq] at he
        rw [← he] at c; simp at c
      · cases he
  · cases c

/-! ## 6. every call is tied to its caller by paired blocks -/

/-- what a call pushes: a frame that remembers the caller's context and pairs every `LinComb`
argument, in order, with a fresh copy in the callee -/
theorem C12_call_enter (cfg : Cfg) (s : St) (fn : String) (args : List Arg) (d1 d2 d3 : Int) :
    ∃ f, (step cfg s (.enter fn args d1 d2 d3)).stack = f :: s.stack ∧ f.old = s.ctx ∧
      f.new = (step cfg s (.enter fn args d1 d2 d3)).ctx ∧
      f.argret.map Prod.fst = lcsOfArgs args ∧
      functionLine fn f.new ∈ (step cfg s (.enter fn args d1 d2 d3)).eqs := by
  let K : Hyp := ⟨cfg.p, [], []⟩
  obtain ⟨g1, _, g3, g4⟩ := copyArgs_spec K args (enterfn fn none d1 d2 d3 s)
  refine ⟨⟨s.ctx, (enterfn fn none d1 d2 d3 s).ctx, (copyArgs args (enterfn fn none d1 d2 d3 s)).1⟩, ?_, rfl, ?_, g1, ?_⟩
  · show _ :: (copyArgs args (enterfn fn none d1 d2 d3 s)).2.stack = _
    rw [g4.2.1]; simp
  · show _ = (copyArgs args (enterfn fn none d1 d2 d3 s)).2.ctx
    rw [g4.1]
  · show _ ∈ (copyArgs args (enterfn fn none d1 d2 d3 s)).2.eqs
    apply g3.eqs_sub
    simp

/-- Clause 4, structure, at full strength for `LinComb` leaves: when the body of the call on top of the
stack returns (any state reached by any history), the equation file gets a `[glue]` line and the two
`[ioblock]` lines it names, one in the caller's and one in the callee's context; all three are on disk
when `prove()` reads the file (whatever follows); both blocks list one wire per `LinComb` argument and
per `LinComb` result, in that order, and share the value of `rnd1`. -/
def C12_glue_full : Prop :=
  ∀ (cfg : Cfg) (d1 d2 d3 : Int) (pre post : List Op) (rets : List Arg) (rndv r2a r2b : Int)
    (f : Frame) (rest : List Frame),
    (run cfg d1 d2 d3 pre).stack = f :: rest →
    let sf := run cfg d1 d2 d3 (pre ++ .leave rets rndv r2a r2b :: post)
    ∃ bn1 bn2 vs1 vs2,
      blockLine f.old bn1 vs1 ∈ onDisk cfg sf ∧ blockLine f.new bn2 vs2 ∈ onDisk cfg sf ∧
      glueLine f.old bn1 f.new bn2 ∈ onDisk cfg sf ∧
      vs1.length = f.argret.length + (lcsOfArgs rets).length ∧ vs2.length = vs1.length ∧
      ((f.old, "rnd1_" ++ bn1), rndv) ∈ sf.wires ∧ ((f.new, "rnd1_" ++ bn2), rndv) ∈ sf.wires

theorem C12_glue : C12_glue_full := by
  intro cfg d1 d2 d3 pre post rets rndv r2a r2b f rest hst sf
  obtain ⟨bn1, bn2, vs1, vs2, g, st, _, _, _, c1, _⟩ := glue_core cfg d1 d2 d3 pre post rets rndv r2a r2b f rest hst
  refine ⟨bn1, bn2, vs1, vs2, mem_onDisk_of_flushed cfg _ _ st g.flushed _ g.line1,
    mem_onDisk_of_flushed cfg _ _ st g.flushed _ g.line2, mem_onDisk_of_flushed cfg _ _ st g.flushed _ g.glue,
    ?_, ?_, st.wires_sub _ g.rnd1, st.wires_sub _ g.rnd2⟩
  · have := g.stands1.length_eq
    rw [← this]; simp [← c1]
  · have a := g.stands1.length_eq
    have b := g.stands2.length_eq
    rw [← a, ← b]; simp

/-- Clause 4, values: the wires the two blocks list carry pairwise equal values modulo `p` in the final
wire file.  Hypotheses: the final files have proper names, the `LinComb`s crossing call boundaries are
coherent (C04), and — the explicit exclusion — no one-term argument or result carries a coefficient
other than one (`unitSingles`). -/
theorem C12_glue_equal_partial (cfg : Cfg) (d1 d2 d3 : Int) (pre post : List Op) (rets : List Arg)
    (rndv r2a r2b : Int) (f : Frame) (rest : List Frame)
    (hst : (run cfg d1 d2 d3 pre).stack = f :: rest) :
    let ops := pre ++ .leave rets rndv r2a r2b :: post
    let sf := run cfg d1 d2 d3 ops
    let E : Env := ⟨cfg.p, sf.wires, sf.ios⟩
    E.ok → (∀ x ∈ lcsOf ops, Coherent E x) → unitSingles (lcsOf ops) = true →
    ∃ bn1 bn2 vs1 vs2,
      blockLine f.old bn1 vs1 ∈ onDisk cfg sf ∧ blockLine f.new bn2 vs2 ∈ onDisk cfg sf ∧
      glueLine f.old bn1 f.new bn2 ∈ onDisk cfg sf ∧ PairwiseEq E vs1 vs2 := by
  intro ops sf E hok hcoh hunit
  exact glue_equal_core cfg d1 d2 d3 pre post rets rndv r2a r2b f rest hst hok hcoh
    (fun x hx _ => (List.all_eq_true.1 hunit) x hx)

/-- Clause 4, values, at full strength (no exclusion) for the code whose `ensure_single` tests the
coefficient -/
theorem C12_glue_equal_of_unit (cfg : Cfg) (hu : cfg.unitCoeff = true) (d1 d2 d3 : Int) (pre post : List Op)
    (rets : List Arg) (rndv r2a r2b : Int) (f : Frame) (rest : List Frame)
    (hst : (run cfg d1 d2 d3 pre).stack = f :: rest) :
    let ops := pre ++ .leave rets rndv r2a r2b :: post
    let sf := run cfg d1 d2 d3 ops
    let E : Env := ⟨cfg.p, sf.wires, sf.ios⟩
    E.ok → (∀ x ∈ lcsOf ops, Coherent E x) →
    ∃ bn1 bn2 vs1 vs2,
      blockLine f.old bn1 vs1 ∈ onDisk cfg sf ∧ blockLine f.new bn2 vs2 ∈ onDisk cfg sf ∧
      glueLine f.old bn1 f.new bn2 ∈ onDisk cfg sf ∧ PairwiseEq E vs1 vs2 := by
  intro ops sf E hok hcoh
  exact glue_equal_core cfg d1 d2 d3 pre post rets rndv r2a r2b f rest hst hok hcoh
    (fun x _ hs => isSingle_unit cfg hu x hs)

/-- Clause 4, values, for the code as it is: no exclusion -/
theorem C12_glue_equal (d1 d2 d3 : Int) (pre post : List Op)
    (rets : List Arg) (rndv r2a r2b : Int) (f : Frame) (rest : List Frame)
    (hst : (run C12cfg d1 d2 d3 pre).stack = f :: rest) :
    let ops := pre ++ .leave rets rndv r2a r2b :: post
    let sf := run C12cfg d1 d2 d3 ops
    let E : Env := ⟨C12cfg.p, sf.wires, sf.ios⟩
    E.ok → (∀ x ∈ lcsOf ops, Coherent E x) →
    ∃ bn1 bn2 vs1 vs2,
      blockLine f.old bn1 vs1 ∈ onDisk C12cfg sf ∧ blockLine f.new bn2 vs2 ∈ onDisk C12cfg sf ∧
      glueLine f.old bn1 f.new bn2 ∈ onDisk C12cfg sf ∧ PairwiseEq E vs1 vs2 :=
  C12_glue_equal_of_unit C12cfg rfl d1 d2 d3 pre post rets rndv r2a r2b f rest hst

/-- "the blocks list ALL arguments and results" at full strength: one wire per leaf of any class -/
def C12_glue_lists_all_full : Prop :=
  ∀ (s : St) (fn : String) (args : List Arg) (d1 d2 d3 : Int),
    ∃ f r, (step C12cfg s (.enter fn args d1 d2 d3)).stack = f :: r ∧ f.argret.length = args.length

/-- every argument and result of class `LinComb` is listed (exclusion: leaves of the classes
`LinCombBool`, `LinCombFxp` are not copied and not listed) -/
theorem C12_glue_lists_all_partial (cfg : Cfg) (s : St) (fn : String) (args : List Arg) (d1 d2 d3 : Int)
    (hall : args.all isL = true) :
    ∃ f, (step cfg s (.enter fn args d1 d2 d3)).stack = f :: s.stack ∧ f.argret.length = args.length ∧
      f.argret.map Prod.fst = args.map (·.lc) := by
  obtain ⟨f, h1, _, _, h4, _⟩ := C12_call_enter cfg s fn args d1 d2 d3
  have e : lcsOfArgs args = args.map (·.lc) := by
    unfold lcsOfArgs
    rw [List.filter_eq_self.2 (fun a ha => (List.all_eq_true.1 hall) a ha)]
  refine ⟨f, h1, ?_, by rw [h4, e]⟩
  have := congrArg List.length h4
  rw [e] at this
  simpa using this

/-- Finding (d), second half: the call `nb(b, v)` of `cexBool` has two arguments and two results that
carry wires; its blocks list two wires. -/
theorem C12_cex_uncopied_bool :
    (match (step C12cfg (run C12cfg 0 0 0 [.priv 3, .priv 1]) (.enter "nb"
        [⟨.bool, ⟨1, [(1, ("main", "2"))]⟩⟩, ⟨.lincomb, ⟨3, [(1, ("main", "1"))]⟩⟩] 0 0 0)).stack with
     | f :: _ => f.argret.length == 1
     | [] => false) = true ∧
    decide (blockLine "main" "4" [⟨3, [(1, ("main", "1"))]⟩, ⟨9, [(1, ("main", "4"))]⟩] ∈ (run C12cfg 0 0 0 cexBool).eqs) = true := by
  constructor <;> decide +kernel

theorem C12_glue_lists_all_full_false : ¬ C12_glue_lists_all_full := by
  intro h
  obtain ⟨f, r, h1, h2⟩ := h (run C12cfg 0 0 0 [.priv 3, .priv 1]) "nb"
    [⟨.bool, ⟨1, [(1, ("main", "2"))]⟩⟩, ⟨.lincomb, ⟨3, [(1, ("main", "1"))]⟩⟩] 0 0 0
  have c := C12_cex_uncopied_bool.1
  rw [h1] at c
  simp only [beq_iff_eq] at c
  rw [c] at h2
  simp at h2

/-! ## non-vacuity -/

/-- a history with a public value, a nested pair of calls (`outer` calls `inner`), a multi-term argument,
a negative and a wider-than-the-field witness value -/
def exOps : List Op :=
  [.priv (-5), .priv (Gen.qaptoolsModulus + 3), .pub 7,
   .enter "outer" [⟨.lincomb, ⟨-2, [(1, ("main", "1")), (1, ("main", "2"))]⟩⟩] 11 12 13,
   .enter "inner" [⟨.lincomb, ⟨-2, [(1, ("main_3_outer", "1"))]⟩⟩] 14 15 16,
   .priv 4, .con [(1, ("main_3_outer_1_inner", "1"))] [(1, ("main_3_outer_1_inner", "1"))] [(1, ("main_3_outer_1_inner", "2"))],
   .leave [⟨.lincomb, ⟨4, [(1, ("main_3_outer_1_inner", "2"))]⟩⟩] 21 22 23,
   .leave [⟨.lincomb, ⟨4, [(1, ("main_3_outer", "3"))]⟩⟩] 24 25 26]

/-- `exOps` meets every hypothesis of the theorems above: proper names, traced constraint true,
arguments/results coherent, contexts respected, coefficients one; its split succeeds with two
per-function files beside `main`'s, and every equation of the file holds -/
example :
    let s := run C12cfg 1 2 3 exOps
    let E : Env := ⟨C12cfg.p, s.wires, s.ios⟩
    (keysOk (s.wires ++ s.ios) && scopedFrom C12cfg (St.init 1 2 3) exOps && unitSingles (lcsOf exOps) &&
     (consOf exOps).all (fun c => Stmt.holds E.p E.asg (.mul c.1 c.2.1 c.2.2) == some true) &&
     (lcsOf exOps).all (fun x => match evalLC E.asg x.sig with | some v => decide (v % E.p = x.value % E.p) | none => false) &&
     s.eqs.all (fun l => holds C12cfg.p (asgOf s.wires s.ios) "" l) &&
     (match prove id C12cfg s with
      | .ok out => out.files.length == 3 && out.acc.fns.length == 3 && s.flushed == s.eqs.length
      | .error _ => false)) = true := by decide +kernel

example : C12_pub_linked_full ∧ pubsOf exOps = [7] ∧ (run C12cfg 1 2 3 exOps).ios = [(("main", "o_1"), 7)] :=
  ⟨C12_pub_linked, by decide +kernel, by decide +kernel⟩

/-- the glue theorems apply to `exOps`: before the first `leave` the stack holds the frames of `inner`
and `outer` -/
example : ((run C12cfg 1 2 3 (exOps.take 7)).stack.map fun f => (f.old, f.new)) =
    [("main_3_outer", "main_3_outer_1_inner"), ("main", "main_3_outer")] := by decide +kernel

/-! ## 7. wire names and call contexts are pairwise distinct (the hypothesis `E.ok` is a theorem) -/

/-- For every history: the names written to the wire file and to the I/O file are pairwise distinct and
none is the built-in `<ctx>/one` (`Env.ok`, the hypothesis of the satisfaction theorems above), and `main`
and the contexts given to the calls are pairwise distinct.  Function names are arbitrary strings. -/
theorem C12_names_distinct (cfg : Cfg) (d1 d2 d3 : Int) (ops : List Op) :
    let s := run cfg d1 d2 d3 ops
    Env.ok ⟨cfg.p, s.wires, s.ios⟩ ∧ ("main" :: (callsOf cfg d1 d2 d3 ops).map Prod.fst).Nodup :=
  ⟨keysOk_of_ninv _ (ninv_run cfg d1 d2 d3 ops), calls_nodup cfg d1 d2 d3 ops⟩

/-- Clause 1 with the hypothesis on names discharged: hypotheses C01 and C04 only -/
def C12_eqs_sat_closed_full : Prop :=
  ∀ (cfg : Cfg) (d1 d2 d3 : Int) (ops : List Op),
    let s := run cfg d1 d2 d3 ops
    let E : Env := ⟨cfg.p, s.wires, s.ios⟩
    (∀ c ∈ consOf ops, ConHold E c) → (∀ x ∈ lcsOf ops, Coherent E x) →
    ∀ l ∈ s.eqs, holds cfg.p (asgOf s.wires s.ios) "" l = true

theorem C12_eqs_sat_closed : C12_eqs_sat_closed_full := by
  intro cfg d1 d2 d3 ops s E hc hl
  exact C12_eqs_sat cfg d1 d2 d3 ops (C12_names_distinct cfg d1 d2 d3 ops).1 hc hl

/-- Clause 4, values, for the code as it is, with the hypothesis on names discharged -/
theorem C12_glue_equal_closed (d1 d2 d3 : Int) (pre post : List Op)
    (rets : List Arg) (rndv r2a r2b : Int) (f : Frame) (rest : List Frame)
    (hst : (run C12cfg d1 d2 d3 pre).stack = f :: rest) :
    let ops := pre ++ .leave rets rndv r2a r2b :: post
    let sf := run C12cfg d1 d2 d3 ops
    let E : Env := ⟨C12cfg.p, sf.wires, sf.ios⟩
    (∀ x ∈ lcsOf ops, Coherent E x) →
    ∃ bn1 bn2 vs1 vs2,
      blockLine f.old bn1 vs1 ∈ onDisk C12cfg sf ∧ blockLine f.new bn2 vs2 ∈ onDisk C12cfg sf ∧
      glueLine f.old bn1 f.new bn2 ∈ onDisk C12cfg sf ∧ PairwiseEq E vs1 vs2 := by
  intro ops sf E hcoh
  exact C12_glue_equal d1 d2 d3 pre post rets rndv r2a r2b f rest hst (C12_names_distinct C12cfg d1 d2 d3 ops).1 hcoh

/-! ## 8. the equations of a per-function file hold for each call of the function -/

/-- A per-function file holds the normalised equation set of a call: the lines read back with blanks and
contexts removed.  Read for the context `x` of a call (a bare name refers to `x`, `Spec/QapEq.lean`), every
line of the normalised set of `x` holds modulo `p` on the wire and I/O files of the run (hypotheses C01 and
C04 only; either setting of the two switches).  Hence the file written for a function holds for every call
whose normalised set it is; that is every call of the function when the digest does not collide on the sets
of this run (otherwise `prove()` has compared digests only). -/
theorem C12_function_file_sat {Dg : Type} [DecidableEq Dg] (H : List Line → Dg) (cfg : Cfg) (d1 d2 d3 : Int)
    (ops : List Op) (out : SplitOut Dg) (h : prove H cfg (run cfg d1 d2 d3 ops) = .ok out) :
    let s := run cfg d1 d2 d3 ops
    let E : Env := ⟨cfg.p, s.wires, s.ios⟩
    (∀ c ∈ consOf ops, ConHold E c) → (∀ x ∈ lcsOf ops, Coherent E x) →
    (∀ x l, l ∈ getqap out.acc x → holds cfg.p (asgOf s.wires s.ios) x l = true) ∧
    (∀ fq ∈ out.files, ∀ x, (x, fq.1) ∈ out.acc.fns → getqap out.acc x = fq.2 →
      ∀ l ∈ fq.2, holds cfg.p (asgOf s.wires s.ios) x l = true) ∧
    ((∀ x y, x ∈ out.acc.fns.map Prod.fst → y ∈ out.acc.fns.map Prod.fst →
        H (getqap out.acc x) = H (getqap out.acc y) → getqap out.acc x = getqap out.acc y) →
      ∀ x f, (x, f) ∈ out.acc.fns → ∃ q, (f, q) ∈ out.files ∧
        ∀ l ∈ q, holds cfg.p (asgOf s.wires s.ios) x l = true) := by
  intro s E hc hl
  have key := getqap_sat H cfg d1 d2 d3 ops out h hc hl
  refine ⟨key, ?_, ?_⟩
  · intro fq _ x _ he l hm
    exact key x l (by rw [he]; exact hm)
  · intro hinj x f hx
    obtain ⟨_, _, k3⟩ := C12_digest_partial H _ out h hinj
    exact ⟨getqap out.acc x, k3 x f hx, fun l hm => key x l hm⟩

/-! ## 9. the `[function]` lines, the schedule file and the call table follow the calls of the history -/

/-- For the code as it is (for every `cfg` that flushes in `prove()`): the `[function]` lines of the
equation file are `main` followed by ONE line per call of the history, in call order, naming the function
and the context the call got; its `[glue]` lines are one per return, in order, pairing the caller's and the
callee's context of the frame that return pops (the model's stack is last-in first-out: a return closes
the innermost call that is still open; a call whose body raised is never closed); the schedule file holds,
in file order, one entry per `[function]` line (the call and the three files of its function) and every
`[glue]` line verbatim, nothing else; the call table `fns` of `qapsplit` is exactly the list of calls; and
the contexts are pairwise distinct. -/
theorem C12_schedule_calls {Dg : Type} [DecidableEq Dg] (H : List Line → Dg) (cfg : Cfg)
    (hf : cfg.flushAtProve = true) (d1 d2 d3 : Int) (ops : List Op) (out : SplitOut Dg)
    (h : prove H cfg (run cfg d1 d2 d3 ops) = .ok out) :
    let s := run cfg d1 d2 d3 ops
    s.eqs.filterMap fnOf = ("main", "main") :: callsOf cfg d1 d2 d3 ops ∧
    s.eqs.filterMap glueOf = returnsOf cfg d1 d2 d3 ops ∧
    out.acc.schedule = s.eqs.filterMap schedLine ∧
    out.acc.fns = ("main", "main") :: callsOf cfg d1 d2 d3 ops ∧
    ("main" :: (callsOf cfg d1 d2 d3 ops).map Prod.fst).Nodup := by
  intro s
  obtain ⟨sh, hfn, hgl⟩ := shape_run cfg d1 d2 d3 ops
  have hnd := calls_nodup cfg d1 d2 d3 ops
  obtain ⟨h1, _⟩ := splitLines_of_qapsplit H _ out h
  have hD : onDisk cfg s = s.eqs := by simp [onDisk, hf]
  rw [hD] at h1
  obtain ⟨a1, a2⟩ := splitLines_sched s.eqs Acc.empty out.acc h1
  refine ⟨hfn, hgl, ?_, ?_, hnd⟩
  · rw [a1, sched_eq s.eqs sh]; simp [Acc.empty]
  · rw [a2, fnsAfter_eq s.eqs sh, hfn]
    have := foldl_sset_nodup (("main", "main") :: callsOf cfg d1 d2 d3 ops) [] (by simpa using hnd)
    simpa [Acc.empty] using this

/-- "Nested calls are properly bracketed", as a statement about the FILE: reading its `[function]` and
`[glue]` lines in order (`openEv`: a `[function]` line opens its context; `[glue] old _ new _` needs `new`
open and `old` directly below it once `new` and the contexts opened inside `new` and never closed — calls
whose body raised — are removed) never fails, for any history; the contexts open at the end are pairwise
distinct and the innermost one is the context the backend is in. -/
theorem C12_calls_bracketed (cfg : Cfg) (d1 d2 d3 : Int) (ops : List Op) :
    ∃ FS, openEv [] ((run cfg d1 d2 d3 ops).eqs.filterMap evOf) = some FS ∧
      FS.head? = some (run cfg d1 d2 d3 ops).ctx ∧ FS.Nodup :=
  bracket_run cfg d1 d2 d3 ops

/-- the schedule file for either setting of the flush: one entry per `[function]` line and every `[glue]`
line that is ON DISK when `prove()` reads the equation file -/
theorem C12_schedule_on_disk {Dg : Type} [DecidableEq Dg] (H : List Line → Dg) (cfg : Cfg)
    (d1 d2 d3 : Int) (ops : List Op) (out : SplitOut Dg)
    (h : prove H cfg (run cfg d1 d2 d3 ops) = .ok out) :
    out.acc.schedule = (onDisk cfg (run cfg d1 d2 d3 ops)).filterMap schedLine := by
  obtain ⟨sh, _, _⟩ := shape_run cfg d1 d2 d3 ops
  obtain ⟨h1, _⟩ := splitLines_of_qapsplit H _ out h
  obtain ⟨a1, _⟩ := splitLines_sched _ Acc.empty out.acc h1
  have shD : ∀ l ∈ onDisk cfg (run cfg d1 d2 d3 ops), EqShape l := by
    intro l hl
    apply sh
    unfold onDisk at hl
    split at hl
    · exact hl
    · exact List.mem_of_mem_take hl
  rw [a1, sched_eq _ shD]; simp [Acc.empty]

/-! ## 10. findings of the second round, as closed counterexamples -/

/-- `@subqap("dbl") def f(x): return x + x`, called inside `guarded(g)` with `g = PrivValBool(0)` (wire
`main/2`): the result is not a single wire, `ensure_single` copies it in the CALLEE's context and, a guard
being in effect, ties the copy to the guard through a dummy wire: `main/2 * main_2_dbl/4 = 0` -/
def cexGuard : List Op :=
  [.priv 3, .priv 0, .guard (some ⟨0, [(1, ("main", "2"))]⟩),
   .enter "dbl" [⟨.lincomb, ⟨3, [(1, ("main", "1"))]⟩⟩] 0 0 0,
   .leave [⟨.lincomb, ⟨6, [(1, ("main_2_dbl", "1")), (1, ("main_2_dbl", "1"))]⟩⟩] 0 0 0,
   .guard none]

/-- Finding: a guard in effect across a call boundary is a wire of the caller; the equation that ties the
callee's fresh wire to it mixes contexts and `prove()` raises `ValueError("Inconsistent contexts")`; the
equations themselves are true (the satisfaction theorems cover guarded histories) -/
theorem C12_cex_guard_across :
    (match prove id C12cfg (run C12cfg 0 0 0 cexGuard) with
     | .error e => decide (e = .inconsistentContexts)
     | .ok _ => false) = true ∧
    decide (conLine [(1, ("main", "2"))] [(1, ("main_2_dbl", "4"))] [] ∈ (run C12cfg 0 0 0 cexGuard).eqs) = true ∧
    scopedFrom C12cfg (St.init 0 0 0) cexGuard = false := by
  refine ⟨?_, ?_, ?_⟩ <;> first | decide +kernel | fail "cexGuard"

/-- `outer(x)`: `try: inner(x) except: pass; return x*x` where the body of `inner` raises at once -/
def cexAbort : List Op :=
  [.priv 3,
   .enter "outer" [⟨.lincomb, ⟨3, [(1, ("main", "1"))]⟩⟩] 0 0 0,
   .enter "inner" [⟨.lincomb, ⟨3, [(1, ("main_1_outer", "1"))]⟩⟩] 0 0 0,
   .abort,
   .priv 9, .con [(1, ("main_1_outer", "1"))] [(1, ("main_1_outer", "1"))] [(1, ("main_1_outer_1_inner", "2"))],
   .leave [⟨.lincomb, ⟨9, [(1, ("main_1_outer_1_inner", "2"))]⟩⟩] 0 0 0]

/-- Finding: an exception inside a body leaves `vc_ctx` in the aborted call: the product computed by
`outer` afterwards is a wire of `inner`'s context, `outer`'s block lists it, `prove()` raises -/
theorem C12_cex_abort_context :
    (run C12cfg 0 0 0 (cexAbort.take 4)).ctx = "main_1_outer_1_inner" ∧
    (match prove id C12cfg (run C12cfg 0 0 0 cexAbort) with
     | .error e => decide (e = .inconsistentContexts)
     | .ok _ => false) = true ∧
    scopedFrom C12cfg (St.init 0 0 0) cexAbort = false := by
  refine ⟨?_, ?_, ?_⟩ <;> first | decide +kernel | fail "cexAbort"

/-! ## 11. what is on disk is text -/

/-- `QapText.render` is the text `print` writes (tokens joined by single blanks), `QapText.parseLine` the
reader written from the file grammar (`Spec/QapEq.lean`: split at blanks, first token decides the kind of
line, coefficient/name alternation, names cut at their first `/`).  Every line of the six shapes whose
names are well formed (no blank in a name, no `/` in a context; coefficients are arbitrary integers,
printed in decimal) reads back as itself. -/
theorem C12_text_roundtrip (l : Line) (h : LineWF l) : QapText.parseLine (QapText.render l) = some l :=
  parse_render l h

/-- For every history whose names are well formed (`OpWF`: function names and the contexts of traced wires
without blank and `/`, local names without blank): every line of the equation file reads back from its
text as itself, so does the file `prove()` reads, and `prove()` on the text (`proveText`) is `prove()` on
the structured lines: the theorems above are theorems about the text on disk. -/
theorem C12_text_file {Dg : Type} [DecidableEq Dg] (H : List Line → Dg) (cfg : Cfg) (d1 d2 d3 : Int)
    (ops : List Op) (ho : ∀ op ∈ ops, OpWF op) :
    let s := run cfg d1 d2 d3 ops
    (∀ l ∈ s.eqs, QapText.parseLine (QapText.render l) = some l) ∧
    readBack (onDisk cfg s) = some (onDisk cfg s) ∧ proveText H cfg s = prove H cfg s := by
  intro s
  have wf := text_run cfg d1 d2 d3 ops ho
  have wfD : ∀ l ∈ onDisk cfg s, LineWF l := by
    intro l hl
    apply wf
    unfold onDisk at hl
    split at hl
    · exact hl
    · exact List.mem_of_mem_take hl
  exact ⟨fun l hl => parse_render l (wf l hl), readBack_id _ wfD, proveText_eq H cfg s wfD⟩

/-- `@subqap("a/b") def f(x): return x*x` called on `x = PrivVal(3)` -/
def cexSlash : List Op :=
  [.priv 3,
   .enter "a/b" [⟨.lincomb, ⟨3, [(1, ("main", "1"))]⟩⟩] 0 0 0,
   .priv 9, .con [(1, ("main_1_a/b", "1"))] [(1, ("main_1_a/b", "1"))] [(1, ("main_1_a/b", "2"))],
   .leave [⟨.lincomb, ⟨9, [(1, ("main_1_a/b", "2"))]⟩⟩] 0 0 0]

/-- Finding: a function name with `/`.  The structured lines would split; the TEXT reads back with the
call's wires in context `main_1_a` (cut at the first `/`) while the `[ioblock]` line names `main_1_a/b`:
`prove()` raises `ValueError("Inconsistent contexts")`. -/
theorem C12_cex_slash_name :
    (match proveText id C12cfg (run C12cfg 0 0 0 cexSlash) with
     | .error e => decide (e = .inconsistentContexts)
     | .ok _ => false) = true ∧
    (match prove id C12cfg (run C12cfg 0 0 0 cexSlash) with
     | .ok _ => true
     | .error _ => false) = true ∧
    decide (QapText.parseLine (QapText.render (oneLine "main_1_a/b")) =
      some (pubLine ("main_1_a", "b/one") ("main_1_a", "b/onex"))) = true := by
  refine ⟨?_, ?_, ?_⟩ <;> first | decide +kernel | fail "cexSlash"

/-! ## 12. what the digest is applied to -/

/-- The digest enters the model as a parameter; its ARGUMENT is fixed: with `H q = h (digestInput q)` for
any function `h` on text (MD5 truncated to ten hexadecimal digits in the code), the signature recorded for a
function is `h` of the text obtained by writing the lines of the normalised (sorted) equation set of a call
one after the other, each rendered with single blanks, with NOTHING between the lines
(`m.update(bytes(line, 'utf-8'))` per line).  The harness applies `hashlib.md5` to exactly this text and
compares with the signature the real run hands to key generation. -/
theorem C12_digest_input {Dg : Type} [DecidableEq Dg] (h : String → Dg) (D : List Line) (out : SplitOut Dg)
    (hq : qapsplit (fun q => h (digestInput q)) D = .ok out) :
    (∀ xf ∈ out.acc.fns, sigGet out.sigs xf.2 = some (h (digestInput (getqap out.acc xf.1)))) ∧
    (∀ q : List Line, digestInput q = String.join (q.map QapText.render)) :=
  ⟨(C12_split_files (fun q => h (digestInput q)) D out hq).2.2, fun _ => rfl⟩

/-- two different (stripped, sorted) equation sets with the same digest input: the last digit of a name
that ends one line can be the first digit of the coefficient that starts the next -/
def collideA : List Line :=
  [[.sym "*", .sym "=", .num 1, .loc "5", .num (-1), .loc "o_1"],
   [.num 12, .loc "3", .sym "*", .num 1, .loc "1", .sym "=", .num 1, .loc "4", .sym "."]]
def collideB : List Line :=
  [[.sym "*", .sym "=", .num 1, .loc "5", .num (-1), .loc "o_11"],
   [.num 2, .loc "3", .sym "*", .num 1, .loc "1", .sym "=", .num 1, .loc "4", .sym "."]]

/-- Caveat for `C12_digest_partial`: its hypothesis (the digest separates the sets of the run) asks more
than collision resistance of MD5, because the digest input itself does not determine the set: lines are
hashed without a separator.  (No pair of sets of this kind was produced by generated programs: the line
before the first coefficient is `* = 1 one -1 onex` in every real file.) -/
theorem C12_digest_input_not_injective :
    digestInput collideA = digestInput collideB ∧ collideA ≠ collideB ∧
    sortLines collideA = collideA ∧ sortLines collideB = collideB := by
  refine ⟨?_, ?_, ?_, ?_⟩ <;> first | decide +kernel | fail "collide"

/-! ## non-vacuity of the second round -/

/-- a history with a guard in effect across a call whose ARGUMENT is not a single wire (the copy is tied to
the guard in the caller's own context: the split goes through), a call that raises and is caught at top
level, and two calls of one function -/
def exOps2 : List Op :=
  [.priv 3, .priv 1, .guard (some ⟨1, [(1, ("main", "2"))]⟩),
   .enter "sq" [⟨.lincomb, ⟨6, [(1, ("main", "1")), (1, ("main", "1"))]⟩⟩] 1 2 3,
   .priv 36, .con [(1, ("main_2_sq", "1"))] [(1, ("main_2_sq", "1"))] [(1, ("main_2_sq", "2"))],
   .leave [⟨.lincomb, ⟨36, [(1, ("main_2_sq", "2"))]⟩⟩] 4 5 6,
   .guard none,
   .enter "sq" [⟨.lincomb, ⟨3, [(1, ("main", "1"))]⟩⟩] 1 2 3,
   .priv 9, .con [(1, ("main_7_sq", "1"))] [(1, ("main_7_sq", "1"))] [(1, ("main_7_sq", "2"))],
   .leave [⟨.lincomb, ⟨9, [(1, ("main_7_sq", "2"))]⟩⟩] 4 5 6]

/-- `C12_names_distinct`, `C12_eqs_sat_closed`, `C12_function_file_sat`, `C12_schedule_calls` on closed
histories: names distinct, every hypothesis met, every line of every per-function file true for EVERY call of
its function, three schedule entries and two `[glue]` lines in call order -/
example :
    let s := run C12cfg 1 2 3 exOps2
    let E : Env := ⟨C12cfg.p, s.wires, s.ios⟩
    (keysOk (s.wires ++ s.ios) &&
     (consOf exOps2).all (fun c => Stmt.holds E.p E.asg (.mul c.1 c.2.1 c.2.2) == some true) &&
     (lcsOf exOps2).all (fun x => match evalLC E.asg x.sig with | some v => decide (v % E.p = x.value % E.p) | none => false) &&
     decide ((lcsOf exOps2).length = 5) &&
     s.eqs.all (fun l => holds C12cfg.p (asgOf s.wires s.ios) "" l) &&
     decide (callsOf C12cfg 1 2 3 exOps2 = [("main_2_sq", "sq"), ("main_7_sq", "sq")]) &&
     decide (returnsOf C12cfg 1 2 3 exOps2 = [("main", "main_2_sq"), ("main", "main_7_sq")]) &&
     (match prove id C12cfg s with
      | .ok out =>
        out.files.all (fun fq => out.acc.fns.all (fun xf =>
          xf.2 != fq.1 || (getqap out.acc xf.1 == fq.2 && fq.2.all (fun l => holds C12cfg.p (asgOf s.wires s.ios) xf.1 l)))) &&
        decide (out.acc.fns = [("main", "main"), ("main_2_sq", "sq"), ("main_7_sq", "sq")]) &&
        decide (out.acc.schedule = [scheduleFunction "main" "main", scheduleFunction "main_2_sq" "sq",
          glueLine "main" "4" "main_2_sq" "2", scheduleFunction "main_7_sq" "sq", glueLine "main" "9" "main_7_sq" "2"]) &&
        out.files.length == 2
      | .error _ => false)) = true := by first | decide +kernel | fail "exOps2"

/-- `C12_text_roundtrip` / `C12_text_file` on closed histories: the names of `exOps` and `exOps2` are well
formed, every line reads back from its text, the file reads back as itself; `C12_digest_input`: the
signature recorded for `sq` is the stated text -/
example :
    ((run C12cfg 1 2 3 exOps).eqs.all (fun l => QapText.parseLine (QapText.render l) == some l) &&
     (run C12cfg 1 2 3 exOps2).eqs.all (fun l => QapText.parseLine (QapText.render l) == some l) &&
     decide (readBack (run C12cfg 1 2 3 exOps2).eqs = some (run C12cfg 1 2 3 exOps2).eqs) &&
     (match proveText digestInput C12cfg (run C12cfg 1 2 3 exOps2) with
      | .ok out => decide (sigGet out.sigs "sq" = some "* = 1 one -1 onex1 1 * 1 1 = 1 2 .[ioblock] 2 1 2")
      | .error _ => false)) = true := by first | decide +kernel | fail "text example"

/-- `C12_calls_bracketed` on closed histories: inside the nested pair of `exOps` three contexts are open,
at its end `main` alone; after the aborted call of `cexAbort` the dead context stays open until the
enclosing call returns -/
example :
    (decide (openEv [] ((run C12cfg 1 2 3 (exOps.take 7)).eqs.filterMap evOf) = some ["main_3_outer_1_inner", "main_3_outer", "main"]) &&
     decide (openEv [] ((run C12cfg 1 2 3 exOps).eqs.filterMap evOf) = some ["main"]) &&
     decide (openEv [] ((run C12cfg 0 0 0 (cexAbort.take 6)).eqs.filterMap evOf) = some ["main_1_outer_1_inner", "main_1_outer", "main"]) &&
     decide (openEv [] ((run C12cfg 0 0 0 cexAbort).eqs.filterMap evOf) = some ["main"]) &&
     decide (openEv ["main"] [.inr ("main", "other")] = none)) = true := by first | decide +kernel | fail "bracket example"

/-- names stay distinct when function names spell other calls: `a_1_b` called from `main` at counter 0 and
`b` called from `main_0_a` at counter 1 would both be `main_0_a_1_b`; the second `main`-level call gets a
larger counter -/
example :
    let ops : List Op := [.enter "a" [] 0 0 0, .priv 1, .enter "b" [] 0 0 0, .leave [] 0 0 0, .leave [] 0 0 0,
      .enter "a_1_b" [] 0 0 0, .abort, .enter "" [] 0 0 0]
    let s := run C12cfg 0 0 0 ops
    (keysOk (s.wires ++ s.ios) &&
     decide ((callsOf C12cfg 0 0 0 ops).map Prod.fst = ["main_0_a", "main_0_a_1_b", "main_2_a_1_b", "main_2_a_1_b_0_"])) = true := by
  first | decide +kernel | fail "names example"


/-- **API surface pinned** (regenerated from the source on every run, `Gen/Api.lean`): the functions this property's model
transcribes are exactly the functions the code has; an added or removed function changes the generated list and this
obligation fails (the tie is then broken by construction and the check runs its extended search). -/
theorem C12_api_surface :
    Gen.api_qaptools_backend = ["init", "inited", "Sig.__init__", "Sig.__str__", "Sig.__add__", "Sig.__sub__", "Sig.__mul__", "Sig.__neg__", "privval", "pubval", "zero", "one", "fieldinverse", "get_modulus", "add_constraint", "prove", "printwire", "printwireout", "enterfn", "continuefn", "for_each_in", "vc_declare_block", "importcomm", "exportcomm", "vc_glue", "subqap"] ∧
    Gen.api_qapsplit = ["contextualize", "getqap", "qaphash", "qapsplit"] := ⟨rfl, rfl⟩

end Pysnark
