import PysnarkModel.Lemmas.Expr
import PysnarkModel.Lemmas.Inverse
import PysnarkModel.Spec.Curves
import PysnarkModel.Gen.Constants
/-!
# C13 — backend linear combinations: faithful immutable algebra over a prime field

Quantifier: all expression trees over variables, constants and integer scalars (0, negative,
above the prime), all assignments, each backend/field configuration.
Immutability is inherent in the functional model; the correspondence run checks that the real
objects are not mutated (operands snapshotted before/after every operation).
libsnark's native LC class cannot be loaded in this sandbox and is not covered.
-/
namespace Pysnark
open Pysnark.Spec

/-- the property, dict-based class (snarkjs, zkinterface ×3): every expression tree evaluates, on
every assignment, to the integer expression it denotes — hence to the field expression mod any p. -/
def C13_dict_full : Prop :=
  ∀ (e : LExpr) (w : Wire → Int), LC.eval w e.build = e.denote w

theorem C13_dict : C13_dict_full := fun e w => LExpr.eval_build w e

/-- the Python-dict invariant (no duplicate keys) holds for every linear combination the operators
can build; `LC.eval_add` needs it (and is false without it). -/
theorem C13_dict_wf (e : LExpr) : e.build.WF := LExpr.build_WF e

/-- term-list class of qaptools: evaluation agrees with the field expression modulo `p`,
for every `p` (the code reduces coefficients in `*` and unary `-`). -/
def C13_sig_full : Prop :=
  ∀ (p : Int) (e : SExpr) (w : String → Int), (SigLC.eval w (e.build p) - e.denote w) % p = 0

theorem C13_sig : C13_sig_full := fun p e w => SExpr.eval_build_mod p w e

/-! ## the moduli reported by the backends (regenerated from the source on every run) -/
theorem C13_modulus_snarkjs : Gen.snarkjsModulus = bn254_r := by decide
theorem C13_modulus_zkinterface : Gen.zkifModulus = bn254_r := by decide
theorem C13_modulus_qaptools : Gen.qaptoolsModulus = bn254_r := by decide
theorem C13_modulus_bellman : Gen.bellmanModulus = bls12_381_r := by decide
theorem C13_modulus_bulletproofs : Gen.bulletproofsModulus = curve25519_l := by decide

theorem C13_prime_snarkjs : Gen.snarkjsModulus.Prime := C13_modulus_snarkjs ▸ bn254_r_prime
theorem C13_prime_zkinterface : Gen.zkifModulus.Prime := C13_modulus_zkinterface ▸ bn254_r_prime
theorem C13_prime_qaptools : Gen.qaptoolsModulus.Prime := C13_modulus_qaptools ▸ bn254_r_prime
theorem C13_prime_bellman : Gen.bellmanModulus.Prime := C13_modulus_bellman ▸ bls12_381_r_prime
theorem C13_prime_bulletproofs : Gen.bulletproofsModulus.Prime := C13_modulus_bulletproofs ▸ curve25519_l_prime

/-! ## `fieldinverse` -/
/-- the inverse clause for a modulus `p` -/
def InverseOK (p : Nat) : Prop :=
  (∀ x : Int, x % (p : Int) ≠ 0 → ∃ y, Py.invert x p = some y ∧ (x * y) % (p : Int) = 1 ∧ 0 < y ∧ y < p) ∧
  (∀ x : Int, x % (p : Int) = 0 → Py.invert x p = none)

theorem inverseOK_of_prime {p : Nat} (hp : p.Prime) : InverseOK p :=
  ⟨fun x hx => Py.invert_correct hp x hx, fun x hx => Py.invert_none hp x hx⟩

theorem C13_inverse_snarkjs : InverseOK Gen.snarkjsModulus := inverseOK_of_prime C13_prime_snarkjs
theorem C13_inverse_zkinterface : InverseOK Gen.zkifModulus := inverseOK_of_prime C13_prime_zkinterface
theorem C13_inverse_qaptools : InverseOK Gen.qaptoolsModulus := inverseOK_of_prime C13_prime_qaptools
theorem C13_inverse_bellman : InverseOK Gen.bellmanModulus := inverseOK_of_prime C13_prime_bellman
theorem C13_inverse_bulletproofs : InverseOK Gen.bulletproofsModulus := inverseOK_of_prime C13_prime_bulletproofs

/-! ## non-vacuity: concrete non-trivial instances -/
example : (LExpr.sub (.add (.var (.pub 0)) (.scale (.var (.priv 1)) (-3))) (.add (.var (.pub 0)) .one)).build
    = [(.pub 0, 0), (.priv 1, -3), (.one, -1)] := by decide
example : Py.invert (-3) 97 = some 32 ∧ ((-3 : Int) * 32) % 97 = 1 := by decide
example : Py.invert (97 * 5) 97 = none := by decide
/-- without the duplicate-free invariant the addition lemma is false: the hypothesis is necessary -/
example : LC.eval (fun _ => 1) (LC.add [(.one, 1)] [(.one, 1), (.one, 1)]) ≠
    LC.eval (fun _ => 1) [(.one, 1)] + LC.eval (fun _ => 1) [(.one, 1), (.one, 1)] := by decide

end Pysnark
