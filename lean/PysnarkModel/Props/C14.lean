import PysnarkModel.Lemmas.FxpValues
import PysnarkModel.Spec.R1CS
/-!
# C14 — fixed-point operations equal exact scaled-integer arithmetic

At resolution `r = s.resolution` the fixed-point number `v` is represented by the integer `v·2^r`
(`Val.fxp x`, `x.value` is the representation).  `rep r b` is the representation of an operand `b`
of any accepted kind: `c·2^r` for the int `c`, `int(f·2^r)` (truncation, `scaleFlt`) for the float
`f = m/2^e`, `y.value·2^r` for an integer or boolean secret, `y.value` for a fixed-point secret.

Every statement is: if the model function returns `.ok`, the representation of the result is the
stated integer expression of the representations of the operands (`Int.fdiv` = floor division,
`Int.fmod` = Python's `%`).  Hypotheses `Plain s` (no guard, errors not suppressed) appear only
where the code consults them.
-/
namespace Pysnark

section
variable {s s' : St} {x : LinComb} {o v : Val}

/-- `x + other` : the sum of the representations (exact) -/
theorem C14_add_exact (h : addXV x o s = .ok (v, s')) :
    ∃ z, v = .fxp z ∧ z.value = x.value + rep s.resolution o := (addXV_val h).2

/-- `x - other` : the difference of the representations (exact) -/
theorem C14_sub_exact (h : subV (.fxp x) o s = .ok (v, s')) :
    ∃ z, v = .fxp z ∧ z.value = x.value - rep s.resolution o := (subXV_val h).2

/-- `-x` -/
theorem C14_neg_exact (h : negV (.fxp x) s = .ok (v, s')) :
    ∃ z, v = .fxp z ∧ z.value = -x.value := (negXV_val h).2

/-- `x * other`: exact for an integer (plain or secret) factor; `⌊a·b / 2^r⌋` on representations
for a fixed-point or float factor -/
theorem C14_mul_exact (h : mulXV x o s = .ok (v, s')) :
    ∃ z, v = .fxp z ∧ z.value = mulXSem s.resolution x.value o := (mulXV_val h).2

theorem C14_mul_cases (a : Int) (r : Nat) (c : Int) (y : LinComb) (m : Int) (e : Nat) :
    mulXSem r a (.int c) = a * c ∧ mulXSem r a (.lc y) = a * y.value ∧
    mulXSem r a (.fxp y) = Int.fdiv (a * y.value) (2 ^ r) ∧
    mulXSem r a (.flt m e) = Int.fdiv (a * scaleFlt m e r) (2 ^ r) := ⟨rfl, rfl, rfl, rfl⟩

/-- `x / other`: `⌊a·2^r / b⌋` on representations (for an int divisor `c`: `⌊a / c⌋`) -/
theorem C14_truediv_exact {q : LinComb} (h : truedivXV x o s = .ok (some q, s')) :
    q.value = truedivXSem s.resolution x.value o := (truedivXV_val h).2

theorem C14_truediv_cases (a : Int) (r : Nat) (c : Int) (y : LinComb) (m : Int) (e : Nat) :
    truedivXSem r a (.int c) = Int.fdiv a c ∧
    truedivXSem r a (.int c) = Int.fdiv (a * 2 ^ r) (c * 2 ^ r) ∧
    truedivXSem r a (.lc y) = Int.fdiv (a * 2 ^ r) (y.value * 2 ^ r) ∧
    truedivXSem r a (.fxp y) = Int.fdiv (a * 2 ^ r) y.value ∧
    truedivXSem r a (.flt m e) = Int.fdiv (a * 2 ^ r) (scaleFlt m e r) :=
  ⟨rfl, (fdiv_mul_pow a c r).symm, rfl, rfl, rfl⟩

/-- `divmod(x, other)`, `//`, `%`: the quotient is the floor quotient of the representations,
rescaled; the remainder is Python's `%` of the representations -/
theorem C14_divmod_exact {qr : LinComb × LinComb} (h : divmodXV x o s = .ok (some qr, s')) :
    qr.1.value = Int.fdiv x.value (rep s.resolution o) * 2 ^ s.resolution ∧
      qr.2.value = Int.fmod x.value (rep s.resolution o) := (divmodXV_val h).2

/-- comparisons: 0/1 according to the order of the representations … -/
theorem C14_cmp_exact {op : Cmp} (hp : Plain s) (h : cmpV op (.fxp x) o s = .ok (v, s')) :
    ∃ r, v = .lcb r ∧ r.value = cmpSem op x.value (rep s.resolution o) :=
  (cmpXV_val hp.guard hp.ign h).2

/-- … which is the order of the represented numbers -/
theorem C14_cmp_represented (r : Nat) (a b : Int) :
    (a < b ↔ (a : ℚ) / 2 ^ r < (b : ℚ) / 2 ^ r) ∧ (a ≤ b ↔ (a : ℚ) / 2 ^ r ≤ (b : ℚ) / 2 ^ r) ∧
    (a = b ↔ (a : ℚ) / 2 ^ r = (b : ℚ) / 2 ^ r) := cmp_rep_iff r a b

/-- `x.val()` returns the float `representation / 2^r` (exactly, below `2^53`) -/
theorem C14_val_exact {args : List Val} (h : callMeth .val (.fxp x) args s = .ok (v, s')) :
    v = .flt x.value s.resolution ∧ x.value.natAbs < 2 ^ 53 := (valX_val h).2

theorem C14_val_total {args : List Val} (hp : Plain s) (hlt : x.value.natAbs < 2 ^ 53) :
    ∃ s', callMeth .val (.fxp x) args s = .ok (.flt x.value s.resolution, s') :=
  valX_total hp.guard hlt

/-- `PrivValFxp(literal)` -/
theorem C14_mk_exact {lit : Val} (h : mkVal .privx lit s = .ok (v, s')) :
    ∃ x, v = .fxp x ∧ x.value = rep s.resolution lit := by
  obtain ⟨-, x, hv, hx, -⟩ := mkVal_privx_val h
  exact ⟨x, hv, hx⟩

theorem C14_rep_cases (r : Nat) (c : Int) (m : Int) (e : Nat) (y : LinComb) :
    rep r (.int c) = c * 2 ^ r ∧ rep r (.flt m e) = scaleFlt m e r ∧ rep r (.lc y) = y.value * 2 ^ r ∧
    rep r (.lcb y) = y.value * 2 ^ r ∧ rep r (.fxp y) = y.value := ⟨rfl, rfl, rfl, rfl, rfl⟩

/-- RECORDED DEVIATION (C14-lincomb-lt-fxp), general form: with an integer secret `a` on the LEFT,
`a < x` is computed as `(a+1)·2^r ≤ rep x`, not as `a·2^r < rep x` -/
theorem C14_lincomb_lt_fxp_computes {a : LinComb} (hp : Plain s)
    (h : cmpV .lt (.lc a) (.fxp x) s = .ok (v, s')) :
    ∃ r, v = .lcb r ∧ r.value = if (a.value + 1) * 2 ^ s.resolution ≤ x.value then 1 else 0 :=
  cmpLV_lt_fxp_val hp.guard hp.ign h
end

/-- closed counterexample: resolution 8, `PrivVal(2) < PrivValFxp(2.5)` (representation 640)
evaluates to 0 although `2 < 2.5` -/
theorem C14_cex_lincomb_lt_fxp :
    (match (do let a ← privVal 2; let x ← mkVal .privx (.flt 5 1); cmpV .lt (.lc a) x) (St.init 97 8 8) with
     | .ok (.lcb r, _) => r.value == 0 | _ => false) = true := by decide +kernel

/-- the same comparison written with the fixed-point value on the left is right -/
theorem C14_cex_lincomb_lt_fxp_mirror :
    (match (do let a ← privVal 2; let x ← mkVal .privx (.flt 5 1); cmpV .gt x (.lc a)) (St.init 97 8 8) with
     | .ok (.lcb r, _) => r.value == 1 | _ => false) = true := by decide +kernel

/-! ## non-vacuity -/
/-- `2.5 * 1.5 = 3.75` (960 at resolution 8); `2.5 / 1.5 = ⌊640·256/384⌋ = 426`;
`PrivValFxp(2.5)` is represented by 640 -/
example :
    (match (do let x ← mkVal .privx (.flt 5 1); let y ← mkVal .privx (.flt 3 1); mulV x y) (St.init 97 16 8) with
     | .ok (.fxp r, _) => r.value == 960 | _ => false) = true ∧
    (match (do let x ← mkVal .privx (.flt 5 1); let y ← mkVal .privx (.flt 3 1); truedivV x y) (St.init 97 24 8) with
     | .ok (.fxp r, _) => r.value == 426 | _ => false) = true ∧
    (match mkVal .privx (.flt 5 1) (St.init 97 8 8) with
     | .ok (.fxp r, _) => r.value == 640 | _ => false) = true := by
  refine ⟨by decide +kernel, by decide +kernel, by decide +kernel⟩

example : Plain (St.init 97 8 8) := ⟨rfl, rfl⟩

end Pysnark
