import PysnarkModel.Lemmas.FxpValues
import PysnarkModel.Gen.Api
import PysnarkModel.Lemmas.FxpRunProg
import PysnarkModel.Spec.R1CS
/-!
# C14 — fixed-point operations equal exact scaled-integer arithmetic

At resolution `r = s.resolution` the fixed-point number `v` is represented by the integer `v·2^r`
(`Val.fxp x`, `x.value` is the representation).  `rep r b` is the representation of an operand `b`
of any accepted kind: `c·2^r` for the int `c`, `int(f·2^r)` (truncation, `scaleFlt`) for the float
`f = m/2^e`, `y.value·2^r` for an integer or boolean secret, `y.value` for a fixed-point secret.

Every statement is: if the model function returns `.ok`, the representation of the result is the
stated integer expression of the representations of the operands (`Int.fdiv` = floor division,
`Int.fmod` = Python's `%`).  Hypotheses `Plain s` (no guard, errors not suppressed) appear only
where the code consults them.
-/
namespace Pysnark

section
variable {s s' : St} {x : LinComb} {o v : Val}

/-- `x + other` : the sum of the representations (exact) -/
theorem C14_add_exact (h : addXV x o s = .ok (v, s')) :
    ∃ z, v = .fxp z ∧ z.value = x.value + rep s.resolution o := (addXV_val h).2

/-- `x - other` : the difference of the representations (exact) -/
theorem C14_sub_exact (h : subV (.fxp x) o s = .ok (v, s')) :
    ∃ z, v = .fxp z ∧ z.value = x.value - rep s.resolution o := (subXV_val h).2

/-- `-x` -/
theorem C14_neg_exact (h : negV (.fxp x) s = .ok (v, s')) :
    ∃ z, v = .fxp z ∧ z.value = -x.value := (negXV_val h).2

/-- `x * other`: exact for an integer (plain or secret) factor; `⌊a·b / 2^r⌋` on representations
for a fixed-point or float factor -/
theorem C14_mul_exact (h : mulXV x o s = .ok (v, s')) :
    ∃ z, v = .fxp z ∧ z.value = mulXSem s.resolution x.value o := (mulXV_val h).2

theorem C14_mul_cases (a : Int) (r : Nat) (c : Int) (y : LinComb) (m : Int) (e : Nat) :
    mulXSem r a (.int c) = a * c ∧ mulXSem r a (.lc y) = a * y.value ∧
    mulXSem r a (.fxp y) = Int.fdiv (a * y.value) (2 ^ r) ∧
    mulXSem r a (.flt m e) = Int.fdiv (a * scaleFlt m e r) (2 ^ r) := ⟨rfl, rfl, rfl, rfl⟩

/-- `x / other`: `⌊a·2^r / b⌋` on representations (for an int divisor `c`: `⌊a / c⌋`) -/
theorem C14_truediv_exact {q : LinComb} (h : truedivXV x o s = .ok (some q, s')) :
    q.value = truedivXSem s.resolution x.value o := (truedivXV_val h).2

theorem C14_truediv_cases (a : Int) (r : Nat) (c : Int) (y : LinComb) (m : Int) (e : Nat) :
    truedivXSem r a (.int c) = Int.fdiv a c ∧
    truedivXSem r a (.int c) = Int.fdiv (a * 2 ^ r) (c * 2 ^ r) ∧
    truedivXSem r a (.lc y) = Int.fdiv (a * 2 ^ r) (y.value * 2 ^ r) ∧
    truedivXSem r a (.fxp y) = Int.fdiv (a * 2 ^ r) y.value ∧
    truedivXSem r a (.flt m e) = Int.fdiv (a * 2 ^ r) (scaleFlt m e r) :=
  ⟨rfl, (fdiv_mul_pow a c r).symm, rfl, rfl, rfl⟩

/-- `divmod(x, other)`, `//`, `%`: the quotient is the floor quotient of the representations,
rescaled; the remainder is Python's `%` of the representations -/
theorem C14_divmod_exact {qr : LinComb × LinComb} (h : divmodXV x o s = .ok (some qr, s')) :
    qr.1.value = Int.fdiv x.value (rep s.resolution o) * 2 ^ s.resolution ∧
      qr.2.value = Int.fmod x.value (rep s.resolution o) := (divmodXV_val h).2

/-- comparisons: 0/1 according to the order of the representations … -/
theorem C14_cmp_exact {op : Cmp} (hp : Plain s) (h : cmpV op (.fxp x) o s = .ok (v, s')) :
    ∃ r, v = .lcb r ∧ r.value = cmpSem op x.value (rep s.resolution o) :=
  (cmpXV_val hp.guard hp.ign h).2

/-- … which is the order of the represented numbers -/
theorem C14_cmp_represented (r : Nat) (a b : Int) :
    (a < b ↔ (a : ℚ) / 2 ^ r < (b : ℚ) / 2 ^ r) ∧ (a ≤ b ↔ (a : ℚ) / 2 ^ r ≤ (b : ℚ) / 2 ^ r) ∧
    (a = b ↔ (a : ℚ) / 2 ^ r = (b : ℚ) / 2 ^ r) := cmp_rep_iff r a b

/-- `x.val()` returns the float `representation / 2^r` (exactly, below `2^53`) -/
theorem C14_val_exact {args : List Val} (h : callMeth .val (.fxp x) args s = .ok (v, s')) :
    v = .flt x.value s.resolution ∧ x.value.natAbs < 2 ^ 53 := (valX_val h).2

theorem C14_val_total {args : List Val} (hp : Plain s) (hlt : x.value.natAbs < 2 ^ 53) :
    ∃ s', callMeth .val (.fxp x) args s = .ok (.flt x.value s.resolution, s') :=
  valX_total hp.guard hlt

/-- `PrivValFxp(literal)` -/
theorem C14_mk_exact {lit : Val} (h : mkVal .privx lit s = .ok (v, s')) :
    ∃ x, v = .fxp x ∧ x.value = rep s.resolution lit := by
  obtain ⟨-, x, hv, hx, -⟩ := mkVal_privx_val h
  exact ⟨x, hv, hx⟩

theorem C14_rep_cases (r : Nat) (c : Int) (m : Int) (e : Nat) (y : LinComb) :
    rep r (.int c) = c * 2 ^ r ∧ rep r (.flt m e) = scaleFlt m e r ∧ rep r (.lc y) = y.value * 2 ^ r ∧
    rep r (.lcb y) = y.value * 2 ^ r ∧ rep r (.fxp y) = y.value := ⟨rfl, rfl, rfl, rfl, rfl⟩

/-- **comparisons, any operand order** (repaired finding C14-lincomb-strict-compare-fxp: no
exclusion any more).  With at least one fixed-point operand — fixed point on the left, or an integer
secret / int / float on the left and the fixed point on the right — all six comparisons return 0/1
according to the order of the representations `rep a`, `rep b` … -/
theorem C14_cmp_exact_any {op : Cmp} {a b : Val} (hp : Plain s) (hf : (a.isFxp || b.isFxp) = true)
    (h : cmpV op a b s = .ok (v, s')) :
    ∃ r, v = .lcb r ∧ r.value = cmpSem op (rep s.resolution a) (rep s.resolution b) :=
  (fx_cmpV_fxp_val hp hf h).2

/-- … in particular with an integer secret `a` on the LEFT of a fixed-point `x`, for `<` and `>` as
well: the order of `a·2^r` and the representation of `x` -/
theorem C14_cmp_lincomb_left_exact {op : Cmp} {a : LinComb} (hp : Plain s)
    (h : cmpV op (.lc a) (.fxp x) s = .ok (v, s')) :
    ∃ r, v = .lcb r ∧ r.value = cmpSem op (a.value * 2 ^ s.resolution) x.value :=
  (fx_cmpV_fxp_val (a := .lc a) (b := .fxp x) hp rfl h).2

/-- … which by `C14_cmp_represented` is the order of the represented NUMBERS: `a < x` returns 1
exactly when the integer `a` is below the rational `x.value / 2^r` (likewise `a > x`) -/
theorem C14_lincomb_lt_fxp_represented {a : LinComb} (hp : Plain s)
    (h : cmpV .lt (.lc a) (.fxp x) s = .ok (v, s')) :
    ∃ r, v = .lcb r ∧ (r.value = 0 ∨ r.value = 1) ∧
      (r.value = 1 ↔ (a.value : ℚ) < (x.value : ℚ) / 2 ^ s.resolution) := by
  obtain ⟨r, rfl, vr⟩ := C14_cmp_lincomb_left_exact hp h
  refine ⟨r, rfl, ?_, ?_⟩
  · rw [vr]; simp only [cmpSem]; split <;> simp
  · have key := (C14_cmp_represented s.resolution (a.value * 2 ^ s.resolution) x.value).1
    have hpos : (0 : ℚ) < 2 ^ s.resolution := by positivity
    have hq : ((a.value * 2 ^ s.resolution : Int) : ℚ) / 2 ^ s.resolution = (a.value : ℚ) := by
      push_cast; field_simp
    rw [hq] at key
    rw [vr]; simp only [cmpSem]
    constructor
    · intro h1
      by_contra hc
      rw [← key] at hc
      rw [if_neg hc] at h1
      exact absurd h1 (by norm_num)
    · intro h1; rw [if_pos (key.mpr h1)]

theorem C14_lincomb_gt_fxp_represented {a : LinComb} (hp : Plain s)
    (h : cmpV .gt (.lc a) (.fxp x) s = .ok (v, s')) :
    ∃ r, v = .lcb r ∧ (r.value = 0 ∨ r.value = 1) ∧
      (r.value = 1 ↔ (x.value : ℚ) / 2 ^ s.resolution < (a.value : ℚ)) := by
  obtain ⟨r, rfl, vr⟩ := C14_cmp_lincomb_left_exact hp h
  refine ⟨r, rfl, ?_, ?_⟩
  · rw [vr]; simp only [cmpSem]; split <;> simp
  · have key := (C14_cmp_represented s.resolution x.value (a.value * 2 ^ s.resolution)).1
    have hpos : (0 : ℚ) < 2 ^ s.resolution := by positivity
    have hq : ((a.value * 2 ^ s.resolution : Int) : ℚ) / 2 ^ s.resolution = (a.value : ℚ) := by
      push_cast; field_simp
    rw [hq] at key
    rw [vr]; simp only [cmpSem, gt_iff_lt]
    constructor
    · intro h1
      by_contra hc
      rw [← key] at hc
      rw [if_neg hc] at h1
      exact absurd h1 (by norm_num)
    · intro h1; rw [if_pos (key.mpr h1)]

/-- how it is reached: `LinComb.__lt__` / `__gt__` return `NotImplemented` for a `LinCombFxp`
operand, and Python calls the reflected `LinCombFxp.__gt__` / `__lt__` -/
theorem C14_lincomb_strict_compare_reflected {op : Cmp} (hs : op.strict = true) (a x : LinComb) :
    cmpV op (.lc a) (.fxp x) =
      (do let z ← ensurefxp (.lc a); let r ← cmpLL op.mirror x z; pure (Val.lcb r)) :=
  cmpV_lc_fxp_strict hs a x

/-- why: the method body of `LinComb.__lt__` (`other - self - 1`, then `check_positive`) on a
fixed-point operand subtracts the fixed-point 1.0, i.e. `2^r` units: it would compute
`(a+1)·2^r ≤ rep x`, not `a·2^r < rep x` (the slip behind the repaired finding) -/
theorem C14_lincomb_lt_method_body_off_by_one_unit {a : LinComb} (hp : Plain s)
    (h : cmpLV .lt a (.fxp x) s = .ok (v, s')) :
    ∃ r, v = .lcb r ∧ r.value = if (a.value + 1) * 2 ^ s.resolution ≤ x.value then 1 else 0 :=
  cmpLV_lt_fxp_val hp.guard hp.ign h
end

/-- closed evaluation by the kernel; a failing instance reports quickly (no elaborator re-evaluation) -/
macro "fxdec" : tactic =>
  `(tactic| first
    | decide +kernel
    | fail "fxdec: the kernel does not evaluate this closed proposition to `true`")

/-- **regression, closed** (the former counterexample `C14_cex_lincomb_lt_fxp`): at resolution 8,
`PrivVal(2) < PrivValFxp(2.5)` (representation 640) is 1 -/
theorem C14_lincomb_lt_fxp_regression :
    (match (do let a ← privVal 2; let x ← mkVal .privx (.flt 5 1); cmpV .lt (.lc a) x) (St.init 97 8 8) with
     | .ok (.lcb r, _) => r.value == 1 | _ => false) = true := by fxdec

/-- `mkI(a) op mkX(m / 2^e)` at resolution 8 on the executable model: the 0/1 answer -/
def cmpLeftDemo (mkI : Int → M LinComb) (k : Kind) (op : Cmp) (a m : Int) (e : Nat) : Option Int :=
  match (do let a ← mkI a; let x ← mkVal k (.flt m e); cmpV op (.lc a) x) (St.init 97 8 8) with
  | .ok (.lcb r, _) => some r.value
  | _ => none

/-- … on both sides of and at the boundary, `<` and `>`, secret and public integer on the left:
`2 < 2.0` is 0, `2 < 2 + 2^-8` is 1, `2 > 2 - 2^-8` is 1, `2 > 2.0` is 0, `3 > 2.5` is 1,
`2 > 2.5` is 0, `PubVal(2) < PubValFxp(2.5)` is 1, `PubVal(3) < PubValFxp(2.5)` is 0 -/
theorem C14_lincomb_strict_compare_regression :
    cmpLeftDemo privVal .privx .lt 2 2 0 = some 0 ∧ cmpLeftDemo privVal .privx .lt 2 513 8 = some 1 ∧
    cmpLeftDemo privVal .privx .gt 2 511 8 = some 1 ∧ cmpLeftDemo privVal .privx .gt 2 2 0 = some 0 ∧
    cmpLeftDemo privVal .privx .gt 3 5 1 = some 1 ∧ cmpLeftDemo privVal .privx .gt 2 5 1 = some 0 ∧
    cmpLeftDemo pubVal .pubx .lt 2 5 1 = some 1 ∧ cmpLeftDemo pubVal .pubx .lt 3 5 1 = some 0 := by
  refine ⟨?_, ?_, ?_, ?_, ?_, ?_, ?_, ?_⟩ <;> fxdec

/-- the same comparison written with the fixed-point value on the left gives the same answer -/
theorem C14_lincomb_lt_fxp_mirror_regression :
    (match (do let a ← privVal 2; let x ← mkVal .privx (.flt 5 1); cmpV .gt x (.lc a)) (St.init 97 8 8) with
     | .ok (.lcb r, _) => r.value == 1 | _ => false) = true := by fxdec

/-! ## non-vacuity -/
/-- `2.5 * 1.5 = 3.75` (960 at resolution 8); `2.5 / 1.5 = ⌊640·256/384⌋ = 426`;
`PrivValFxp(2.5)` is represented by 640 -/
example :
    (match (do let x ← mkVal .privx (.flt 5 1); let y ← mkVal .privx (.flt 3 1); mulV x y) (St.init 97 16 8) with
     | .ok (.fxp r, _) => r.value == 960 | _ => false) = true ∧
    (match (do let x ← mkVal .privx (.flt 5 1); let y ← mkVal .privx (.flt 3 1); truedivV x y) (St.init 97 24 8) with
     | .ok (.fxp r, _) => r.value == 426 | _ => false) = true ∧
    (match mkVal .privx (.flt 5 1) (St.init 97 8 8) with
     | .ok (.fxp r, _) => r.value == 640 | _ => false) = true := by
  refine ⟨by decide +kernel, by decide +kernel, by decide +kernel⟩

example : Plain (St.init 97 8 8) := ⟨rfl, rfl⟩

/-! ## program level: composition over whole programs (`Spec/FxpProg.lean`)

The reference interpreter `fxRun` runs the instruction language of `Model/Prog.lean` on EXACT
RATIONALS: an integer-kind register holds a Python int, a fixed-point register holds the
represented rational, a float literal is converted as `add_scaling` does (truncation of `f·2^r`),
fixed-point × fixed-point and every quotient are floored to the grid `2^-r`, `//` and `%` are
Python's on the rationals, comparisons are those of the rationals, `val()` returns the rational,
`x << n` / `x >> n` multiply / divide by `2^n` (flooring to the grid), a zero divisor and a
negative shift count are `raises`.  (The former exclusions `lincombStrictCompareFxp` and
`negativeShift` are gone: both findings were repaired in /repo and the model follows.)

`FxpFragment s0 prog` (decidable, a replay of the run) excludes by name (`FxExcl`):
`guardRegion` (C07's subject), `ignoreErrors` (`set ign`), `resAfterFxp` (`set res` while a register
holds a fixed-point value: the library does not rescale), `secretLiteral`,
`secretShift` (C05-secret-exponent-mod-p), `fxpPow`, `operandKind`, `boolOperand`, `integerBitOp`,
`unaryOther`, `otherMethod`, `containerSelect`, `secretIndex` (all: outside the statement of C14,
subjects of C03/C05/C09/C15/C16).
-/

/-- **C14 for whole programs.**  For every modulus `p` (in particular every prime), bit length,
initial resolution, every program of the fragment and every run that completes: the reference run
completes as well (it neither `raises` nor leaves the statement), and at the resolution `r` in
force at the end every register is related to its reference value (`fxRelL`): the representation
of a fixed-point register is exactly (reference rational)·2^r, an integer or boolean register
carries the reference integer, a float the reference rational, containers element-wise. -/
theorem C14_program (p : Int) (bl res : Nat) (prog : List Instr)
    (hfrag : FxpFragment (St.init p bl res) prog)
    (out : Out) (hout : run (St.init p bl res) prog = out) (herr : out.err = none) :
    ∃ refs, fxRun res prog = .val refs ∧ fxRelL out.st.resolution out.regs refs = true :=
  fx_run_fx p bl res prog hfrag out hout herr

/-- the relation read at one fixed-point register: representation = (reference rational)·2^r -/
theorem C14_program_fxp {r : Nat} {regs : List Val} {refs : List FxV}
    (h : fxRelL r regs refs = true) {i : Nat} {x : LinComb} (hx : regs[i]? = some (.fxp x)) :
    ∃ q : ℚ, refs[i]? = some (.fx q) ∧ (x.value : ℚ) = q * 2 ^ r := by
  obtain ⟨w, hw, hr⟩ := fxRelL_at h hx
  obtain ⟨q, rfl, hq⟩ := fxRel_fxp_iff.mp hr
  exact ⟨q, hw, hq⟩

/-- … at an integer register, a boolean register, a float returned by `val()` -/
theorem C14_program_int {r : Nat} {regs : List Val} {refs : List FxV}
    (h : fxRelL r regs refs = true) {i : Nat} :
    (∀ x, regs[i]? = some (.lc x) → refs[i]? = some (.sint x.value)) ∧
    (∀ x, regs[i]? = some (.lcb x) → refs[i]? = some (.sbool x.value) ∧ (x.value = 0 ∨ x.value = 1)) ∧
    (∀ c, regs[i]? = some (.int c) → refs[i]? = some (.int c)) ∧
    (∀ m e, regs[i]? = some (.flt m e) → refs[i]? = some (.flt ((m : ℚ) / 2 ^ e))) := by
  refine ⟨fun x hx => ?_, fun x hx => ?_, fun c hx => ?_, fun m e hx => ?_⟩
  · obtain ⟨w, hw, hr⟩ := fxRelL_at h hx
    rw [fxRel_lc_iff.mp hr] at hw; exact hw
  · obtain ⟨w, hw, hr⟩ := fxRelL_at h hx
    obtain ⟨rfl, hb⟩ := fxRel_lcb_iff.mp hr
    exact ⟨hw, hb⟩
  · obtain ⟨w, hw, hr⟩ := fxRelL_at h hx
    rw [fxRel_int_iff.mp hr] at hw; exact hw
  · obtain ⟨w, hw, hr⟩ := fxRelL_at h hx
    rw [fxRel_flt_iff.mp hr] at hw; exact hw

/-- `PrivVal(2) < PrivValFxp(2.5)` as a program (the former counterexample program) -/
def fxCexProg : List Instr :=
  [.lit (.int 2), .mk .priv 0, .lit (.flt 5 1), .mk .privx 2, .bin .lt 1 3]

/-- **regression at program level** (was `C14_cex_program_lincomb_lt_fxp`): the closed program
`PrivVal(2) < PrivValFxp(2.5)` at resolution 8 completes, is INSIDE `FxpFragment` (no exclusion is
left for it), and its result is the reference's: 1 -/
theorem C14_program_lincomb_lt_fxp_regression :
    (run (St.init 97 8 8) fxCexProg).err = none ∧
    FxpFragment (St.init 97 8 8) fxCexProg ∧
    fxFirstExcl fxCexProg 0 [] [] (St.init 97 8 8) = none ∧
    (match (run (St.init 97 8 8) fxCexProg).regs[4]?, fxRun 8 fxCexProg with
     | some (Val.lcb r), FxRes.val refs =>
       r.value == 1 && (match refs[4]? with | some (FxV.sbool 1) => true | _ => false)
     | _, _ => false) = true := by
  refine ⟨?_, ?_, ?_, ?_⟩ <;> fxdec

/-- … and `C14_program` applies to it: its hypotheses hold and its conclusion is the agreement -/
example : ∃ refs, fxRun 8 fxCexProg = .val refs ∧
    fxRelL (run (St.init 97 8 8) fxCexProg).st.resolution (run (St.init 97 8 8) fxCexProg).regs refs = true :=
  C14_program 97 8 8 fxCexProg C14_program_lincomb_lt_fxp_regression.2.1 _ rfl
    C14_program_lincomb_lt_fxp_regression.1

/-- a negative public shift count on a fixed-point value raises in the model and in the reference
(repaired finding C05-rshift-negative; the exclusion `negativeShift` is gone): the program is in the
fragment, the traced run stops with `ValueError` at the shift, the reference with `raises` -/
example :
    FxpFragment (St.init 97 8 8) [.lit (.flt 5 1), .mk .privx 0, .lit (.int (-1)), .bin .rshift 1 2] ∧
    (run (St.init 97 8 8) [.lit (.flt 5 1), .mk .privx 0, .lit (.int (-1)), .bin .rshift 1 2]).err =
      some (.value, 3) ∧
    (match fxRun 8 [.lit (.flt 5 1), .mk .privx 0, .lit (.int (-1)), .bin .rshift 1 2] with
     | FxRes.raises => true | _ => false) = true := by
  refine ⟨?_, ?_, ?_⟩ <;> fxdec

/-! ### non-vacuity of `C14_program` -/

/-- the prime `2^61 - 1` -/
def fxP61 : Int := 2 ^ 61 - 1

/-- 31 instructions at resolution 8, bit length 40, over `p = 2^61 - 1`, mixing plain ints, float
literals, integer secrets and fixed-point secrets in both operand orders:
`+ - * / // % < <= >`, selection, `val()`, `>> <<`, unary `-`, `abs`, a container and indexing -/
def fxDemoProg : List Instr := [
  .lit (.flt 5 1),        -- r0  = 2.5
  .mk .privx 0,           -- r1  = PrivValFxp(2.5)            rep 640
  .lit (.flt 3 1),        -- r2  = 1.5
  .mk .pubx 2,            -- r3  = PubValFxp(1.5)             rep 384
  .lit (.int 3),          -- r4  = 3
  .mk .priv 4,            -- r5  = PrivVal(3)
  .bin .add 1 3,          -- r6  = r1 + r3           = 4
  .bin .sub 6 2,          -- r7  = r6 - 1.5 (float)  = 2.5
  .bin .mul 1 3,          -- r8  = r1 * r3           = 3.75   rep 960
  .bin .mul 8 5,          -- r9  = r8 * PrivVal(3)   = 11.25  (exact)
  .bin .truediv 1 3,      -- r10 = 2.5 / 1.5         = 213/128 (⌊426.67⌋/256)
  .bin .truediv 4 3,      -- r11 = 3 (int) / r3      = 2
  .bin .floordiv 9 3,     -- r12 = 11.25 // 1.5      = 7
  .bin .mod 9 3,          -- r13 = 11.25 % 1.5       = 0.75
  .bin .lt 10 2,          -- r14 = r10 < 1.5 (float) = 0
  .bin .le 5 1,           -- r15 = PrivVal(3) <= 2.5 = 0   (integer secret on the left: <= is right)
  .bin .gt 1 4,           -- r16 = 2.5 > 3 (int)     = 0
  .ite 14 1 5,            -- r17 = if r14 then r1 else PrivVal(3)  = 3 (as fixed point)
  .call .val 17 [],       -- r18 = r17.val()         = 3.0
  .lit (.int 2),          -- r19 = 2
  .bin .rshift 9 19,      -- r20 = r9 >> 2           = 45/16
  .bin .lshift 1 19,      -- r21 = r1 << 2           = 10
  .un .neg 13,            -- r22 = -0.75
  .un .abs 22,            -- r23 = 0.75
  .lit (.flt (-37) 4),    -- r24 = -2.3125
  .mk .privx 24,          -- r25 = PrivValFxp(-2.3125)        rep -592
  .bin .mul 25 2,         -- r26 = r25 * 1.5 (float) = -111/32 (⌊-3.46875·256⌋/256)
  .list [1, 5, 14],       -- r27 = [r1, r5, r14]
  .idx 27 0,              -- r28 = r27[0]            = 2.5
  .bin .sub 4 25,         -- r29 = 3 (int) - r25     = 85/16
  .bin .ge 29 7]          -- r30 = r29 >= r7         = 1

/-- the demonstration program is in the fragment, its run completes, and the reference values are
the ones listed (so the hypotheses of `C14_program` are satisfiable and its conclusion says
something) -/
example : FxpFragment (St.init fxP61 40 8) fxDemoProg ∧
    (run (St.init fxP61 40 8) fxDemoProg).err = none := by
  fxdec

/-- reference values of the fixed-point registers of the demonstration program, as exact rationals -/
example :
    (match fxRun 8 fxDemoProg with
     | .val refs =>
       refs.filterMap (fun w => match w with | .fx q => some q | _ => Option.none) ==
         [5/2, 3/2, 4, 5/2, 15/4, 45/4, 213/128, 2, 7, 3/4, 3, 45/16, 10, -3/4, 3/4, -37/16, -111/32,
          5/2, 85/16] &&
       refs.filterMap (fun w => match w with | .sbool b => some b | _ => Option.none) == [0, 0, 0, 1] &&
       refs.filterMap (fun w => match w with | .flt q => some q | _ => Option.none) ==
         [5/2, 3/2, 3, -37/16]
     | _ => false) = true := by
  fxdec

/-- … and the model's registers are related to them (the conclusion of `C14_program`, evaluated) -/
example :
    (match fxRun 8 fxDemoProg with
     | .val refs => fxRelL 8 (run (St.init fxP61 40 8) fxDemoProg).regs refs
     | _ => false) = true := by
  fxdec

/-- the model's representations of the same registers: (reference rational)·2^8 -/
example :
    ((run (St.init fxP61 40 8) fxDemoProg).regs.filterMap
      (fun v => match v with | .fxp x => some x.value | _ => Option.none)) =
      [640, 384, 1024, 640, 960, 2880, 426, 512, 1792, 192, 768, 720, 2560, -192, 192, -592, -888,
       640, 1360] := by
  fxdec

/-- the reference raises on a zero divisor (and the model raises too) -/
example :
    (match fxRun 8 [.lit (.flt 5 1), .mk .privx 0, .lit (.int 0), .mk .privx 2, .bin .truediv 1 3] with
     | FxRes.raises => true | _ => false) = true ∧
    ((run (St.init fxP61 40 8)
      [.lit (.flt 5 1), .mk .privx 0, .lit (.int 0), .mk .privx 2, .bin .truediv 1 3]).err.isSome) = true := by
  fxdec


/-- **API surface pinned** (regenerated from the source on every run, `Gen/Api.lean`): the methods the model of this
property transcribes are exactly the methods the code has.  A method added to the code (say an in-place `__iadd__`, which
Python would prefer over the `__add__` the model knows) or removed from it changes the generated list and this obligation
fails: the tie is then broken by construction and the check runs its extended search. -/
theorem C14_api_surface :
    Gen.api_LinCombFxp = ["__init__", "add_scaling", "remove_scaling", "val", "__repr__", "_ensurefxp", "__add__", "__sub__", "__rsub__", "__mul__", "__truediv__", "__floordiv__", "__mod__", "__divmod__", "__rtruediv__", "__rfloordiv__", "__rmod__", "__neg__", "__lt__", "__le__", "__eq__", "__ne__", "__gt__", "__ge__", "assert_lt", "assert_le", "assert_eq", "assert_ne", "assert_gt", "assert_ge", "__bool__", "__pow__", "__lshift__", "__rshift__", "__pos__", "__abs__", "__int__", "check_positive", "assert_positive", "check_zero", "check_nonzero", "assert_zero", "assert_nonzero", "assert_range"] := rfl

end Pysnark
