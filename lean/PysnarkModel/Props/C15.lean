import PysnarkModel.Lemmas.Array
import PysnarkModel.Gen.Api
import PysnarkModel.Lemmas.OblVal
/-!
# C15 — secret-index array access reads and writes exactly one element

One-dimensional arrays (`pysnark/array.py`, `Array.__getitem__/__setitem__`) whose elements are plain
ints or `LinComb`s (`Val.isNum`); `Val.ival` is the Python-level integer of an element.

* `C15_read` / `C15_write`: with error checks on, an accepted access has its index in range; the read
  returns (a `LinComb` with) the value of the indexed element; the write changes the indexed element
  to the new value and leaves the value of every other element alone.  (No hypothesis on the guard
  is needed for these value statements.)
* `C15_oob_raises`: an out-of-range secret index raises `IndexError`; `C15_plain_index`: plain-int
  indices follow Python list semantics (negative indices count from the end).
* `C15_oob_unsat`: in-circuit, for ANY assignment satisfying the emitted constraints the index
  evaluates to some position of the array — an out-of-range index cannot be proven — and
  `C15_read_sound`: the result then evaluates to the element at that position.
* `C15_oblivious`: the constraints emitted do not depend on the index (nor on any value).
-/
namespace Pysnark

/-- **read**: index in range, result is a `LinComb` carrying the indexed element's value -/
theorem C15_read {arr : List Val} {it : LinComb} {r : Val} {s s' : St}
    (hi : s.ignoreErrors = false) (harr : ∀ v ∈ arr, v.isNum = true)
    (h : arrayGet arr (.lc it) s = .ok (r, s')) :
    0 ≤ it.value ∧ it.value < arr.length ∧ (∃ y, r = .lc y) ∧
    ∃ (hj : it.value.toNat < arr.length), r.ival = arr[it.value.toNat].ival :=
  arrayGet_value hi harr h

/-- **write**: same length; position `it.value` takes the value of `v`; all others keep theirs -/
theorem C15_write {arr arr' : List Val} {it : LinComb} {v : Val} {s s' : St}
    (hi : s.ignoreErrors = false) (harr : ∀ a ∈ arr, a.isNum = true) (hv : v.isNum = true)
    (h : arraySet arr (.lc it) v s = .ok (arr', s')) :
    0 ≤ it.value ∧ it.value < arr.length ∧ arr'.length = arr.length ∧
    ∀ (j : Nat) (h1 : j < arr.length) (h2 : j < arr'.length),
      arr'[j].isNum = true ∧ arr'[j].ival = if (j : Int) = it.value then v.ival else arr[j].ival :=
  arraySet_value hi harr hv h

/-- **out-of-range secret index raises `IndexError`** (reads and writes) -/
theorem C15_oob_raises {arr : List Val} {it : LinComb} {v : Val} {s : St} (hi : s.ignoreErrors = false)
    (h : it.value < 0 ∨ it.value ≥ arr.length) :
    arrayGet arr (.lc it) s = .error .index ∧ arraySet arr (.lc it) v s = .error .index :=
  ⟨arrayGet_oob hi h, arraySet_oob hi h⟩

/-- plain-int indices: Python list semantics (`0 ≤ i < n` ↦ `i`, `-n ≤ i < 0` ↦ `n + i`, otherwise
`IndexError`); the state is not touched -/
theorem C15_plain_index {arr : List Val} {i : Int} {v : Val} {s : St} :
    (0 ≤ i ∧ i < arr.length → pyIndex arr.length i = some i.toNat) ∧
    (i < 0 ∧ -i ≤ arr.length → pyIndex arr.length i = some (arr.length - (-i).toNat)) ∧
    (i ≥ arr.length ∨ i < -(arr.length : Int) → pyIndex arr.length i = Option.none) ∧
    (∀ k, pyIndex arr.length i = some k → ∀ (hk : k < arr.length),
      arrayGet arr (.int i) s = .ok (arr[k], s) ∧ arraySet arr (.int i) v s = .ok (arr.set k v, s)) ∧
    (pyIndex arr.length i = Option.none →
      arrayGet arr (.int i) s = .error .index ∧ arraySet arr (.int i) v s = .error .index) := by
  obtain ⟨a, b, c⟩ := pyIndex_spec arr.length i
  refine ⟨a, b, c, ?_, ?_⟩
  · intro k hk hlt
    exact ⟨arrayGet_plain.1 k hk hlt, arraySet_plain.1 k hk⟩
  · intro hk
    exact ⟨arrayGet_plain.2 hk, arraySet_plain.2 hk⟩

section sound
variable {p : ℕ} [Fact p.Prime] {w : Wire → Int}

/-- **an out-of-range index cannot be proven**: any assignment `w` (with `w one = 1`) satisfying
the constraints emitted by the selector computation of `Array.__getitem__/__setitem__` evaluates the
index to some `i < n`; if moreover `n ≤ p` the selectors are the indicator vector of `i` -/
theorem C15_oob_unsat {it : LinComb} {n : Nat} {s s' : St} {ixs : List LinComb} (hp : s.p = p)
    (hg : s.guard = none) (hone : s.one = oneSafe) (hit : it.lc.WF) (h1 : w .one = 1)
    (h : arrayIxs it n s = .ok (ixs, s')) (hw : NewSat s s' w) :
    ∃ i : Nat, i < n ∧ ev p w it.lc = (i : ZMod p) ∧
      (n ≤ p → ∀ (k : Nat) (hk : k < ixs.length), ev p w ixs[k].lc = if k = i then 1 else 0) :=
  arrayIxs_sound hp hg hone hit h1 h hw

/-- **the value read is the indexed element, in-circuit** (arrays of `LinComb`s) -/
theorem C15_read_sound {arr : List Val} {it : LinComb} {r : Val} {s s' : St} (hp : s.p = p)
    (hg : s.guard = none) (hone : s.one = oneSafe) (hit : it.lc.WF) (harr : ∀ v ∈ arr, IsLcWF v)
    (hn : arr.length ≤ p) (h1 : w .one = 1)
    (h : arrayGet arr (.lc it) s = .ok (r, s')) (hw : NewSat s s' w) :
    ∃ (i : Nat) (hi : i < arr.length) (y : LinComb), ev p w it.lc = (i : ZMod p) ∧ r = .lc y ∧
      ev p w y.lc = ev p w arr[i].lcOf :=
  arrayGet_sound hp hg hone hit harr hn h1 h hw

end sound

/-- **obliviousness**: two accesses to arrays of the same shape with indices of the same shape (any
values), from states of the same shape, emit the same constraints and return values of the same shape -/
theorem C15_oblivious {arr1 arr2 : List Val} (harr : Forall2 ValRel arr1 arr2) {it1 it2 : Val}
    (hit : ValRel it1 it2) {v1 v2 : Val} (hv : ValRel v1 v2) :
    Obl ValRel (arrayGet arr1 it1) (arrayGet arr2 it2) ∧
    Obl (Forall2 ValRel) (arraySet arr1 it1 v1) (arraySet arr2 it2 v2) :=
  ⟨arrayGet_obl harr hit, arraySet_obl harr hit hv⟩

/-! ## non-vacuity: a 3-element array `[10, PrivVal(20), PrivVal(30)]`, secret index 1 -/

def exArr : M (List Val × LinComb) := do
  let a ← privVal 20
  let b ← privVal 30
  let i ← privVal 1
  pure ([.int 10, .lc a, .lc b], i)

/-- read at the secret index: value 20; 6 selector constraints + 1 sum constraint + 2 products -/
example : (match (do let (arr, i) ← exArr; arrayGet arr (.lc i)) (St.init 97 8 8) with
    | .ok (r, s1) => r.ival == 20 && s1.cons.length == 9 &&
        s1.cons.all (fun c => (LC.eval s1.assign c.1 * LC.eval s1.assign c.2.1 - LC.eval s1.assign c.2.2) % 97 == 0)
    | _ => false) = true := by decide +kernel

/-- write 77 at the secret index: values become [10, 77, 30] -/
example : (match (do let (arr, i) ← exArr; arraySet arr (.lc i) (.int 77)) (St.init 97 8 8) with
    | .ok (arr', s1) => arr'.map Val.ival == [10, 77, 30] &&
        s1.cons.all (fun c => (LC.eval s1.assign c.1 * LC.eval s1.assign c.2.1 - LC.eval s1.assign c.2.2) % 97 == 0)
    | _ => false) = true := by decide +kernel

/-- out-of-range secret index 3 raises IndexError -/
example : (match (do let (arr, _) ← exArr; let j ← privVal 3; arrayGet arr (.lc j)) (St.init 97 8 8) with
    | .error .index => true | _ => false) = true := by decide +kernel

/-- with error checks off the out-of-range access completes but the recorded witness violates the
emitted constraints (the selectors sum to 0, not 1) -/
example : (match (do let (arr, _) ← exArr; let j ← privVal 3; arrayGet arr (.lc j))
      { St.init 97 8 8 with ignoreErrors := true } with
    | .ok (_, s1) => !(s1.cons.all (fun c =>
        (LC.eval s1.assign c.1 * LC.eval s1.assign c.2.1 - LC.eval s1.assign c.2.2) % 97 == 0))
    | _ => false) = true := by decide +kernel


/-- **API surface pinned** (regenerated from the source on every run, `Gen/Api.lean`): the methods the model of this
property transcribes are exactly the methods the code has.  A method added to the code (say an in-place `__iadd__`, which
Python would prefer over the `__add__` the model knows) or removed from it changes the generated list and this obligation
fails: the tie is then broken by construction and the check runs its extended search. -/
theorem C15_api_surface :
    Gen.api_array = ["Array.__init__", "Array.__repr__", "Array.__getitem__", "Array.__setitem__", "Array.__sub__", "Array.__add__", "Array.__rmul__", "Array.__if_then_else__", "Array.assert_eq", "Array.joined", "ArrayRow.__init__", "ArrayRow.__setitem__"] := rfl

end Pysnark
