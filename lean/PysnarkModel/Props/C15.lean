import PysnarkModel.Lemmas.Array
import PysnarkModel.Gen.Api
import PysnarkModel.Lemmas.OblVal
import PysnarkModel.Lemmas.Array2DSound
import PysnarkModel.Lemmas.Array2DObl
import PysnarkModel.Lemmas.Array2DHist
import PysnarkModel.Lemmas.Array2DPure
import PysnarkModel.Lemmas.Array2DInvHist
import PysnarkModel.Lemmas.Array2DOblHist
/-!
# C15 — secret-index array access reads and writes exactly one element

One-dimensional arrays (`pysnark/array.py`, `Array.__getitem__/__setitem__`) whose elements are plain
ints or `LinComb`s (`Val.isNum`); `Val.ival` is the Python-level integer of an element.

* `C15_read` / `C15_write`: with error checks on, an accepted access has its index in range; the read
  returns (a `LinComb` with) the value of the indexed element; the write changes the indexed element
  to the new value and leaves the value of every other element alone.  (No hypothesis on the guard
  is needed for these value statements.)
* `C15_oob_raises`: an out-of-range secret index raises `IndexError`; `C15_plain_index`: plain-int
  indices follow Python list semantics (negative indices count from the end).
* `C15_empty_refused` / `C15_empty_refused2`: zero-length arrays and matrices with an empty dimension — every
  index is outside, every element access is refused in both error modes (never a silent return).
* `C15_oob_unsat`: in-circuit, for ANY assignment satisfying the emitted constraints the index
  evaluates to some position of the array — an out-of-range index cannot be proven — and
  `C15_read_sound`: the result then evaluates to the element at that position.
* `C15_oblivious`: the constraints emitted do not depend on the index (nor on any value).
-/
namespace Pysnark

/-- **read**: index in range, result is a `LinComb` carrying the indexed element's value -/
theorem C15_read {arr : List Val} {it : LinComb} {r : Val} {s s' : St}
    (hi : s.ignoreErrors = false) (harr : ∀ v ∈ arr, v.isNum = true)
    (h : arrayGet arr (.lc it) s = .ok (r, s')) :
    0 ≤ it.value ∧ it.value < arr.length ∧ (∃ y, r = .lc y) ∧
    ∃ (hj : it.value.toNat < arr.length), r.ival = arr[it.value.toNat].ival :=
  arrayGet_value hi harr h

/-- **write**: same length; position `it.value` takes the value of `v`; all others keep theirs -/
theorem C15_write {arr arr' : List Val} {it : LinComb} {v : Val} {s s' : St}
    (hi : s.ignoreErrors = false) (harr : ∀ a ∈ arr, a.isNum = true) (hv : v.isNum = true)
    (h : arraySet arr (.lc it) v s = .ok (arr', s')) :
    0 ≤ it.value ∧ it.value < arr.length ∧ arr'.length = arr.length ∧
    ∀ (j : Nat) (h1 : j < arr.length) (h2 : j < arr'.length),
      arr'[j].isNum = true ∧ arr'[j].ival = if (j : Int) = it.value then v.ival else arr[j].ival :=
  arraySet_value hi harr hv h

/-- **out-of-range secret index raises `IndexError`** (reads and writes) -/
theorem C15_oob_raises {arr : List Val} {it : LinComb} {v : Val} {s : St} (hi : s.ignoreErrors = false)
    (h : it.value < 0 ∨ it.value ≥ arr.length) :
    arrayGet arr (.lc it) s = .error .index ∧ arraySet arr (.lc it) v s = .error .index :=
  ⟨arrayGet_oob hi h, arraySet_oob hi h⟩

/-- **zero-length arrays: every secret index is outside, every access is refused** — `IndexError` with the error checks
on; with them off `AttributeError` (`sum([])` is the int `0`, which has no `assert_eq`).  In neither mode is a value
returned or the state changed: there is no silent read or write.  (`C15_oob_raises` covers length 0 in the first mode;
`C15_oob_unsat` is true for `n = 0` because `arrayIxs it 0` never returns: this theorem says so outright.) -/
theorem C15_empty_refused {it : LinComb} {v : Val} {s : St} :
    arrayIxs it 0 s = .error (if s.ignoreErrors then .attribute else .index) ∧
    arrayGet [] (.lc it) s = .error (if s.ignoreErrors then .attribute else .index) ∧
    arraySet [] (.lc it) v s = .error (if s.ignoreErrors then .attribute else .index) :=
  ⟨arrayIxs_empty, arrayGet_empty, arraySet_empty⟩

/-- plain-int indices: Python list semantics (`0 ≤ i < n` ↦ `i`, `-n ≤ i < 0` ↦ `n + i`, otherwise
`IndexError`); the state is not touched -/
theorem C15_plain_index {arr : List Val} {i : Int} {v : Val} {s : St} :
    (0 ≤ i ∧ i < arr.length → pyIndex arr.length i = some i.toNat) ∧
    (i < 0 ∧ -i ≤ arr.length → pyIndex arr.length i = some (arr.length - (-i).toNat)) ∧
    (i ≥ arr.length ∨ i < -(arr.length : Int) → pyIndex arr.length i = Option.none) ∧
    (∀ k, pyIndex arr.length i = some k → ∀ (hk : k < arr.length),
      arrayGet arr (.int i) s = .ok (arr[k], s) ∧ arraySet arr (.int i) v s = .ok (arr.set k v, s)) ∧
    (pyIndex arr.length i = Option.none →
      arrayGet arr (.int i) s = .error .index ∧ arraySet arr (.int i) v s = .error .index) := by
  obtain ⟨a, b, c⟩ := pyIndex_spec arr.length i
  refine ⟨a, b, c, ?_, ?_⟩
  · intro k hk hlt
    exact ⟨arrayGet_plain.1 k hk hlt, arraySet_plain.1 k hk⟩
  · intro hk
    exact ⟨arrayGet_plain.2 hk, arraySet_plain.2 hk⟩

section sound
variable {p : ℕ} [Fact p.Prime] {w : Wire → Int}

/-- **an out-of-range index cannot be proven**: any assignment `w` (with `w one = 1`) satisfying
the constraints emitted by the selector computation of `Array.__getitem__/__setitem__` evaluates the
index to some `i < n`; if moreover `n ≤ p` the selectors are the indicator vector of `i` -/
theorem C15_oob_unsat {it : LinComb} {n : Nat} {s s' : St} {ixs : List LinComb} (hp : s.p = p)
    (hg : s.guard = none) (hone : s.one = oneSafe) (hit : it.lc.WF) (h1 : w .one = 1)
    (h : arrayIxs it n s = .ok (ixs, s')) (hw : NewSat s s' w) :
    ∃ i : Nat, i < n ∧ ev p w it.lc = (i : ZMod p) ∧
      (n ≤ p → ∀ (k : Nat) (hk : k < ixs.length), ev p w ixs[k].lc = if k = i then 1 else 0) :=
  arrayIxs_sound hp hg hone hit h1 h hw

/-- **the value read is the indexed element, in-circuit** (arrays of `LinComb`s) -/
theorem C15_read_sound {arr : List Val} {it : LinComb} {r : Val} {s s' : St} (hp : s.p = p)
    (hg : s.guard = none) (hone : s.one = oneSafe) (hit : it.lc.WF) (harr : ∀ v ∈ arr, IsLcWF v)
    (hn : arr.length ≤ p) (h1 : w .one = 1)
    (h : arrayGet arr (.lc it) s = .ok (r, s')) (hw : NewSat s s' w) :
    ∃ (i : Nat) (hi : i < arr.length) (y : LinComb), ev p w it.lc = (i : ZMod p) ∧ r = .lc y ∧
      ev p w y.lc = ev p w arr[i].lcOf :=
  arrayGet_sound hp hg hone hit harr hn h1 h hw

end sound

/-- **obliviousness**: two accesses to arrays of the same shape with indices of the same shape (any
values), from states of the same shape, emit the same constraints and return values of the same shape -/
theorem C15_oblivious {arr1 arr2 : List Val} (harr : Forall2 ValRel arr1 arr2) {it1 it2 : Val}
    (hit : ValRel it1 it2) {v1 v2 : Val} (hv : ValRel v1 v2) :
    Obl ValRel (arrayGet arr1 it1) (arrayGet arr2 it2) ∧
    Obl (Forall2 ValRel) (arraySet arr1 it1 v1) (arraySet arr2 it2 v2) :=
  ⟨arrayGet_obl harr hit, arraySet_obl harr hit hv⟩

/-! ## non-vacuity: a 3-element array `[10, PrivVal(20), PrivVal(30)]`, secret index 1 -/

def exArr : M (List Val × LinComb) := do
  let a ← privVal 20
  let b ← privVal 30
  let i ← privVal 1
  pure ([.int 10, .lc a, .lc b], i)

/-- read at the secret index: value 20; 6 selector constraints + 1 sum constraint + 2 products -/
example : (match (do let (arr, i) ← exArr; arrayGet arr (.lc i)) (St.init 97 8 8) with
    | .ok (r, s1) => r.ival == 20 && s1.cons.length == 9 &&
        s1.cons.all (fun c => (LC.eval s1.assign c.1 * LC.eval s1.assign c.2.1 - LC.eval s1.assign c.2.2) % 97 == 0)
    | _ => false) = true := by decide +kernel

/-- write 77 at the secret index: values become [10, 77, 30] -/
example : (match (do let (arr, i) ← exArr; arraySet arr (.lc i) (.int 77)) (St.init 97 8 8) with
    | .ok (arr', s1) => arr'.map Val.ival == [10, 77, 30] &&
        s1.cons.all (fun c => (LC.eval s1.assign c.1 * LC.eval s1.assign c.2.1 - LC.eval s1.assign c.2.2) % 97 == 0)
    | _ => false) = true := by decide +kernel

/-- out-of-range secret index 3 raises IndexError -/
example : (match (do let (arr, _) ← exArr; let j ← privVal 3; arrayGet arr (.lc j)) (St.init 97 8 8) with
    | .error .index => true | _ => false) = true := by decide +kernel

/-- with error checks off the out-of-range access completes but the recorded witness violates the
emitted constraints (the selectors sum to 0, not 1) -/
example : (match (do let (arr, _) ← exArr; let j ← privVal 3; arrayGet arr (.lc j))
      { St.init 97 8 8 with ignoreErrors := true } with
    | .ok (_, s1) => !(s1.cons.all (fun c =>
        (LC.eval s1.assign c.1 * LC.eval s1.assign c.2.1 - LC.eval s1.assign c.2.2) % 97 == 0))
    | _ => false) = true := by decide +kernel


/-- a zero-length array, index `PrivVal(0)`: refused with the error checks on (`IndexError`) and off (`AttributeError`),
reads and writes; nothing is recorded -/
example : (match (do let j ← privVal 0; arrayGet [] (.lc j)) (St.init 97 8 8),
      (do let j ← privVal 0; arrayGet [] (.lc j)) { St.init 97 8 8 with ignoreErrors := true },
      (do let j ← privVal 0; arraySet [] (.lc j) (.int 7)) { St.init 97 8 8 with ignoreErrors := true } with
    | .error .index, .error .attribute, .error .attribute => true | _, _, _ => false) = true := by decide +kernel

/-- **API surface pinned** (regenerated from the source on every run, `Gen/Api.lean`): the methods the model of this
property transcribes are exactly the methods the code has.  A method added to the code (say an in-place `__iadd__`, which
Python would prefer over the `__add__` the model knows) or removed from it changes the generated list and this obligation
fails: the tie is then broken by construction and the check runs its extended search. -/
theorem C15_api_surface :
    Gen.api_array = ["Array.__init__", "Array.__repr__", "Array.__getitem__", "Array.__setitem__", "Array.__sub__", "Array.__add__", "Array.__rmul__", "Array.__if_then_else__", "Array.assert_eq", "Array.joined", "ArrayRow.__init__", "ArrayRow.__setitem__"] := rfl

/-! # Two-dimensional access (`a[i, j]`, `a[i][j]`, `ArrayRow`, rows as objects)

`Model/Array2D.lean` transcribes `Array.__getitem__/__setitem__` for arrays whose elements are `Array`s (tuple
indices with plain or secret components, the write-back `self[item[0]] = it`, the read-only `ArrayRow`, rows as
objects); `Spec/Array2D.lean` is the reference: nested Python lists of integers.  Matrices are rectangular (all rows of
length `w`) with plain-int or `LinComb` elements (`A2.NumRow`).

* `C15_read2` / `C15_write2`: an accepted `a[i,j]` / `a[i,j] = v` (each component plain or secret, error checks on)
  returns / leaves exactly what `m[i][j]` / `m[i][j] = v` gives on the list of lists `A2.imat rows`; the corollaries
  `C15_write2_exact` spell out "that element replaced, every other element and the shape unchanged".
* `C15_row_read`: a row read at a secret index is that row, element by element.
* `C15_history2`: every history of events (index objects created once and reused, row handles, copies, element reads
  and writes through the matrix / a handle / a plain-index inner row, row stores, gathers, reads inside a taken or
  not-taken branch) that the model completes is completed by the nested-list semantics with the same matrix and the
  same values read (rows built outside the matrix have its width: `Ev.okWidth`; rows of another length stored at a secret
  index, and secret-index accesses to a ragged matrix, are REFUSED: `C15_other_length_refused`); `C15_history2_every_step`: after every event; `C15_history2_lists`: for histories of element
  accesses the reference is a function on `List (List Int)` alone; `C15_history2_inv`: along every history all emitted
  constraints hold on the recorded witness and all stored values are coherent with their wire expressions.
* `C15_oob2_raises`, `C15_oob2_unsat`, `C15_oblivious2`: the two-dimensional forms of the out-of-range and
  obliviousness statements. -/

open A2 in
/-- **`a[i, j]`** — every matrix contents and shape, every index pair, each component a plain int or a secret:
the value read is the element at `(i, j)` of the list of lists (so both components are in range), and guard, error
mode, `ONE` are left as they were -/
theorem C15_read2 {rows : List (List Val)} {i j r : Val} {s s' : St} {w : Nat}
    (hi : s.ignoreErrors = false) (hn : ∀ row ∈ rows, NumRow row) (hw : ∀ row ∈ rows, row.length = w)
    (h : matGet rows i j s = .ok (r, s')) :
    pGet (imat rows) (absIdx i) (absIdx j) = .ok r.ival ∧ r.isNum = true ∧ Same s s' :=
  matGet_ref hi hn hw h

open A2 in
/-- **`a[i, j] = v`**: the matrix afterwards is `m[i][j] = v` on the list of lists; rows stay numeric of length `w` -/
theorem C15_write2 {rows res : List (List Val)} {i j v : Val} {s s' : St} {w : Nat}
    (hi : s.ignoreErrors = false) (hn : ∀ row ∈ rows, NumRow row) (hw : ∀ row ∈ rows, row.length = w)
    (hv : v.isNum = true) (h : matSet rows i j v s = .ok (res, s')) :
    pSet (imat rows) (absIdx i) (absIdx j) v.ival = .ok (imat res) ∧ (∀ row ∈ res, NumRow row) ∧
    (∀ row ∈ res, row.length = w) ∧ Same s s' :=
  matSet_ref hi hn hw hv h

open A2 in
/-- what `m[i][j] = x` means on a list of lists: positions `a`, `b` selected by the two components are in range; the
result has the same number of rows, row `a` is the old row with position `b` replaced by `x` (same length), every other
row is untouched -/
theorem C15_write2_exact {m m' : List (List Int)} {i j : SIx} {x : Int} (h : pSet m i j x = .ok m') :
    ∃ (a b : Nat) (ha : a < m.length), pos m.length i = .ok a ∧ pos m[a].length j = .ok b ∧ b < m[a].length ∧
      m'.length = m.length ∧
      ∀ (k : Nat) (hk : k < m.length) (hk' : k < m'.length),
        m'[k] = if k = a then m[a].set b x else m[k] := by
  unfold pSet at h
  cases ha : pos m.length i with
  | error e => simp [ha, bind, Except.bind] at h
  | ok a =>
    have hlt := pos_lt ha
    simp only [ha, bind, Except.bind, nth_ok hlt] at h
    cases hb : pos m[a].length j with
    | error e => simp [hb] at h
    | ok b =>
      simp only [hb, pure, Except.pure, Except.ok.injEq] at h
      subst h
      refine ⟨a, b, hlt, rfl, hb, pos_lt hb, by simp, ?_⟩
      intro k hk hk'
      simp only [List.getElem_set]
      by_cases e : a = k
      · subst e; simp
      · have e' : ¬ k = a := fun x => e x.symm
        simp [e, e']

open A2 in
/-- **a row read at a secret index equals that row element-wise** (the contents of the `ArrayRow` returned by `a[i]`) -/
theorem C15_row_read {rows : List (List Val)} {it : LinComb} {r : List Val} {s s' : St} {w : Nat}
    (hi : s.ignoreErrors = false) (hn : ∀ row ∈ rows, NumRow row) (hw : ∀ row ∈ rows, row.length = w)
    (h : rowRead rows it s = .ok (r, s')) :
    ∃ (hj : it.value.toNat < rows.length), 0 ≤ it.value ∧ it.value < rows.length ∧ r.length = w ∧
      (∀ (b : Nat) (h1 : b < r.length) (h2 : b < rows[it.value.toNat].length),
        (∃ y, r[b] = .lc y) ∧ r[b].ival = rows[it.value.toNat][b].ival) ∧ Same s s' :=
  rowRead_ref hi hn hw h

open A2 in
/-- **histories**: for every rectangular matrix `m` (secret or constant elements) and every sequence of events `es`, if
the model builds the matrix and completes the history (error checks on, no guard active) then the nested-list semantics
completes it from `sinit m` and ends in the abstraction of the model's final state: same row objects, same matrix
(`Mat.matrix` = `SMat.matrix`), same values read -/
theorem C15_history2 {secret : Bool} {w : Nat} {m : List (List Int)} {es : List A2.Ev} {a' : Mat} {s s' : St}
    (hi : s.ignoreErrors = false) (hg : s.guard = none) (hw : ∀ r ∈ m, r.length = w) (hev : ∀ e ∈ es, e.okWidth w)
    (h : (do let a ← init secret m; A2.run es a) s = .ok (a', s')) :
    srun es (sinit m) = .ok (abs a') ∧ a'.matrix = (abs a').matrix ∧ WF w a' ∧
    s'.ignoreErrors = false ∧ s'.guard = none := by
  obtain ⟨a, s1, h1, h2⟩ := bind_ok.mp h
  obtain ⟨e0, hwf, sm⟩ := init_sim hw h1
  obtain ⟨e1, hwf', hi', hg'⟩ := run_sim es (sm.ign_false hi) (sm.guard_none hg) hwf hev h2
  exact ⟨e0 ▸ e1, (abs_matrix a').symm, hwf', hi', hg'⟩

open A2 in
/-- **after every event**: a history the model completes is completed up to every intermediate point, and at every
such point the model's matrix is the matrix of the nested-list semantics -/
theorem C15_history2_every_step {secret : Bool} {w : Nat} {m : List (List Int)} {es : List A2.Ev} {a' : Mat} {s s' : St}
    (hi : s.ignoreErrors = false) (hg : s.guard = none) (hw : ∀ r ∈ m, r.length = w) (hev : ∀ e ∈ es, e.okWidth w)
    (h : (do let a ← init secret m; A2.run es a) s = .ok (a', s')) (k : Nat) :
    ∃ ak sk, (do let a ← init secret m; A2.run (es.take k) a) s = .ok (ak, sk) ∧
      srun (es.take k) (sinit m) = .ok (abs ak) ∧ ak.matrix = (abs ak).matrix := by
  obtain ⟨a, s1, h1, h2⟩ := bind_ok.mp h
  rw [← List.take_append_drop k es] at h2
  obtain ⟨ak, sk, h3, -⟩ := A2.run_append _ _ h2
  have hk : (do let a ← init secret m; A2.run (es.take k) a) s = .ok (ak, sk) := bind_ok.mpr ⟨a, s1, h1, h3⟩
  obtain ⟨e1, e2, -⟩ := C15_history2 hi hg hw (fun e he => hev e (List.mem_of_mem_take he)) hk
  exact ⟨ak, sk, hk, e1, e2⟩

open A2 in
/-- **histories of element accesses, against `List (List Int)` alone**: for `m[i,j]`, `m[i][j]`, reads in a branch and
`m[i,j] = x` (index objects reused at will) the reference needs no notion of object: the model's final matrix, index
objects and values read are those of `prun` on the plain list of lists -/
theorem C15_history2_lists {secret : Bool} {w : Nat} {m : List (List Int)} {es : List A2.Ev} {a' : Mat} {s s' : St}
    (hi : s.ignoreErrors = false) (hg : s.guard = none) (hw : ∀ r ∈ m, r.length = w)
    (hd : ∀ e ∈ es, e.direct = true)
    (h : (do let a ← init secret m; A2.run es a) s = .ok (a', s')) :
    prun es ⟨m, [], []⟩ = .ok (proj (abs a')) ∧ (proj (abs a')).m = a'.matrix := by
  have hev : ∀ e ∈ es, e.okWidth w := by
    intro e he
    have := hd e he
    cases e <;> trivial
  obtain ⟨e1, e2, -⟩ := C15_history2 hi hg hw hev h
  have := direct_run es (sinit_dist m) hd
  rw [e1] at this
  have hp : proj (sinit m) = ⟨m, [], []⟩ := by
    simp only [proj, sinit_matrix]
    rfl
  rw [hp] at this
  exact ⟨this.symm, e2.symm⟩

open A2 in
/-- **satisfaction and coherence along every history**: from a state satisfying the tracer invariant, after the matrix
is built and any history has run, every constraint emitted holds on the recorded witness (`Inv`) and every element of
every row, every index object and every value read is coherent with its wire expression (`GoodMat`) -/
theorem C15_history2_inv {secret : Bool} {m : List (List Int)} {es : List A2.Ev} {a' : Mat} {s s' : St}
    (hinv : Inv s) (hP : PrimeP s) (h : (do let a ← init secret m; A2.run es a) s = .ok (a', s')) :
    s.le s' ∧ Inv s' ∧ GoodMat s' a' := by
  obtain ⟨a, s1, h1, h2⟩ := bind_ok.mp h
  obtain ⟨le1, -, inv1, g1⟩ := init_inv hinv h1
  obtain ⟨le2, inv2, g2⟩ := A2.run_inv es inv1 (hP.mono le1) g1 h2
  exact ⟨le1.trans le2, inv2, g2⟩

open A2 in
/-- **an out-of-range component raises `IndexError`** (error checks on): a secret row component outside the matrix; a
secret column component outside the row that the first component selects — for reads and for writes -/
theorem C15_oob2_raises {rows : List (List Val)} {i j v : Val} {it jt : LinComb} {r0 : List Val} {s s1 : St} :
    (s.ignoreErrors = false → (it.value < 0 ∨ it.value ≥ rows.length) →
      matGet rows (.lc it) j s = .error .index ∧ matSet rows (.lc it) j v s = .error .index) ∧
    (rowGet rows i s = .ok (r0, s1) → s1.ignoreErrors = false → (jt.value < 0 ∨ jt.value ≥ r0.length) →
      matGet rows i (.lc jt) s = .error .index ∧ matSet rows i (.lc jt) v s = .error .index) :=
  ⟨fun hi h => mat_oob_row hi h, fun h1 hi h => mat_oob_col h1 hi h⟩

open A2 in
/-- **matrices with an empty dimension**: a secret row component on a matrix without rows is refused (`IndexError` /
`AttributeError` by error mode); on a matrix whose rows are all empty, `a[i, j]` and `a[i, j] = v` with a secret column
component never complete — whatever the first component (plain or secret), with the error checks on or off.  (A row
read `a[i]` of an `n × 0` matrix at an in-range secret index is legitimate and returns the empty row:
`C15_row_read` with `w = 0`.) -/
theorem C15_empty_refused2 {rows : List (List Val)} {i j v : Val} {it jt : LinComb} {s : St} :
    (matGet [] (.lc it) j s = .error (if s.ignoreErrors then .attribute else .index) ∧
     matSet [] (.lc it) j v s = .error (if s.ignoreErrors then .attribute else .index)) ∧
    ((∀ row ∈ rows, row = []) →
      (∀ x, matGet rows i (.lc jt) s ≠ .ok x) ∧ (∀ x, matSet rows i (.lc jt) v s ≠ .ok x)) :=
  ⟨mat_empty_row, fun hr => mat_empty_col hr⟩

section sound2
variable {p : ℕ} [Fact p.Prime] {wf : Wire → Int}

open A2 in
/-- **an out-of-range component cannot be proven** — error checks on or OFF: for any assignment `wf` (with
`wf one = 1`) satisfying the constraints that the access emitted, a secret row component evaluates to a row position and
a secret column component to a column position; reads and writes.  (With checks off an out-of-range access completes,
but the emitted system then has no satisfying assignment with that index value: see the example below.) -/
theorem C15_oob2_unsat {rows res : List (List Val)} {i j r v : Val} {it jt : LinComb} {s s' : St} {w : Nat}
    (hp : s.p = p) (hg : s.guard = none) (hone : s.one = oneSafe) (hit : it.lc.WF) (hjt : jt.lc.WF)
    (hn : ∀ row ∈ rows, NumRow row) (hw : ∀ row ∈ rows, row.length = w) (hv : v.isNum = true) (h1 : wf .one = 1)
    (hsat : NewSat s s' wf) :
    (matGet rows (.lc it) j s = .ok (r, s') → ∃ a : Nat, a < rows.length ∧ ev p wf it.lc = (a : ZMod p)) ∧
    (matGet rows i (.lc jt) s = .ok (r, s') → ∃ b : Nat, b < w ∧ ev p wf jt.lc = (b : ZMod p)) ∧
    (matSet rows (.lc it) j v s = .ok (res, s') → ∃ a : Nat, a < rows.length ∧ ev p wf it.lc = (a : ZMod p)) ∧
    (matSet rows i (.lc jt) v s = .ok (res, s') → ∃ b : Nat, b < w ∧ ev p wf jt.lc = (b : ZMod p)) :=
  ⟨fun h => matGet_row_sound hp hg hone hit hn hw h1 h hsat,
   fun h => matGet_col_sound hp hg hone hjt hn hw h1 h hsat,
   fun h => matSet_row_sound hp hg hone hit hn hw hv h1 h hsat,
   fun h => matSet_col_sound hp hg hone hjt hn hw hv h1 h hsat⟩

end sound2

open A2 in
/-- **obliviousness for index pairs**: two accesses to matrices of the same shape with index components of the same
kind (secret components: ANY two values; plain components equal), from states of the same shape, emit the same
constraints and return results of the same shape — `a[i]` at a secret index, `a[i, j]`, `a[i, j] = v` -/
theorem C15_oblivious2 {rows1 rows2 : List (List Val)} (hrows : MatRel rows1 rows2) {i1 i2 j1 j2 v1 v2 : Val}
    (hi : ValRel i1 i2) (hj : ValRel j1 j2) (hv : ValRel v1 v2) {it1 it2 : LinComb} (hit : lcEq it1 it2) :
    Obl RowRel (rowRead rows1 it1) (rowRead rows2 it2) ∧
    Obl ValRel (matGet rows1 i1 j1) (matGet rows2 i2 j2) ∧
    Obl MatRel (matSet rows1 i1 j1 v1) (matSet rows2 i2 j2 v2) :=
  ⟨rowRead_obl hrows hit, matGet_obl hrows hi hj, matSet_obl hrows hi hj hv⟩

open A2 in
/-- **obliviousness along histories**: two histories of the same form (the same events on the same names, plain indices
and written constants equal; secret index values, branch conditions and secret matrix contents ARBITRARY) on matrices
of the same dimensions, from states of the same shape: the same wires and the same constraints after the whole
history, the same object structure, values of the same shape -/
theorem C15_oblivious2_history (secret : Bool) {m1 m2 : List (List Int)}
    (hm : Forall2 (Forall2 (fun x y => secret = true ∨ x = y)) m1 m2) {es1 es2 : List A2.Ev}
    (hes : Forall2 EvRel es1 es2) :
    Obl MatObjRel (do let a ← init secret m1; A2.run es1 a) (do let a ← init secret m2; A2.run es2 a) :=
  Obl.bind (init_obl secret hm) (fun _ _ h => run_obl hes h)

/-! ## non-vacuity: the 2×3 matrix `[[1,2,3],[4,5,6]]` of secrets over p = 97 -/

open A2 in
def exMat2 : M (List (List Val)) := do
  let a ← init true [[1, 2, 3], [4, 5, 6]]
  pure a.contents

def satAll2 (s : St) : Bool :=
  s.cons.all (fun c => (LC.eval s.assign c.1 * LC.eval s.assign c.2.1 - LC.eval s.assign c.2.2) % s.p == 0)

open A2 in
/-- `a[PrivVal(1), PrivVal(2)]` reads 6; all constraints hold on the recorded witness -/
example : (match (do let m ← exMat2; let i ← privVal 1; let j ← privVal 2; matGet m (.lc i) (.lc j)) (St.init 97 8 8) with
    | .ok (r, s1) => r.ival == 6 && satAll2 s1 && s1.cons.length > 0
    | _ => false) = true := by first | decide +kernel | fail "C15_read2 example"

open A2 in
/-- `a[PrivVal(0), PrivVal(1)] = 77`: exactly that element replaced -/
example : (match (do let m ← exMat2; let i ← privVal 0; let j ← privVal 1; matSet m (.lc i) (.lc j) (.int 77)) (St.init 97 8 8) with
    | .ok (res, s1) => imat res == [[1, 77, 3], [4, 5, 6]] && satAll2 s1
    | _ => false) = true := by first | decide +kernel | fail "C15_write2 example"

open A2 in
/-- the row read at the secret index 1 is `[4,5,6]`, element by element -/
example : (match (do let m ← exMat2; let i ← privVal 1; rowRead m i) (St.init 97 8 8) with
    | .ok (r, s1) => ivals r == [4, 5, 6] && satAll2 s1
    | _ => false) = true := by first | decide +kernel | fail "C15_row_read example"

open A2 in
/-- a history with a reused index object, a plain-index row handle written through, a secret-index snapshot stored at a
constant position, a tuple write at a secret row, a read in a branch that is not taken with an index outside the array,
and a gather: the model and the nested lists end in the same state, the matrix is `[[4,12,6],[4,12,6]]` -/
def exHist2 : List A2.Ev :=
  [.idx 0 true 1, .row 1 (.p 1), .set1 1 (.s 1) 12, .get2 2 (.n 0) (.p 1), .row 3 (.n 0), .setrow (.p 0) 3,
   .set2 (.s 1) (.n 0) 12, .bget 4 0 (.s 7) (.p 0), .gather [.n 0, .p 1], .get2 5 (.s 0) (.s 2)]

open A2 in
example : (match (do let a ← init true [[1, 2, 3], [4, 5, 6]]; A2.run exHist2 a) (St.init 97 8 8) with
    | .ok (a', s1) => decide (srun exHist2 (sinit [[1, 2, 3], [4, 5, 6]]) = .ok (abs a')) &&
        a'.matrix == [[4, 12, 6], [4, 12, 6]] && satAll2 s1
    | _ => false) = true := by first | decide +kernel | fail "C15_history2 example"

open A2 in
/-- a history of element accesses on plain lists of lists: `m[i1,2] = 9; m[1][i1]; m[0, i1] = 8` -/
example : (match (do let a ← init false [[1, 2, 3], [4, 5, 6]]
                     A2.run [.idx 0 true 1, .set2 (.n 0) (.p 2) 9, .getrc 1 (.p 1) (.n 0), .set2 (.p 0) (.n 0) 8] a) (St.init 97 8 8),
      prun [.idx 0 true 1, .set2 (.n 0) (.p 2) 9, .getrc 1 (.p 1) (.n 0), .set2 (.p 0) (.n 0) 8] ⟨[[1, 2, 3], [4, 5, 6]], [], []⟩ with
    | .ok (a', _), .ok r => decide (proj (abs a') = r) && r.m == [[1, 8, 3], [4, 5, 9]] && r.vars == [(1, 5)]
    | _, _ => false) = true := by first | decide +kernel | fail "C15_history2_lists example"

open A2 in
/-- out-of-range components raise: row index 2 of 2 rows; column index 3 of 3 columns (read and write) -/
example : (match (do let m ← exMat2; let i ← privVal 2; let j ← privVal 0; matGet m (.lc i) (.lc j)) (St.init 97 8 8),
      (do let m ← exMat2; let i ← privVal 1; let j ← privVal 3; matSet m (.lc i) (.lc j) (.int 9)) (St.init 97 8 8) with
    | .error .index, .error .index => true | _, _ => false) = true := by first | decide +kernel | fail "C15_oob2_raises example"

open A2 in
/-- with error checks off the out-of-range access `a[PrivVal(0), PrivVal(3)]` completes, but the recorded witness
violates the emitted constraints (the column selectors sum to 0) -/
example : (match (do let m ← exMat2; let i ← privVal 0; let j ← privVal 3; matGet m (.lc i) (.lc j))
      { St.init 97 8 8 with ignoreErrors := true } with
    | .ok (_, s1) => !satAll2 s1
    | _ => false) = true := by first | decide +kernel | fail "C15_oob2_unsat example"

open A2 in
/-- with error checks off the out-of-range WRITE `a[PrivVal(0), PrivVal(3)] = 9` (tuple index, LAST component outside)
completes and leaves the matrix as it was, but the recorded witness violates the emitted constraints: the selectors of
the last component sum to 0 and `sum(ixs).assert_eq(1)` is emitted for the inner write as for every other level -/
example : (match (do let m ← exMat2; let i ← privVal 0; let j ← privVal 3; matSet m (.lc i) (.lc j) (.int 9))
      { St.init 97 8 8 with ignoreErrors := true } with
    | .ok (res, s1) => imat res == [[1, 2, 3], [4, 5, 6]] && !satAll2 s1
    | _ => false) = true := by first | decide +kernel | fail "C15_oob2_unsat write example"

open A2 in
/-- a `3 × 0` matrix: the row read at the secret index 1 is the empty row; `a[PrivVal(1), PrivVal(0)]` and
`a[1, PrivVal(0)] = 7` are refused with the error checks off (`AttributeError`) as with them on (`IndexError`) -/
example : (match (do let i ← privVal 1; rowRead [[], [], []] i) (St.init 97 8 8),
      (do let i ← privVal 1; let j ← privVal 0; matGet [[], [], []] (.lc i) (.lc j)) { St.init 97 8 8 with ignoreErrors := true },
      (do let j ← privVal 0; matSet [[], [], []] (.int 1) (.lc j) (.int 7)) { St.init 97 8 8 with ignoreErrors := true },
      (do let i ← privVal 1; let j ← privVal 0; matGet [[], [], []] (.lc i) (.lc j)) (St.init 97 8 8) with
    | .ok (r, _), .error .attribute, .error .attribute, .error .index => r.isEmpty
    | _, _, _, _ => false) = true := by first | decide +kernel | fail "C15_empty_refused2 example"

open A2 in
/-- two different index pairs: the same constraints, literally -/
example : (match (do let m ← exMat2; let i ← privVal 0; let j ← privVal 2; matSet m (.lc i) (.lc j) (.int 9)) (St.init 97 8 8),
      (do let m ← exMat2; let i ← privVal 1; let j ← privVal 0; matSet m (.lc i) (.lc j) (.int 9)) (St.init 97 8 8) with
    | .ok (_, s1), .ok (_, s2) => decide (s1.cons = s2.cons) && s1.priv.length == s2.priv.length && s1.cons.length > 20
    | _, _ => false) = true := by first | decide +kernel | fail "C15_oblivious2 example"

open A2 in
/-- two histories of the same form with other secret indices, another branch condition and other contents: the same
constraints, literally -/
example : (match (do let a ← init true [[1, 2, 3], [4, 5, 6]]
                     A2.run [.idx 0 true 1, .row 1 (.n 0), .set2 (.s 0) (.n 0) 9, .bget 2 1 (.n 0) (.s 2), .setrow (.s 1) 1] a) (St.init 97 8 8),
      (do let a ← init true [[7, 0, 2], [3, 3, 8]]
          A2.run [.idx 0 true 2, .row 1 (.n 0), .set2 (.s 1) (.n 0) 9, .bget 2 0 (.n 0) (.s 5), .setrow (.s 0) 1] a)
        { St.init 97 8 8 with ignoreErrors := true } with
    | .ok (_, s1), .ok (_, s2) => decide (s1.cons = s2.cons) && s1.priv.length == s2.priv.length && s1.cons.length > 40
    | _, _ => false) = true := by first | decide +kernel | fail "C15_oblivious2_history example"

open A2 in
/-- **rows of different lengths are refused, never truncated** (finding `C15-row-store-other-length`, repaired in the
source: `Array.__add__` / `Array.__sub__` raise `ValueError` for operands of different lengths instead of zipping them to
the shorter one).  (i) the two operators; (ii) a row read at a secret index that completes has seen a RECTANGULAR
matrix — every row has the length of the row returned — so a ragged matrix is refused; (iii) a store `a[i] = value` at a
secret index of a value whose length is not the width of the matrix never completes; (iv) a tuple write `a[i, j] = v`
with a secret row component that completes has seen a rectangular matrix -/
theorem C15_other_length_refused {rows res : List (List Val)} {a b vals r : List Val} {it : LinComb} {j v : Val}
    {s s' : St} {w : Nat} :
    (a.length ≠ b.length → addRows a b s = .error .value ∧ subRows a b s = .error .value) ∧
    (s.guard = none → rowRead rows it s = .ok (r, s') → ∀ row ∈ rows, row.length = r.length) ∧
    (s.guard = none → rows ≠ [] → (∀ row ∈ rows, row.length = w) → vals.length ≠ w →
      ∀ x, rowsWrite (rows.map fun r => (false, r)) it vals s ≠ .ok x) ∧
    (s.guard = none → matSet rows (.lc it) j v s = .ok (res, s') → ∃ w', ∀ row ∈ rows, row.length = w') := by
  refine ⟨fun h => ⟨addRows_mismatch h, subRows_mismatch h⟩, fun hg h => rowRead_rect hg h,
    fun hg hne hw hv => rowsWrite_mismatch hg hne hw hv, fun hg h => ?_⟩
  unfold matSet at h
  simp only at h
  obtain ⟨r0, s1, h1, -⟩ := bind_ok.mp h
  exact ⟨r0.length, rowRead_rect hg h1⟩

open A2 in
/-- the input of the former finding: `m = [[1,2,3],[4,5,6]]; m[PrivVal(1)] = Array([7])` is refused (`ValueError`) — on
lists of lists the result would be `[[1,2,3],[7]]`, which the plain-index store `m[1] = Array([7])` does produce; a
row read at a secret index of the matrix made ragged that way, and a tuple write with a secret row component, are
refused as well -/
example : (match (do let a ← init true [[1, 2, 3], [4, 5, 6]]; A2.run [.newrow 1 [7], .setrow (.s 1) 1] a) (St.init 97 8 8),
      srun [.newrow 1 [7], .setrow (.s 1) 1] (sinit [[1, 2, 3], [4, 5, 6]]),
      (do let a ← init true [[1, 2, 3], [4, 5, 6]]; A2.run [.newrow 1 [7], .setrow (.p 1) 1] a) (St.init 97 8 8),
      (do let a ← init true [[1, 2, 3], [4, 5, 6]]; A2.run [.newrow 1 [7], .setrow (.p 1) 1, .row 2 (.s 0)] a) (St.init 97 8 8),
      (do let a ← init true [[1, 2, 3], [4, 5, 6]]; A2.run [.newrow 1 [7], .setrow (.p 1) 1, .set2 (.s 0) (.s 0) 9] a) (St.init 97 8 8) with
    | .error .value, .ok r, .ok (a', _), .error .value, .error .value => r.matrix == [[1, 2, 3], [7]] && a'.matrix == [[1, 2, 3], [7]]
    | _, _, _, _, _ => false) = true := by first | decide +kernel | fail "C15_other_length_refused example"

end Pysnark
