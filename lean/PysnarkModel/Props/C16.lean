import PysnarkModel.Lemmas.Bits
import PysnarkModel.Gen.Api
import PysnarkModel.Lemmas.Pack
import PysnarkModel.Driver.ProtoPack
/-!
# C16 — bit decomposition and packing round-trip at the requested width

Part (a): `to_bits(n)` / `from_bits` / `assert_positive(n)`.
* `C16_bits_roundtrip`: an accepted `to_bits(n)` (error checks on) means `0 ≤ v < 2^n`, returns exactly
  `n` bits whose values are the binary digits of `v`, and `from_bits` of them has value `v` — for EVERY
  `n`, whatever the global bit length is;
* `C16_bits_accept`: every `0 ≤ v < 2^n` is accepted (no guard);
* `C16_bits_reject`: values outside `[0, 2^n)` are rejected by `to_bits(n)` and `assert_positive(n)`;
* `C16_width_enforced`: in-circuit, ANY assignment satisfying what `to_bits(n)` / `assert_positive(n)`
  emitted evaluates the operand into `[0, 2^n)` — the requested width, not the global one (the model
  follows the repaired `assert_positive`, see C03).
-/
namespace Pysnark

/-- **round trip** at the requested width `n` (independent of `s.bitlength`) -/
theorem C16_bits_roundtrip {x : LinComb} {n : Nat} {s s' : St} {bs : List LinComb}
    (hi : s.ignoreErrors = false) (h : toBits x (some n) s = .ok (bs, s')) :
    0 ≤ x.value ∧ x.value < 2 ^ n ∧ bs.length = n ∧
    bs.map (·.value) = Py.bitsOf x.value n ∧
    fbValue (fromBits bs) = x.value ∧
    (1 ≤ n → ∃ y, fromBits bs = some y ∧ y.value = x.value) ∧
    (n = 0 → fromBits bs = none ∧ x.value = 0) := by
  obtain ⟨h0, h1, hv⟩ := toBits_value hi h
  simp only [Option.getD_some] at h1 hv
  have hl : bs.length = n := by
    have := congrArg List.length hv
    simpa [bitsOf_length] using this
  have hfb : fbValue (fromBits bs) = x.value := by
    rw [fbValue_fromBits, hv, bitsVal_bitsOf n _ 0 h0 h1]; simp
  refine ⟨h0, h1, hl, hv, hfb, ?_, ?_⟩
  · intro hn
    cases hb : fromBits bs with
    | none =>
      have : bs = [] := by cases bs with
        | nil => rfl
        | cons b t => simp [fromBits] at hb
      subst this; simp at hl; omega
    | some y => rw [hb] at hfb; exact ⟨y, rfl, hfb⟩
  · rintro rfl
    have : bs = [] := List.eq_nil_of_length_eq_zero hl
    subst this
    refine ⟨rfl, ?_⟩
    simp at h1; omega

/-- every in-range value is accepted (outside guarded regions) -/
theorem C16_bits_accept {x : LinComb} {n : Nat} {s : St} (hg : s.guard = none)
    (h0 : 0 ≤ x.value) (h1 : x.value < 2 ^ n) : ∃ bs s', toBits x (some n) s = .ok (bs, s') :=
  toBits_accept (bits := some n) hg h0 h1

/-- values outside `[0, 2^n)` are rejected, by the decomposition and by the non-negativity assertion -/
theorem C16_bits_reject {x : LinComb} {n : Nat} {s : St} (hi : s.ignoreErrors = false)
    (h : x.value < 0 ∨ 2 ^ n ≤ x.value) :
    toBits x (some n) s = .error .assertion ∧ assertPositive x (some n) s = .error .assertion :=
  ⟨toBits_reject (bits := some n) hi h, assertPositive_reject (bits := some n) hi h⟩

/-- an accepted `assert_positive(n)` means `0 ≤ v < 2^n` (run-time side of "the width given is the
width enforced") -/
theorem C16_assertPositive_runtime {x : LinComb} {n : Nat} {s s' : St} {u : Unit}
    (hi : s.ignoreErrors = false) (h : assertPositive x (some n) s = .ok (u, s')) :
    0 ≤ x.value ∧ x.value < 2 ^ n := assertPositive_value (bits := some n) hi h

/-- **the width given is the width enforced in-circuit**: any assignment `w` (adversarial prover)
satisfying the constraints emitted by `to_bits(n)` resp. `assert_positive(n)` evaluates the operand
to the embedding of a natural below `2^n`; for `to_bits` the returned wires are its `n` binary digits -/
theorem C16_width_enforced {p : ℕ} [Fact p.Prime] {x : LinComb} {n : Nat} {s : St} {w : Wire → Int}
    (hp : s.p = p) (hg : s.guard = none) (hx : x.lc.WF) (h1 : w .one = 1) :
    (∀ bs s', toBits x (some n) s = .ok (bs, s') → NewSat s s' w →
      bs.length = n ∧ InRange p n (ev p w x.lc) ∧
      ∃ S : ℕ, S < 2 ^ n ∧ ev p w x.lc = (S : ZMod p) ∧
        ∀ (i : Nat) (hi : i < bs.length), ev p w bs[i].lc = ((S / 2 ^ i % 2 : ℕ) : ZMod p)) ∧
    (∀ u s', assertPositive x (some n) s = .ok (u, s') → NewSat s s' w → InRange p n (ev p w x.lc)) := by
  constructor
  · intro bs s' h hw
    obtain ⟨hl, S, hS, hSe, hbit⟩ := toBits_sound hp hg hx h h1 hw
    exact ⟨hl, ⟨S, hS, hSe⟩, S, hS, hSe, hbit⟩
  · intro u s' h hw
    exact assertPositive_sound hp hg hx h h1 hw

/-! non-vacuity: width 3 with global bit length 8: 5 is decomposed into [1,0,1]; 9 is rejected -/
example : (match (do let x ← privVal 5; let bs ← toBits x (some 3); pure (bs.map LinComb.value, fbValue (fromBits bs)))
      (St.init 97 8 8) with
    | .ok ((vs, v), s1) => vs == [1, 0, 1] && v == 5 && s1.cons.length == 4 | _ => false) = true := by
  decide +kernel
example : (match (do let x ← privVal 9; toBits x (some 3)) (St.init 97 8 8) with
    | .error .assertion => true | _ => false) = true := by decide +kernel
example : (match (do let x ← privVal 9; assertPositive x (some 3)) (St.init 97 8 8) with
    | .error .assertion => true | _ => false) = true := by decide +kernel

/-! # Part (b): the packers of `pysnark/pack.py` (`Model/Pack.lean`)

`Schema` = `PackBool | PackIntMod(m) | PackList([...]) | PackRepeat(s, times)`; `packV`/`unpackV` are
`pack(val)` / `unpack(bits, pos)`.  `WellTyped sch v`: `v` is a plain value of the shape `sch` describes,
and `sch` contains no `PackIntMod(m)` with `m < 2`, no `PackList([])`, no `PackRepeat(_, 0)` — for
those `pack.py` itself fails (`C16_cex_pack_mod1`, `C16_cex_pack_empty`).

Recorded deviations (the property as worded is NOT true of `pack.py`):
* (C16-pack-bool, `PackBool().pack(LinCombBool)` raised `NotImplementedError`: repaired, `C16_pack_bool_lcb`);
* C16-unpack-unchecked: `PackIntMod.unpack` of the bits produced by `PackIntMod.pack(LinComb)`
  returns the right VALUE but through the plain branch: no `assert_lt(mod)` is emitted, and `pack`
  itself only enforces `< 2^bitlen` (`C16_pack_secret_partial`, `C16_cex_pack_secret_range`). -/

/-- `bitlen` is additive -/
theorem C16_bitlen_additive (a b : List Schema) (s : Schema) (t : Nat) :
    (Schema.list (a ++ b)).bitlen = (Schema.list a).bitlen + (Schema.list b).bitlen ∧
    (Schema.list a).bitlen = (a.map Schema.bitlen).sum ∧
    (Schema.rep s t).bitlen = s.bitlen * t ∧ Schema.bool.bitlen = 1 ∧
    ∀ m, (Schema.intMod m).bitlen = Py.bitLength ((m : Int) - 1) := by
  refine ⟨by simp [Schema.bitlenL_append], by simp [Schema.bitlenL_eq_sum], by simp, by simp, ?_⟩
  intro m; simp [modBits]

/-- **plain round trip**: for a well-typed plain value, `pack` returns exactly `bitlen` bits and does
not touch the tracer state; `unpack` of these bits — at any position of a longer bit list — returns
the original value, again without touching the state -/
theorem C16_pack_roundtrip_plain {sch : Schema} {v : Val} (h : WellTyped sch v) :
    ∃ bits : List Val, (∀ s, packV sch v s = .ok (.list bits, s)) ∧ bits.length = sch.bitlen ∧
      (∀ (rest : List Val) (s : St), unpackV sch (bits ++ rest) 0 s = .ok (v, s)) ∧
      (∀ (pre rest : List Val) (s : St), unpackV sch (pre ++ bits ++ rest) pre.length s = .ok (v, s)) := by
  obtain ⟨bits, hp, hl, hu⟩ := roundTrip_plain sch v h
  refine ⟨bits, ?_, hl, ?_, hu⟩
  · intro s
    unfold packV
    rw [bind_pure_ok (hp s)]; rfl
  · intro rest s
    simpa using hu [] rest s

/-- **out-of-range plain values are rejected** with `ValueError` -/
theorem C16_pack_reject {m : Nat} {c : Int} (h : c < 0 ∨ c ≥ m) (s : St) :
    packV (.intMod m) (.int c) s = .error .value := packIntMod_reject h s

/-- `PackBool` on a `LinComb`: identity both ways -/
theorem C16_pack_bool_lc (x : LinComb) (pre rest : List Val) (s : St) :
    packV .bool (.lc x) s = .ok (.list [.lc x], s) ∧
    unpackV .bool (pre ++ [.lc x] ++ rest) pre.length s = .ok (.lc x, s) := packBool_lc x pre rest s

/-- **secret `PackIntMod` round trip, value level only** (`_partial`): with error checks on, an accepted
`pack` of a `LinComb` means `0 ≤ v < 2^bitlen` (NOT `v < mod`), yields `bitlen` `LinCombBool` bits
carrying the binary digits, and `unpack` returns a `LinComb` with the original VALUE — through the
plain branch: the state `st` is unchanged, i.e. no `assert_lt(mod)` and no other constraint -/
theorem C16_pack_secret_partial {m : Nat} (hm : 2 ≤ m) {x : LinComb} {s s' : St} {bits : List Val}
    (hi : s.ignoreErrors = false) (h : packV (.intMod m) (.lc x) s = .ok (.list bits, s')) :
    0 ≤ x.value ∧ x.value < 2 ^ (Schema.intMod m).bitlen ∧
    ∃ bs : List LinComb, bits = bs.map .lcb ∧ bs.length = (Schema.intMod m).bitlen ∧
      bs.map (·.value) = Py.bitsOf x.value (Schema.intMod m).bitlen ∧
      ∀ (pre rest : List Val) (st : St), ∃ y : LinComb,
        unpackV (.intMod m) (pre ++ bits ++ rest) pre.length st = .ok (.lc y, st) ∧ y.value = x.value := by
  simpa using packIntMod_secret hm hi h

/-- every secret `0 ≤ v < 2^bitlen` is accepted by `PackIntMod.pack` outside guarded regions -/
theorem C16_pack_secret_accept {m : Nat} {x : LinComb} {s : St} (hg : s.guard = none)
    (h0 : 0 ≤ x.value) (h1 : x.value < 2 ^ (Schema.intMod m).bitlen) :
    ∃ bits s', packV (.intMod m) (.lc x) s = .ok (.list bits, s') :=
  packIntMod_secret_accept hg h0 (by simpa using h1)

/-! ## closed counterexamples (recorded deviations) -/

/-- (was the recorded deviation C16-pack-bool, repaired in /repo) `PackBool` on a secret of the boolean
type: identity both ways, for every boolean, position and state — no constraint, no wire -/
theorem C16_pack_bool_lcb (b : LinComb) (pre rest : List Val) (s : St) :
    packV .bool (.lcb b) s = .ok (.list [.lcb b], s) ∧
    unpackV .bool (pre ++ [.lcb b] ++ rest) pre.length s = .ok (.lcb b, s) :=
  ⟨(packBool_lcb b pre rest s).1, (packBool_lcb b pre rest s).2.1⟩

/-- the hypotheses are met by a traced run: a declared boolean secret packs to itself -/
example :
    (match (do let b ← privValBool 1; let r ← packB .bool (.lcb b); unpackV .bool r 0) (St.init 97 8 8) with
      | .ok (.lcb b, s) => b.value == 1 && s.cons.length == 1 | _ => false) = true := by decide +kernel

/-- the secret round trip does not range-check: `PackIntMod(5)` accepts the secret 7 (≥ mod, < 2^3),
and `unpack` returns value 7 adding no constraint (4 constraints = 3 booleanity + 1 sum, all from
`to_bits`); a plain 7 is rejected -/
theorem C16_cex_pack_secret_range :
    (match (do let x ← privVal 7
               let b ← packB (.intMod 5) (.lc x)
               let s1 ← getSt
               let r ← unpackV (.intMod 5) b 0
               pure (r, s1.cons.length)) (St.init 97 8 8) with
      | .ok ((.lc y, n1), s) => y.value == 7 && n1 == 4 && s.cons.length == 4 | _ => false) = true ∧
    (match packV (.intMod 5) (.int 7) (St.init 97 8 8) with | .error .value => true | _ => false) = true := by
  decide +kernel

/-- `PackIntMod(1)` (bit length 0): unpacking its own (empty) packing raises `IndexError` -/
theorem C16_cex_pack_mod1 :
    (match (do let b ← packB (.intMod 1) (.int 0); unpackV (.intMod 1) b 0) (St.init 97 8 8) with
      | .error .index => true | _ => false) = true := by decide +kernel

/-- `PackList([])` / `PackRepeat(_, 0)` cannot pack their only value `[]`: `reduce()` of an empty
sequence raises `TypeError` -/
theorem C16_cex_pack_empty :
    (match packV (.list []) (.list []) (St.init 97 8 8) with | .error .type => true | _ => false) = true ∧
    (match packV (.rep .bool 0) (.list []) (St.init 97 8 8) with | .error .type => true | _ => false) = true := by
  decide +kernel

/-- `PackRepeat(s, times).pack` packs ALL elements given, not `times` of them: 3 elements for
`times = 2` give 3 bits while `bitlen() = 2` -/
theorem C16_cex_pack_repeat_len :
    (match packV (.rep .bool 2) (.list [.int 1, .int 0, .int 1]) (St.init 97 8 8) with
      | .ok (.list bits, _) => bits.length == 3 && (Schema.rep .bool 2).bitlen == 2 | _ => false) = true := by
  decide +kernel

/-! non-vacuity of the plain round trip, through the schema parser -/
example : (match ProtoPack.schema? "L(B,M5,R2(M3))" with
    | some sch =>
      let v : Val := .list [.int 1, .int 4, .list [.int 2, .int 0]]
      (match (do let b ← packB sch v; let r ← unpackV sch b 0; pure (b.length, r)) (St.init 97 8 8) with
        | .ok ((n, r), s) => r.same v && n == sch.bitlen && n == 8 && s.cons.length == 0 | _ => false)
    | none => false) = true := by decide +kernel


/-- **API surface pinned** (regenerated from the source on every run, `Gen/Api.lean`): the methods the model of this
property transcribes are exactly the methods the code has.  A method added to the code (say an in-place `__iadd__`, which
Python would prefer over the `__add__` the model knows) or removed from it changes the generated list and this obligation
fails: the tie is then broken by construction and the check runs its extended search. -/
theorem C16_api_surface :
    Gen.api_pack = ["PackBool.random", "PackBool.bitlen", "PackBool.pack", "PackBool.unpack", "PackIntMod.__init__", "PackIntMod.random", "PackIntMod.bitlen", "PackIntMod.pack", "PackIntMod.unpack", "PackList.__init__", "PackList.random", "PackList.bitlen", "PackList.pack", "PackList.unpack", "PackRepeat.__init__", "PackRepeat.random", "PackRepeat.bitlen", "PackRepeat.pack", "PackRepeat.unpack", "PackSeed"] := rfl

end Pysnark
