import PysnarkModel.Model.Prog
namespace Pysnark
example : True := trivial
end Pysnark
