import PysnarkModel.Lemmas.Snark
import PysnarkModel.Model.Pack
/-!
# C17 — the `@snark` decorator (`Model/Snark.lean`)

`snarkIn` is `argscopy` (three `for_each_in` passes: ints → `PubVal`, floats → `PubValFxp`, bools →
unreachable), `snarkOut` is `retcopy` (three passes: `LinComb.val()`, `LinCombFxp.val()`,
`LinCombBool.val()`), `snarkCall fn args` the decorated call.  `v.leaves` are the leaves of a
list/tuple structure in traversal order, `v.skel` its list/tuple skeleton.

* `C17_inputs`: the publics created are exactly the int leaves (in order) followed by the scaled float
  leaves (in order); no private wire, no constraint.  This is GROUPED BY TYPE, not argument order —
  recorded deviation C17-type-grouping, closed counterexample `C17_cex_order`;
  `C17_inputs_single_kind` is the `_partial` form "in argument order" (all numeric leaves of one kind).
* `C17_outputs`: one public value + one constraint `0·0 = secret − output` per secret leaf of the
  returned structure (per pass), nothing else; every secret leaf is replaced by its plain value.
* `C17_plain_return`: the returned structure contains no secret.
* `C17_call`: the statements compose over a call, hence over sequences of calls (state in / out).
-/
namespace Pysnark

/-- no secret (`LinComb`, `LinCombBool`, `LinCombFxp`) anywhere in the structure -/
def noSecret (v : Val) : Prop := ∀ l ∈ v.leaves, l.isSecret = false

/-- the int leaves, and the float leaves scaled to fixed point, in traversal order -/
def intLeaves (v : Val) : List Int := v.leaves.filterMap Val.intOf?
def fltLeaves (res : Nat) (v : Val) : List Int :=
  (v.leaves.filterMap Val.fltOf?).map (fun me => scaleFlt me.1 me.2 res)

/-- **inputs**: after `snarkIn args` the public values are the old ones, then every int leaf of `args`
in traversal order, then every float leaf (scaled by `2^resolution`) in traversal order; every other
component of the tracer state — private values, constraints, guard, configuration — is unchanged.
The structure keeps its skeleton; each int leaf is now a `LinComb` with that value, each float leaf a
`LinCombFxp` with the scaled value, other leaves are untouched (`inLeaf`, wires erased). -/
theorem C17_inputs {args r : Val} {s s' : St} (h : snarkIn args s = .ok (r, s')) :
    s' = { s with pub := s.pub ++ intLeaves args ++ fltLeaves s.resolution args } ∧
    s'.pub = s.pub ++ intLeaves args ++ fltLeaves s.resolution args ∧
    s'.priv = s.priv ∧ s'.cons = s.cons ∧
    r.skel = args.skel ∧ r.leaves.map Val.erase = args.leaves.map (inLeaf s.resolution) := by
  obtain ⟨e, hk, hl⟩ := snarkIn_spec h
  subst e
  refine ⟨?_, ?_, rfl, rfl, hk, hl⟩ <;> simp [St.addPub, intLeaves, fltLeaves, List.append_assoc]

/-- **inputs in argument order** when all numeric leaves are of one kind -/
theorem C17_inputs_single_kind {args r : Val} {s s' : St} (h : snarkIn args s = .ok (r, s')) :
    ((∀ l ∈ args.leaves, l.fltOf? = Option.none) → s'.pub = s.pub ++ intLeaves args) ∧
    ((∀ l ∈ args.leaves, l.intOf? = Option.none) → s'.pub = s.pub ++ fltLeaves s.resolution args) := by
  obtain ⟨-, hp, -⟩ := C17_inputs h
  constructor
  · intro hn
    have : fltLeaves s.resolution args = [] := by
      unfold fltLeaves
      rw [List.filterMap_eq_nil_iff.mpr hn]; rfl
    rw [hp, this, List.append_nil]
  · intro hn
    have : intLeaves args = [] := List.filterMap_eq_nil_iff.mpr hn
    rw [hp, this, List.append_nil]

/-- C17-type-grouping: `snark(f)(1.5, 2)` creates the public inputs `[2, 384]` (resolution 8): the int
argument comes first although it is the second argument -/
theorem C17_cex_order :
    (match snarkIn (.tuple [.flt 3 1, .int 2]) (St.init 97 8 8) with
      | .ok (_, s) => s.pub == [2, 384] && s.priv.length == 0 && s.cons.length == 0
      | _ => false) = true := by decide +kernel

/-- **outputs** (outside guarded regions): `snarkOut ret` reveals the `LinComb` leaves, then the
`LinCombFxp` leaves, then the `LinCombBool` leaves of `ret`, each group in traversal order: the public
values appended are exactly their values, the constraints appended are exactly one `0·0 = x − out` per
secret (`out` the fresh public wire), no private value is created, and the structure returned has the
same skeleton with every leaf replaced by `reveal` (the plain value for secrets, itself otherwise) -/
theorem C17_outputs {ret r : Val} {s s' : St} (hg : s.guard = none) (h : snarkOut ret s = .ok (r, s')) :
    let secrets := ret.leaves.filterMap Val.lcOf? ++ ret.leaves.filterMap Val.fxpOf? ++
      ret.leaves.filterMap Val.lcbOf?
    s' = s.reveal secrets ∧
    s'.pub = s.pub ++ secrets.map (·.value) ∧ s'.priv = s.priv ∧
    s'.cons = s.cons ++ revealCons s.pub.length secrets ∧
    (∀ (i : Nat) (hi : i < secrets.length),
      (revealCons s.pub.length secrets)[i]'(by rw [revealCons_length]; exact hi) =
        (LC.zero, LC.zero, (secrets[i].sub ⟨secrets[i].value, [(Wire.pub (s.pub.length + i), 1)]⟩).lc)) ∧
    r.skel = ret.skel ∧ r.leaves = ret.leaves.map (reveal s.resolution) := by
  intro secrets
  obtain ⟨e, hk, hl⟩ := snarkOut_spec hg h
  subst e
  exact ⟨rfl, rfl, rfl, rfl, fun i hi => revealCons_get _ _ i hi, hk, hl⟩

/-- **the returned structure contains no secret** -/
theorem C17_plain_return {ret r : Val} {s s' : St} (hg : s.guard = none)
    (h : snarkOut ret s = .ok (r, s')) : noSecret r := by
  obtain ⟨-, -, hl⟩ := snarkOut_spec hg h
  intro l hlm
  rw [hl] at hlm
  obtain ⟨v, hv, rfl⟩ := List.mem_map.mp hlm
  exact (reveal_not_secret _ v (leaves_isLeaf ret v hv)).1

/-- **a decorated call** decomposes into inputs / body / outputs with the states threaded through, so
the statements above apply to every call of a sequence (the state after one call is the state before
the next): publics of the call = int args, float args, [whatever the body makes public], outputs -/
theorem C17_call {fn : Val → M Val} {args r : Val} {s s' : St} (h : snarkCall fn args s = .ok (r, s'))
    (hfn : ∀ a s1 ret s2, fn a s1 = .ok (ret, s2) → s2.guard = none) :
    ∃ a s1 ret s2, snarkIn args s = .ok (a, s1) ∧ fn a s1 = .ok (ret, s2) ∧ snarkOut ret s2 = .ok (r, s') ∧
      s1.pub = s.pub ++ intLeaves args ++ fltLeaves s.resolution args ∧ s1.priv = s.priv ∧ s1.cons = s.cons ∧
      s' = s2.reveal (ret.leaves.filterMap Val.lcOf? ++ ret.leaves.filterMap Val.fxpOf? ++
        ret.leaves.filterMap Val.lcbOf?) ∧
      r.skel = ret.skel ∧ r.leaves = ret.leaves.map (reveal s2.resolution) ∧ noSecret r := by
  unfold snarkCall at h
  obtain ⟨a, s1, h1, hk⟩ := bind_ok.mp h
  obtain ⟨ret, s2, h2, h3⟩ := bind_ok.mp hk
  obtain ⟨-, hp, hpr, hc, -, -⟩ := C17_inputs h1
  have hg := hfn a s1 ret s2 h2
  obtain ⟨e, hk', hl⟩ := snarkOut_spec hg h3
  exact ⟨a, s1, ret, s2, h1, h2, h3, hp, hpr, hc, e, hk', hl, C17_plain_return hg h3⟩

/-! ## non-vacuity: `snark(lambda x, y: [x*x, (y, x)])(3, 1.5)` at resolution 8 -/
def exBody : Val → M Val
  | .tuple [x, y] => do let xx ← mulV x x; pure (.list [xx, .tuple [y, x]])
  | _ => raise .unmodelled

/-- publics: 3 (int arg), 384 (float arg), then outputs: `x*x = 9`, `x = 3` (LinComb pass), then
`y = 384` (LinCombFxp pass); returned `[9, (1.5, 3)]`; 1 product + 3 output constraints, all satisfied -/
example : (match snarkCall exBody (.tuple [.int 3, .flt 3 1]) (St.init 97 8 8) with
    | .ok (r, s) => s.pub == [3, 384, 9, 3, 384] && s.priv == [9] && s.cons.length == 4 &&
        r.same (.list [.int 9, .tuple [.flt 384 8, .int 3]]) &&
        s.cons.all (fun c => (LC.eval s.assign c.1 * LC.eval s.assign c.2.1 - LC.eval s.assign c.2.2) % 97 == 0)
    | _ => false) = true := by decide +kernel

end Pysnark
