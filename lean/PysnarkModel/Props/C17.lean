import PysnarkModel.Lemmas.Snark
import PysnarkModel.Model.Pack
/-!
# C17 — the `@snark` decorator (`Model/Snark.lean`)

`snarkIn` is `argscopy` (three `for_each_in` passes: ints → `PubVal`, floats → `PubValFxp`, bools →
unreachable), `snarkOut` is `retcopy` (three passes: `LinComb.val()`, `LinCombFxp.val()`,
`LinCombBool.val()`), `snarkCall fn args` the decorated call.  `v.leaves` are the leaves of a
list/tuple structure in traversal order, `v.skel` its list/tuple skeleton.

* `C17_inputs`: the publics created are exactly the int leaves (in order) followed by the scaled float
  leaves (in order); no private wire, no constraint.  This is GROUPED BY TYPE, not argument order —
  recorded deviation C17-type-grouping, closed counterexample `C17_cex_order`;
  `C17_inputs_single_kind` is the `_partial` form "in argument order" (all numeric leaves of one kind).
* `C17_outputs`: one public value + one constraint `0·0 = secret − output` per secret leaf of the
  returned structure (per pass), nothing else; every secret leaf is replaced by its plain value.
* `C17_plain_return`: the returned structure contains no secret.
* `C17_call`: the statements compose over a call, hence over sequences of calls (state in / out).
* `C17_outputs_guarded`, `C17_outputs_any_guard`, `C17_call_any_guard`: a decorated call made INSIDE a
  guarded region (`runtime.guard` set, e.g. under `guarded(cond)` or in an oblivious branch) publishes
  exactly the same values in the same order as outside one; the guard only changes how each output is
  tied (`0·0 = x − out + d`, `g·d = 0` with a private dummy `d = 0`).  Neither the number nor the order
  of the public values depends on the value of the guard (`C17_inputs` has no guard hypothesis at all).
-/
namespace Pysnark

/-- no secret (`LinComb`, `LinCombBool`, `LinCombFxp`) anywhere in the structure -/
def noSecret (v : Val) : Prop := ∀ l ∈ v.leaves, l.isSecret = false

/-- the int leaves, and the float leaves scaled to fixed point, in traversal order -/
def intLeaves (v : Val) : List Int := v.leaves.filterMap Val.intOf?
def fltLeaves (res : Nat) (v : Val) : List Int :=
  (v.leaves.filterMap Val.fltOf?).map (fun me => scaleFlt me.1 me.2 res)

/-- **inputs**: after `snarkIn args` the public values are the old ones, then every int leaf of `args`
in traversal order, then every float leaf (scaled by `2^resolution`) in traversal order; every other
component of the tracer state — private values, constraints, guard, configuration — is unchanged.
The structure keeps its skeleton; each int leaf is now a `LinComb` with that value, each float leaf a
`LinCombFxp` with the scaled value, other leaves are untouched (`inLeaf`, wires erased). -/
theorem C17_inputs {args r : Val} {s s' : St} (h : snarkIn args s = .ok (r, s')) :
    s' = { s with pub := s.pub ++ intLeaves args ++ fltLeaves s.resolution args } ∧
    s'.pub = s.pub ++ intLeaves args ++ fltLeaves s.resolution args ∧
    s'.priv = s.priv ∧ s'.cons = s.cons ∧
    r.skel = args.skel ∧ r.leaves.map Val.erase = args.leaves.map (inLeaf s.resolution) := by
  obtain ⟨e, hk, hl⟩ := snarkIn_spec h
  subst e
  refine ⟨?_, ?_, rfl, rfl, hk, hl⟩ <;> simp [St.addPub, intLeaves, fltLeaves, List.append_assoc]

/-- **inputs in argument order** when all numeric leaves are of one kind -/
theorem C17_inputs_single_kind {args r : Val} {s s' : St} (h : snarkIn args s = .ok (r, s')) :
    ((∀ l ∈ args.leaves, l.fltOf? = Option.none) → s'.pub = s.pub ++ intLeaves args) ∧
    ((∀ l ∈ args.leaves, l.intOf? = Option.none) → s'.pub = s.pub ++ fltLeaves s.resolution args) := by
  obtain ⟨-, hp, -⟩ := C17_inputs h
  constructor
  · intro hn
    have : fltLeaves s.resolution args = [] := by
      unfold fltLeaves
      rw [List.filterMap_eq_nil_iff.mpr hn]; rfl
    rw [hp, this, List.append_nil]
  · intro hn
    have : intLeaves args = [] := List.filterMap_eq_nil_iff.mpr hn
    rw [hp, this, List.append_nil]

/-- C17-type-grouping: `snark(f)(1.5, 2)` creates the public inputs `[2, 384]` (resolution 8): the int
argument comes first although it is the second argument -/
theorem C17_cex_order :
    (match snarkIn (.tuple [.flt 3 1, .int 2]) (St.init 97 8 8) with
      | .ok (_, s) => s.pub == [2, 384] && s.priv.length == 0 && s.cons.length == 0
      | _ => false) = true := by decide +kernel

/-- **outputs** (outside guarded regions): `snarkOut ret` reveals the `LinComb` leaves, then the
`LinCombFxp` leaves, then the `LinCombBool` leaves of `ret`, each group in traversal order: the public
values appended are exactly their values, the constraints appended are exactly one `0·0 = x − out` per
secret (`out` the fresh public wire), no private value is created, and the structure returned has the
same skeleton with every leaf replaced by `reveal` (the plain value for secrets, itself otherwise) -/
theorem C17_outputs {ret r : Val} {s s' : St} (hg : s.guard = none) (h : snarkOut ret s = .ok (r, s')) :
    let secrets := ret.leaves.filterMap Val.lcOf? ++ ret.leaves.filterMap Val.fxpOf? ++
      ret.leaves.filterMap Val.lcbOf?
    s' = s.reveal secrets ∧
    s'.pub = s.pub ++ secrets.map (·.value) ∧ s'.priv = s.priv ∧
    s'.cons = s.cons ++ revealCons s.pub.length secrets ∧
    (∀ (i : Nat) (hi : i < secrets.length),
      (revealCons s.pub.length secrets)[i]'(by rw [revealCons_length]; exact hi) =
        (LC.zero, LC.zero, (secrets[i].sub ⟨secrets[i].value, [(Wire.pub (s.pub.length + i), 1)]⟩).lc)) ∧
    r.skel = ret.skel ∧ r.leaves = ret.leaves.map (reveal s.resolution) := by
  intro secrets
  obtain ⟨e, hk, hl⟩ := snarkOut_spec hg h
  subst e
  exact ⟨rfl, rfl, rfl, rfl, fun i hi => revealCons_get _ _ i hi, hk, hl⟩

/-- **the returned structure contains no secret** -/
theorem C17_plain_return {ret r : Val} {s s' : St} (hg : s.guard = none)
    (h : snarkOut ret s = .ok (r, s')) : noSecret r := by
  obtain ⟨-, -, hl⟩ := snarkOut_spec hg h
  intro l hlm
  rw [hl] at hlm
  obtain ⟨v, hv, rfl⟩ := List.mem_map.mp hlm
  exact (reveal_not_secret _ v (leaves_isLeaf ret v hv)).1

/-- **a decorated call** decomposes into inputs / body / outputs with the states threaded through, so
the statements above apply to every call of a sequence (the state after one call is the state before
the next): publics of the call = int args, float args, [whatever the body makes public], outputs -/
theorem C17_call {fn : Val → M Val} {args r : Val} {s s' : St} (h : snarkCall fn args s = .ok (r, s'))
    (hfn : ∀ a s1 ret s2, fn a s1 = .ok (ret, s2) → s2.guard = none) :
    ∃ a s1 ret s2, snarkIn args s = .ok (a, s1) ∧ fn a s1 = .ok (ret, s2) ∧ snarkOut ret s2 = .ok (r, s') ∧
      s1.pub = s.pub ++ intLeaves args ++ fltLeaves s.resolution args ∧ s1.priv = s.priv ∧ s1.cons = s.cons ∧
      s' = s2.reveal (ret.leaves.filterMap Val.lcOf? ++ ret.leaves.filterMap Val.fxpOf? ++
        ret.leaves.filterMap Val.lcbOf?) ∧
      r.skel = ret.skel ∧ r.leaves = ret.leaves.map (reveal s2.resolution) ∧ noSecret r := by
  unfold snarkCall at h
  obtain ⟨a, s1, h1, hk⟩ := bind_ok.mp h
  obtain ⟨ret, s2, h2, h3⟩ := bind_ok.mp hk
  obtain ⟨-, hp, hpr, hc, -, -⟩ := C17_inputs h1
  have hg := hfn a s1 ret s2 h2
  obtain ⟨e, hk', hl⟩ := snarkOut_spec hg h3
  exact ⟨a, s1, ret, s2, h1, h2, h3, hp, hpr, hc, e, hk', hl, C17_plain_return hg h3⟩

/-- **outputs inside a guarded region** (`runtime.guard` is some `g`, of value 0 or 1): the public values
appended are exactly the same as outside a guarded region — the values of the `LinComb`, then `LinCombFxp`,
then `LinCombBool` leaves, in traversal order —; per secret one private dummy of value 0 and the two
constraints `0·0 = x − out + d`, `g·d = 0` are appended; the guard is still `g` afterwards; the returned
structure is the same as outside a guarded region and contains no secret.  The value of `g` occurs nowhere
in the conclusion. -/
theorem C17_outputs_guarded {ret r : Val} {g : LinComb} {s s' : St} (hg : s.guard = some g)
    (h : snarkOut ret s = .ok (r, s')) :
    let secrets := ret.leaves.filterMap Val.lcOf? ++ ret.leaves.filterMap Val.fxpOf? ++
      ret.leaves.filterMap Val.lcbOf?
    s' = s.revealG g secrets ∧
    s'.pub = s.pub ++ secrets.map (·.value) ∧ s'.priv = s.priv ++ List.replicate secrets.length 0 ∧
    s'.cons = s.cons ++ revealConsG g s.pub.length s.priv.length secrets ∧
    (revealConsG g s.pub.length s.priv.length secrets).length = 2 * secrets.length ∧
    s'.guard = some g ∧
    r.skel = ret.skel ∧ r.leaves = ret.leaves.map (reveal s.resolution) ∧ noSecret r := by
  intro secrets
  obtain ⟨e, hk, hl⟩ := snarkOut_spec_guarded hg h
  subst e
  refine ⟨rfl, rfl, rfl, rfl, revealConsG_length _ _ _ _, hg, hk, hl, ?_⟩
  intro l hlm
  rw [hl] at hlm
  obtain ⟨v, hv, rfl⟩ := List.mem_map.mp hlm
  exact (reveal_not_secret _ v (leaves_isLeaf ret v hv)).1

/-- **the public outputs do not depend on the guard**: in ANY tracer state — no guard, a guard of value 1,
a guard of value 0 — `snarkOut ret` appends exactly the values of the secret leaves of `ret` (pass by pass,
in traversal order) to the public values and returns the same plain structure -/
theorem C17_outputs_any_guard {ret r : Val} {s s' : St} (h : snarkOut ret s = .ok (r, s')) :
    s'.pub = s.pub ++ (ret.leaves.filterMap Val.lcOf? ++ ret.leaves.filterMap Val.fxpOf? ++
      ret.leaves.filterMap Val.lcbOf?).map (·.value) ∧
    s'.guard = s.guard ∧
    r.skel = ret.skel ∧ r.leaves = ret.leaves.map (reveal s.resolution) ∧ noSecret r := by
  cases hs : s.guard with
  | none =>
    obtain ⟨e, hk, hl⟩ := snarkOut_spec hs h
    subst e
    exact ⟨rfl, hs, hk, hl, C17_plain_return hs h⟩
  | some g =>
    obtain ⟨-, hp, -, -, -, hg', hk, hl, hn⟩ := C17_outputs_guarded hs h
    exact ⟨hp, hg', hk, hl, hn⟩

/-- **a decorated call in any tracer state** (inside or outside a guarded region, whatever the body does to
the guard): the publics it appends are the int arguments, the float arguments, [whatever the body makes
public], then one output per secret result leaf; none of the counts or positions mentions the guard -/
theorem C17_call_any_guard {fn : Val → M Val} {args r : Val} {s s' : St}
    (h : snarkCall fn args s = .ok (r, s')) :
    ∃ a s1 ret s2, snarkIn args s = .ok (a, s1) ∧ fn a s1 = .ok (ret, s2) ∧ snarkOut ret s2 = .ok (r, s') ∧
      s1.pub = s.pub ++ intLeaves args ++ fltLeaves s.resolution args ∧ s1.priv = s.priv ∧ s1.cons = s.cons ∧
      s1.guard = s.guard ∧
      s'.pub = s2.pub ++ (ret.leaves.filterMap Val.lcOf? ++ ret.leaves.filterMap Val.fxpOf? ++
        ret.leaves.filterMap Val.lcbOf?).map (·.value) ∧ s'.guard = s2.guard ∧
      r.skel = ret.skel ∧ r.leaves = ret.leaves.map (reveal s2.resolution) ∧ noSecret r := by
  unfold snarkCall at h
  obtain ⟨a, s1, h1, hk⟩ := bind_ok.mp h
  obtain ⟨ret, s2, h2, h3⟩ := bind_ok.mp hk
  obtain ⟨e1, hp, hpr, hc, -, -⟩ := C17_inputs h1
  obtain ⟨o1, o2, o3, o4, o5⟩ := C17_outputs_any_guard h3
  exact ⟨a, s1, ret, s2, h1, h2, h3, hp, hpr, hc, by rw [e1], o1, o2, o3, o4, o5⟩

/-! ## non-vacuity: `snark(lambda x, y: [x*x, (y, x)])(3, 1.5)` at resolution 8 -/
def exBody : Val → M Val
  | .tuple [x, y] => do let xx ← mulV x x; pure (.list [xx, .tuple [y, x]])
  | _ => raise .unmodelled

/-- publics: 3 (int arg), 384 (float arg), then outputs: `x*x = 9`, `x = 3` (LinComb pass), then
`y = 384` (LinCombFxp pass); returned `[9, (1.5, 3)]`; 1 product + 3 output constraints, all satisfied -/
example : (match snarkCall exBody (.tuple [.int 3, .flt 3 1]) (St.init 97 8 8) with
    | .ok (r, s) => s.pub == [3, 384, 9, 3, 384] && s.priv == [9] && s.cons.length == 4 &&
        r.same (.list [.int 9, .tuple [.flt 384 8, .int 3]]) &&
        s.cons.all (fun c => (LC.eval s.assign c.1 * LC.eval s.assign c.2.1 - LC.eval s.assign c.2.2) % 97 == 0)
    | _ => false) = true := by decide +kernel

/-- the tracer state inside `guarded(PrivVal(gv))`: the guard is private wire 0 (value `gv`), errors are
suppressed when it is 0, and `LinComb.ONE` is the guard -/
def exGuardSt (gv : Int) : St :=
  { St.init 97 8 8 with priv := [gv], guard := some ⟨gv, [(Wire.priv 0, 1)]⟩, ignoreErrors := gv == 0,
                        one := ⟨gv, [(Wire.priv 0, 1)]⟩ }

/-- non-vacuity of the guarded statements: the same call inside `guarded(PrivVal(1))` and inside
`guarded(PrivVal(0))` publishes the same five values as outside a guarded region, adds one private dummy 0
per output (3) after the product wire, 1 + 2·3 constraints, all satisfied by the recorded witness -/
example : [0, 1].all (fun gv =>
    match snarkCall exBody (.tuple [.int 3, .flt 3 1]) (exGuardSt gv) with
    | .ok (r, s) => s.pub == [3, 384, 9, 3, 384] && s.priv == [gv, 9, 0, 0, 0] && s.cons.length == 7 &&
        r.same (.list [.int 9, .tuple [.flt 384 8, .int 3]]) &&
        s.cons.all (fun c => (LC.eval s.assign c.1 * LC.eval s.assign c.2.1 - LC.eval s.assign c.2.2) % 97 == 0)
    | _ => false) = true := by decide +kernel

end Pysnark
