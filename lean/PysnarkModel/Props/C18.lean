import PysnarkModel.Model.AtExit
import PysnarkModel.Gen.Api
import PysnarkModel.Gen.Constants
/-!
# C18 — proof artefacts are emitted at exit only for successful runs, and completely

Quantifier: ALL scripts of the model (`Model/AtExit.lean`): any number of operations, any `k`, any
list of earlier caught `sys.exit` calls, any termination event, any exit-argument object class.
The full-strength statement `C18_full` is FALSE for the code under verification; the recorded
deviations are the closed counterexamples below, and `C18_emit_iff_partial` states exactly on which
scripts "artefacts emitted ↔ exit status 0" holds.
-/
namespace Pysnark
open Pysnark.AtExit

/-! ## The well-behaved set -/

/-- exit arguments on which the interposer's test (`is None or == 0`) and CPython's exit status
agree: excluded are non-zero ints whose status wraps to 0 (multiples of 256: `sys.exit(256)` is
*skipped* with status 0) and the float zero (`sys.exit(0.0)` *emits* with status 1) -/
def ExitArg.regular : ExitArg → Bool
  | .int n => n == 0 || n % 256 != 0
  | .flt nonzero => nonzero
  | _ => true

/-- terminations that go through the two interposed entry points (`sys.exit`, `sys.excepthook`)
or fall off the end, with a regular argument -/
def Term.wellBehaved : Term → Bool
  | .fallOff => true
  | .sysExit none => true
  | .sysExit (some a) => ExitArg.regular a
  | .uncaught => true
  | .keyboardInterrupt => true
  | .raiseSystemExit _ => false
  | .builtinExit _ => false
  | .osExit _ => false

/-! ## Universal theorems -/

/-- the prover runs at most once, and when it runs it sees every operation executed before the
termination event -/
theorem C18_once_complete (s : Script) :
    (runScript s).proveCalls ≤ 1 ∧ ((runScript s).proveCalls = 1 → (runScript s).provedOps = s.k) := by
  unfold runScript
  generalize terminate (afterCaught s.caught) s.term = p
  obtain ⟨h, e⟩ := p
  dsimp only
  cases hr : e.hooksRun <;> cases hf : h.runsFinal <;> cases ha : s.autoprove <;> simp

/-- completeness against the script length: a well-formed script that runs to the end is proved
over all `n` operations; no run is ever proved over more than `n` -/
theorem C18_complete_trace (s : Script) (wf : s.WF) :
    (runScript s).provedOps ≤ s.n ∧
    (s.term = .fallOff → (runScript s).proveCalls = 1 → (runScript s).provedOps = s.n) := by
  obtain ⟨h1, h2⟩ := C18_once_complete s
  have hle : (runScript s).provedOps ≤ s.k := by
    unfold runScript
    generalize terminate (afterCaught s.caught) s.term = p
    obtain ⟨h, e⟩ := p
    dsimp only
    cases hr : e.hooksRun <;> cases hf : h.runsFinal <;> cases ha : s.autoprove <;> simp
  exact ⟨Nat.le_trans hle wf.1, fun ht hp => (h2 hp).trans (wf.2 ht)⟩

/-- the prover runs exactly when automatic proving is on and `final()` is entered -/
theorem C18_prove_iff_final (s : Script) :
    (runScript s).proveCalls = 1 ↔ (s.autoprove = true ∧ finalReached s = true) := by
  unfold runScript finalReached
  generalize terminate (afterCaught s.caught) s.term = p
  obtain ⟨h, e⟩ := p
  dsimp only
  cases hr : e.hooksRun <;> cases hf : h.runsFinal <;> cases ha : s.autoprove <;> simp

/-- the exit hook itself never fails (finding C18-hook-attribute-error, repaired: the pinned code
raised AttributeError when `final()` was entered with automatic proving off on a backend without
`process_snark`) -/
theorem C18_hook_never_fails (s : Script) : (runScript s).hookFailed = false := by
  unfold runScript
  generalize terminate (afterCaught s.caught) s.term = p
  obtain ⟨h, e⟩ := p
  dsimp only
  cases hr : e.hooksRun <;> cases hf : h.runsFinal <;> cases ha : s.autoprove <;> simp

/-- with automatic proving off nothing is proved and the hook does not fail — for EVERY script -/
theorem C18_off_silent (s : Script) (off : s.autoprove = false) :
    (runScript s).proveCalls = 0 ∧ (runScript s).hookFailed = false := by
  refine ⟨?_, C18_hook_never_fails s⟩
  have h1 := (C18_once_complete s).1
  rcases Nat.lt_or_ge (runScript s).proveCalls 1 with h | h
  · omega
  · have : (runScript s).proveCalls = 1 := by omega
    have := (C18_prove_iff_final s).mp this
    simp [off] at this

/-- only the LAST recorded `sys.exit` argument matters: the interposer overwrites `exitcode` -/
theorem C18_caught_last_wins (s : Script) (cs : List ExitArg) (a : ExitArg) :
    runScript { s with caught := cs ++ [a] } = runScript { s with caught := [a] } := by
  have hex : ∀ (cs : List ExitArg) (h : Hook),
      (cs.foldl (fun h a => (h.exit (some a)).1) h).exception = h.exception := by
    intro cs
    induction cs with
    | nil => intro h; rfl
    | cons c cs ih => intro h; rw [List.foldl_cons, ih]; rfl
  have : afterCaught (cs ++ [a]) = afterCaught [a] := by
    simp only [afterCaught, List.foldl_append, List.foldl_cons, List.foldl_nil, Hook.exit,
      Option.getD_some, Hook.mk.injEq, true_and]
    exact hex cs {}
  simp only [runScript, this]

private theorem int_status_zero_of_regular {n : Int} (hreg : (n == 0 || n % 256 != 0) = true)
    (hst : (if fitsLong n = true then n % 256 else 255) = 0) : n = 0 := by
  split at hst
  · simp at hreg
    rcases hreg with h | h
    · exact h
    · exact absurd hst h
  · omega

/-- **emitted ↔ success**, on the well-behaved set: automatic proving on, no earlier caught exit,
termination by falling off the end, `sys.exit` (with a regular argument), an uncaught exception or
KeyboardInterrupt -/
theorem C18_emit_iff_partial (s : Script) (on : s.autoprove = true) (nc : s.caught = [])
    (wb : Term.wellBehaved s.term = true) :
    (runScript s).proveCalls = 1 ↔ (runScript s).status = 0 := by
  obtain ⟨n, k, caught, term, ap, ps⟩ := s
  simp only at on nc wb
  subst on nc
  cases term with
  | fallOff => simp [runScript, terminate, afterCaught, End.hooksRun, Hook.runsFinal, ExitArg.isNone, End.status]
  | uncaught => simp [runScript, terminate, afterCaught, End.hooksRun, Hook.runsFinal, Hook.excepthook, End.status]
  | keyboardInterrupt => simp [runScript, terminate, afterCaught, End.hooksRun, Hook.runsFinal, Hook.excepthook, End.status]
  | raiseSystemExit a => simp [Term.wellBehaved] at wb
  | builtinExit a => simp [Term.wellBehaved] at wb
  | osExit m => simp [Term.wellBehaved] at wb
  | sysExit a =>
    cases a with
    | none =>
      simp [runScript, terminate, afterCaught, End.hooksRun, Hook.runsFinal, Hook.exit,
        ExitArg.isNone, ExitArg.eqZero, End.status, ExitArg.status, fitsLong]
    | some a =>
      cases a with
      | int m =>
        simp only [Term.wellBehaved, ExitArg.regular] at wb
        by_cases hm : m = 0
        · subst hm
          simp [runScript, terminate, afterCaught, End.hooksRun, Hook.runsFinal, Hook.exit,
            ExitArg.isNone, ExitArg.eqZero, End.status, ExitArg.status, fitsLong]
        · have hne : ¬ ((if fitsLong m = true then m % 256 else 255) = 0) :=
            fun h => hm (int_status_zero_of_regular wb h)
          simp [runScript, terminate, afterCaught, End.hooksRun, Hook.runsFinal, Hook.exit,
            ExitArg.isNone, ExitArg.eqZero, End.status, ExitArg.status, hm, hne]
      | none => simp [runScript, terminate, afterCaught, End.hooksRun, Hook.runsFinal, Hook.exit,
          ExitArg.isNone, ExitArg.eqZero, End.status, ExitArg.status]
      | str b => simp [runScript, terminate, afterCaught, End.hooksRun, Hook.runsFinal, Hook.exit,
          ExitArg.isNone, ExitArg.eqZero, End.status, ExitArg.status]
      | bool b => cases b <;> simp [runScript, terminate, afterCaught, End.hooksRun, Hook.runsFinal,
          Hook.exit, ExitArg.isNone, ExitArg.eqZero, End.status, ExitArg.status]
      | flt b =>
        simp only [Term.wellBehaved, ExitArg.regular] at wb
        subst wb
        simp [runScript, terminate, afterCaught, End.hooksRun, Hook.runsFinal, Hook.exit,
          ExitArg.isNone, ExitArg.eqZero, End.status, ExitArg.status]
      | other b => simp [runScript, terminate, afterCaught, End.hooksRun, Hook.runsFinal, Hook.exit,
          ExitArg.isNone, ExitArg.eqZero, End.status, ExitArg.status]

/-- on the well-behaved set a failing run (status ≠ 0) prints the "skipping" message instead -/
theorem C18_skip_msg_partial (s : Script) (on : s.autoprove = true) (nc : s.caught = [])
    (wb : Term.wellBehaved s.term = true) :
    (runScript s).skippedMsg = true ↔ (runScript s).status ≠ 0 := by
  rw [Ne, ← C18_emit_iff_partial s on nc wb]
  unfold runScript
  obtain ⟨n, k, caught, term, ap, ps⟩ := s
  simp only at on nc wb
  subst on nc
  generalize hp : terminate (afterCaught []) term = p
  obtain ⟨h, e⟩ := p
  dsimp only
  have hr : e.hooksRun = true := by
    cases term <;> simp [terminate, Term.wellBehaved] at hp wb <;>
      (try obtain ⟨_, rfl⟩ := hp) <;> simp [End.hooksRun]
  cases hf : h.runsFinal <;> simp [hr]

/-! ## Recorded deviations: closed counterexamples -/

private def mk (n k : Nat) (cs : List ExitArg) (t : Term) (ap ps : Bool) : Script :=
  { n := n, k := k, caught := cs, term := t, autoprove := ap, hasProcessSnark := ps }

/-- regression witness of the repaired finding C18-hook-attribute-error: automatic proving off,
backend without `process_snark`, normal end: nothing is produced and the hook does not fail -/
theorem C18_autoprove_off_regression :
    (runScript (mk 5 5 [] .fallOff false false)).hookFailed = false ∧
    (runScript (mk 5 5 [] .fallOff false false)).proveCalls = 0 ∧
    (runScript (mk 5 5 [] .fallOff false false)).status = 0 := by decide

/-- DEVIATION: `raise SystemExit(3)` does not pass through the interposed `sys.exit`: status 3, but
the artefacts are emitted -/
theorem C18_cex_raise_systemexit :
    (runScript (mk 5 2 [] (.raiseSystemExit (.int 3)) true false)).status = 3 ∧
    (runScript (mk 5 2 [] (.raiseSystemExit (.int 3)) true false)).proveCalls = 1 := by decide

/-- DEVIATION: builtin `exit(1)` / `quit(1)` (`site.Quitter`) raises `SystemExit` itself -/
theorem C18_cex_builtin_exit :
    (runScript (mk 5 2 [] (.builtinExit (.int 1)) true false)).status = 1 ∧
    (runScript (mk 5 2 [] (.builtinExit (.int 1)) true false)).proveCalls = 1 := by decide

/-- DEVIATION: a caught `sys.exit(3)` followed by a normal end: status 0 but nothing is emitted -/
theorem C18_cex_caught_exit :
    (runScript (mk 5 5 [.int 3] .fallOff true false)).status = 0 ∧
    (runScript (mk 5 5 [.int 3] .fallOff true false)).proveCalls = 0 ∧
    (runScript (mk 5 5 [.int 3] .fallOff true false)).skippedMsg = true := by decide

/-- DEVIATION (the other direction of the same cause): a caught `sys.exit(0)` masks nothing, but a
caught `sys.exit(3)` followed by `raise SystemExit(0)` is skipped with status 0, and a caught
`sys.exit(0)` followed by `raise SystemExit(3)` emits with status 3 -/
theorem C18_cex_caught_then_raise :
    (runScript (mk 5 5 [.int 0] (.raiseSystemExit (.int 3)) true false)).status = 3 ∧
    (runScript (mk 5 5 [.int 0] (.raiseSystemExit (.int 3)) true false)).proveCalls = 1 := by decide

/-- DEVIATION: `sys.exit(256)`: the status wraps to 0 (success for every caller) but the interposer
compares the unreduced object with 0: nothing is emitted -/
theorem C18_cex_exit_256 :
    (runScript (mk 5 2 [] (.sysExit (some (.int 256))) true false)).status = 0 ∧
    (runScript (mk 5 2 [] (.sysExit (some (.int 256))) true false)).proveCalls = 0 := by decide

/-- DEVIATION: `sys.exit(0.0)`: `0.0 == 0` so the artefacts are emitted, but CPython treats a float
as "other object": printed, status 1 -/
theorem C18_cex_exit_float_zero :
    (runScript (mk 5 2 [] (.sysExit (some (.flt false))) true false)).status = 1 ∧
    (runScript (mk 5 2 [] (.sysExit (some (.flt false))) true false)).proveCalls = 1 := by decide

/-- by design of `os._exit`: status 0 and no exit hook at all -/
theorem C18_cex_os_exit :
    (runScript (mk 5 5 [] (.osExit 0) true false)).status = 0 ∧
    (runScript (mk 5 5 [] (.osExit 0) true false)).proveCalls = 0 ∧
    (runScript (mk 5 5 [] (.osExit 0) true false)).skippedMsg = false := by decide

/-! ## The full-strength statement, and its refutation -/

/-- C18 as written: for EVERY script, with automatic proving on the prover runs (once, over the
complete trace) exactly when the exit status is 0; with automatic proving off nothing is produced
and the hook does not fail -/
def C18_full : Prop := ∀ s : Script, s.WF →
  (s.autoprove = true → ((runScript s).proveCalls = 1 ↔ (runScript s).status = 0)) ∧
  (runScript s).proveCalls ≤ 1 ∧
  ((runScript s).proveCalls = 1 → (runScript s).provedOps = s.k) ∧
  (s.autoprove = false → (runScript s).proveCalls = 0 ∧ (runScript s).hookFailed = false)

theorem C18_full_false : ¬ C18_full := by
  intro h
  have h1 := (h (mk 5 2 [] (.raiseSystemExit (.int 3)) true false) (by decide)).1 rfl
  have h2 := h1.mp C18_cex_raise_systemexit.2
  rw [C18_cex_raise_systemexit.1] at h2
  exact absurd h2 (by decide)

/-- each conjunct that fails, fails on its own: the "on" half … -/
theorem C18_full_on_false :
    ¬ ∀ s : Script, s.WF → s.autoprove = true →
        ((runScript s).proveCalls = 1 ↔ (runScript s).status = 0) := by
  intro h
  have h1 := h (mk 5 5 [.int 3] .fallOff true false) (by decide) rfl
  have := h1.mpr C18_cex_caught_exit.1
  rw [C18_cex_caught_exit.2.1] at this
  exact absurd this (by decide)

/-- … while the "off" half holds for every script -/
theorem C18_full_off : ∀ s : Script, s.autoprove = false →
    (runScript s).proveCalls = 0 ∧ (runScript s).hookFailed = false := C18_off_silent

/-! ## Non-vacuity -/

/-- the shipped default is "automatic proving on" -/
example : Gen.defaultAutoprove = true := by decide

-- well-behaved, successful: emitted once over the whole trace
example : runScript (mk 7 7 [] .fallOff true false)
    = { status := 0, proveCalls := 1, provedOps := 7, hookFailed := false, skippedMsg := false } := by decide
example : runScript (mk 7 4 [] (.sysExit none) true false)
    = { status := 0, proveCalls := 1, provedOps := 4, hookFailed := false, skippedMsg := false } := by decide
example : runScript (mk 7 4 [] (.sysExit (some .none)) true false)
    = { status := 0, proveCalls := 1, provedOps := 4, hookFailed := false, skippedMsg := false } := by decide
example : runScript (mk 7 4 [] (.sysExit (some (.bool false))) true false)
    = { status := 0, proveCalls := 1, provedOps := 4, hookFailed := false, skippedMsg := false } := by decide
-- well-behaved, failing: skipped with the message
example : runScript (mk 7 4 [] (.sysExit (some (.int 3))) true false)
    = { status := 3, proveCalls := 0, provedOps := 0, hookFailed := false, skippedMsg := true } := by decide
example : runScript (mk 7 4 [] (.sysExit (some (.int (-1)))) true false)
    = { status := 255, proveCalls := 0, provedOps := 0, hookFailed := false, skippedMsg := true } := by decide
example : runScript (mk 7 4 [] (.sysExit (some (.int 18446744073709551619))) true false)
    = { status := 255, proveCalls := 0, provedOps := 0, hookFailed := false, skippedMsg := true } := by decide
example : runScript (mk 7 4 [] (.sysExit (some (.str false))) true false)
    = { status := 1, proveCalls := 0, provedOps := 0, hookFailed := false, skippedMsg := true } := by decide
example : runScript (mk 7 4 [] (.sysExit (some (.bool true))) true false)
    = { status := 1, proveCalls := 0, provedOps := 0, hookFailed := false, skippedMsg := true } := by decide
example : runScript (mk 7 4 [] (.sysExit (some (.other false))) true false)
    = { status := 1, proveCalls := 0, provedOps := 0, hookFailed := false, skippedMsg := true } := by decide
example : runScript (mk 7 4 [] .uncaught true false)
    = { status := 1, proveCalls := 0, provedOps := 0, hookFailed := false, skippedMsg := true } := by decide
example : runScript (mk 7 4 [] .keyboardInterrupt true false)
    = { status := 130, proveCalls := 0, provedOps := 0, hookFailed := false, skippedMsg := true } := by decide
example : runScript (mk 7 4 [] (.osExit 2147483648) true false)
    = { status := 1, proveCalls := 0, provedOps := 0, hookFailed := false, skippedMsg := true } := by decide
-- the hypotheses of the partial theorems are satisfiable, both sides of the ↔ occur
example : Term.wellBehaved (.sysExit (some (.int 3))) = true ∧ Term.wellBehaved .fallOff = true ∧
    Term.wellBehaved (.sysExit (some (.int 256))) = false ∧
    Term.wellBehaved (.sysExit (some (.flt false))) = false := by decide
-- automatic proving off on libsnark (has `process_snark`): silent
example : runScript (mk 7 7 [] .fallOff false true)
    = { status := 0, proveCalls := 0, provedOps := 0, hookFailed := false, skippedMsg := false } := by decide
-- the last recorded exit wins
example : (runScript (mk 7 7 [.int 3, .int 0] .fallOff true false)).proveCalls = 1 := by decide


/-- **API surface pinned** (regenerated from the source on every run, `Gen/Api.lean`): the methods the model of this
property transcribes are exactly the methods the code has.  A method added to the code (say an in-place `__iadd__`, which
Python would prefer over the `__add__` the model knows) or removed from it changes the generated list and this obligation
fails: the tie is then broken by construction and the check runs its extended search. -/
theorem C18_api_surface :
    Gen.api_atexitmaybe = ["ExitOverrider.__init__", "ExitOverrider.exit", "ExitOverrider.excepthook", "maybe"] := rfl

end Pysnark
