import PysnarkModel.Model.Select
import PysnarkModel.Gen.Api
import PysnarkModel.Gen.Constants
/-!
# C19 — the backend in use is the one the configuration names

Quantifier: the general theorems hold for EVERY configuration over ANY registry (names distinct
where stated): any preimported set, any `PYSNARK_BACKEND` value, any loadability oracle, IPython
or not; the proofs reason over the registry list, they do not enumerate it.  The instantiation to
the real registry `Gen.backends` (regenerated from the source on every run) follows.

Recorded deviation (`C19_cex_derived_preimport`): the derived zkinterface modules import their base
module and re-parameterise it (`set_modulus`); the base module precedes them in the registry, so
after `import pysnark.zkinterface.backendbellman` the runtime reports "zkinterface" while the field
in effect is bellman's.
-/
namespace Pysnark
open Pysnark.Select

/-! ## List lemmas about the three loops -/

theorem stage1_none {reg : List (String × String)} {pre : List String}
    (h : ∀ e ∈ reg, e.2 ∉ pre) : stage1 reg pre = none := by
  simp only [stage1, List.find?_eq_none]
  intro e he
  simpa using h e he

theorem stage1_split {pre : List String} {e : String × String} (a b : List (String × String))
    (ha : ∀ x ∈ a, x.2 ∉ pre) (he : e.2 ∈ pre) : stage1 (a ++ e :: b) pre = some e := by
  induction a with
  | nil => simp [stage1, he]
  | cons x a ih =>
    have hx : x.2 ∉ pre := ha x (by simp)
    have ih' := ih (fun y hy => ha y (by simp [hy]))
    have hc : pre.contains x.2 = false := by simpa using hx
    simp only [stage1] at ih' ⊢
    rw [List.cons_append, List.find?_cons, hc]
    exact ih'

theorem stage1_some_mem {reg : List (String × String)} {pre : List String} {e : String × String}
    (h : stage1 reg pre = some e) : e ∈ reg ∧ e.2 ∈ pre := by
  simp only [stage1] at h
  exact ⟨List.mem_of_find?_eq_some h, by simpa using List.find?_some h⟩

theorem envLoop_notin (l : String → Bool) (v : String) (reg : List (String × String))
    (acc : Option (String × String)) (h : v ∉ reg.map Prod.fst) : envLoop l v reg acc = .ok acc := by
  induction reg generalizing acc with
  | nil => rfl
  | cons e r ih =>
    simp only [List.map_cons, List.mem_cons, not_or] at h
    simp [envLoop, h.1, ih _ h.2]

theorem envLoop_known (l : String → Bool) (v m : String) (reg : List (String × String))
    (acc : Option (String × String)) (nd : (reg.map Prod.fst).Nodup) (hm : (v, m) ∈ reg) :
    envLoop l v reg acc = if l m then .ok (some (v, m)) else .error m := by
  induction reg generalizing acc with
  | nil => simp at hm
  | cons e r ih =>
    simp only [List.map_cons, List.nodup_cons] at nd
    by_cases hv : v = e.1
    · have he : e = (v, m) := by
        rcases List.mem_cons.mp hm with h | h
        · exact h.symm
        · exact absurd (List.mem_map_of_mem (f := Prod.fst) h) (by simpa [hv] using nd.1)
      subst he
      simp only [envLoop, beq_self_eq_true, if_true]
      split
      · exact envLoop_notin l v r _ nd.1
      · rfl
    · have hm' : (v, m) ∈ r := by
        rcases List.mem_cons.mp hm with h | h
        · exact absurd (by rw [← h]) hv
        · exact h
      simp [envLoop, hv, ih acc nd.2 hm']

theorem envLoop_some_ne (l : String → Bool) (v : String) (reg : List (String × String))
    (x : String × String) : envLoop l v reg (some x) ≠ .ok none := by
  induction reg generalizing x with
  | nil => simp [envLoop]
  | cons e r ih =>
    simp only [envLoop]
    split
    · split
      · exact ih e
      · simp
    · exact ih x

theorem envLoop_named_ne (l : String → Bool) (v : String) (reg : List (String × String))
    (acc : Option (String × String)) (h : v ∈ reg.map Prod.fst) : envLoop l v reg acc ≠ .ok none := by
  induction reg generalizing acc with
  | nil => simp at h
  | cons e r ih =>
    simp only [envLoop]
    by_cases hv : v = e.1
    · simp only [hv, beq_self_eq_true, if_true]
      split
      · exact envLoop_some_ne l _ r e
      · simp
    · have : v ∈ r.map Prod.fst := by
        simp only [List.map_cons, List.mem_cons] at h
        exact h.resolve_left hv
      simp [hv, ih acc this]

theorem envLoop_ok_mem (l : String → Bool) (v : String) (reg : List (String × String))
    (acc : Option (String × String)) (e : String × String) (h : envLoop l v reg acc = .ok (some e)) :
    e ∈ reg ∨ acc = some e := by
  induction reg generalizing acc with
  | nil => simp only [envLoop, Except.ok.injEq] at h; exact .inr h
  | cons x r ih =>
    simp only [envLoop] at h
    split at h
    · split at h
      · rcases ih _ h with h' | h'
        · exact .inl (List.mem_cons_of_mem _ h')
        · simp only [Option.some.injEq] at h'; exact .inl (by simp [h'])
      · simp at h
    · rcases ih _ h with h' | h'
      · exact .inl (List.mem_cons_of_mem _ h')
      · exact .inr h'

theorem autoLoop_split (l : String → Bool) {e : String × String} (a b : List (String × String))
    (ha : ∀ x ∈ a, l x.2 = false) (he : l e.2 = true) :
    autoLoop l (a ++ e :: b) = (some e, a.map Prod.snd) := by
  induction a with
  | nil => simp [autoLoop, he]
  | cons x a ih =>
    have hx : l x.2 = false := ha x (by simp)
    simp [autoLoop, hx, ih (fun y hy => ha y (by simp [hy]))]

theorem autoLoop_none (l : String → Bool) (reg : List (String × String))
    (h : ∀ x ∈ reg, l x.2 = false) : autoLoop l reg = (none, reg.map Prod.snd) := by
  induction reg with
  | nil => rfl
  | cons x r ih =>
    have hx : l x.2 = false := h x (by simp)
    simp [autoLoop, hx, ih (fun y hy => h y (by simp [hy]))]

theorem autoLoop_some_mem (l : String → Bool) (reg : List (String × String)) (e : String × String)
    (errs : List String) (h : autoLoop l reg = (some e, errs)) : e ∈ reg := by
  induction reg generalizing errs with
  | nil => simp [autoLoop] at h
  | cons x r ih =>
    simp only [autoLoop] at h
    split at h
    · simp only [Prod.mk.injEq, Option.some.injEq] at h; simp [h.1]
    · simp only [Prod.mk.injEq] at h
      exact List.mem_cons_of_mem _ (ih _ (Prod.ext h.1 rfl))

/-! ## Vocabulary -/

/-- no registry module is in `sys.modules` when the runtime is imported -/
def NothingPreimported (c : Config) : Prop := ∀ e ∈ c.registry, e.2 ∉ c.preimported

/-- `PYSNARK_BACKEND` is unset, or set to something that is not a registered name -/
def EnvUnnamed (c : Config) : Prop := ∀ v, c.env = some v → v ∉ c.registry.map Prod.fst

def Select.Sel.setUnknown : Sel → Bool → Sel
  | .ok n m _ errs, u => .ok n m u errs
  | s, _ => s

/-! ## General theorems -/

/-- a preimported backend wins, the FIRST one in registry order, whatever the environment says,
whatever is loadable, IPython or not -/
theorem C19_preimport (c : Config) (a b : List (String × String)) (e : String × String)
    (hreg : c.registry = a ++ e :: b) (ha : ∀ x ∈ a, x.2 ∉ c.preimported)
    (he : e.2 ∈ c.preimported) :
    select c = .ok e.1 e.2 false [] ∧ usedAuto c = false := by
  have h := stage1_split a b ha he
  rw [← hreg] at h
  simp [select, usedAuto, selectStaged, h]

/-- nothing preimported, `PYSNARK_BACKEND` = a registered name: exactly that entry if its module
loads; if it does not, the import error propagates — never a fallback -/
theorem C19_env_known (c : Config) (v m : String) (nd : (c.registry.map Prod.fst).Nodup)
    (npre : NothingPreimported c) (henv : c.env = some v) (hmem : (v, m) ∈ c.registry) :
    (c.loadable m = true → select c = .ok v m false []) ∧
    (c.loadable m = false → select c = .importError m) ∧ usedAuto c = false := by
  have h1 := stage1_none npre
  have h2 := envLoop_known c.loadable v m c.registry none nd hmem
  cases hl : c.loadable m <;> simp [select, usedAuto, selectStaged, h1, henv, h2, hl]

/-- nothing preimported, `PYSNARK_BACKEND` not a registered name: the unknown-backend message is
printed (`unknownMsg = true` in every `ok` result) and the result is otherwise the one obtained
with the variable unset -/
theorem C19_env_unknown (c : Config) (v : String) (npre : NothingPreimported c)
    (henv : c.env = some v) (hun : v ∉ c.registry.map Prod.fst) :
    select c = (select { c with env := none }).setUnknown true ∧
    (∀ n m u errs, select c = .ok n m u errs → u = true) := by
  have h1 := stage1_none npre
  have h2 := envLoop_notin c.loadable v c.registry none hun
  have key : select c = (select { c with env := none }).setUnknown true := by
    simp only [select, selectStaged, h1, henv, h2, stage3]
    split
    · rfl
    · split <;> rfl
  refine ⟨key, ?_⟩
  intro n m u errs h
  rw [key] at h
  cases hs : select { c with env := none } <;> rw [hs] at h <;> simp [Sel.setUnknown] at h
  exact h.2.2.1

/-- auto-detection picks the first loadable entry in registry order and prints a load error for
exactly the entries before it -/
theorem C19_auto_first_loadable (c : Config) (a b : List (String × String)) (e : String × String)
    (npre : NothingPreimported c) (henv : EnvUnnamed c) (hipy : c.ipython = false)
    (hreg : c.registry = a ++ e :: b) (ha : ∀ x ∈ a, c.loadable x.2 = false)
    (he : c.loadable e.2 = true) :
    select c = .ok e.1 e.2 c.env.isSome (a.map Prod.snd) ∧ usedAuto c = true := by
  have h1 := stage1_none npre
  have h3 := autoLoop_split c.loadable a b ha he
  rw [← hreg] at h3
  cases hv : c.env with
  | none => simp [select, usedAuto, selectStaged, h1, hv, stage3, hipy, h3]
  | some v =>
    have h2 := envLoop_notin c.loadable v c.registry none (henv v hv)
    simp [select, usedAuto, selectStaged, h1, hv, h2, stage3, hipy, h3]

/-- … and if nothing loads there is no backend (the runtime then fails at `backend.zero()`), with a
load error printed for every entry -/
theorem C19_auto_none_loadable (c : Config) (npre : NothingPreimported c) (henv : EnvUnnamed c)
    (hipy : c.ipython = false) (hall : ∀ x ∈ c.registry, c.loadable x.2 = false) :
    select c = .noBackend (c.registry.map Prod.snd) := by
  have h1 := stage1_none npre
  have h3 := autoLoop_none c.loadable c.registry hall
  cases hv : c.env with
  | none => simp [select, selectStaged, h1, hv, stage3, hipy, h3]
  | some v =>
    have h2 := envLoop_notin c.loadable v c.registry none (henv v hv)
    simp [select, selectStaged, h1, hv, h2, stage3, hipy, h3]

/-- under IPython (and nothing preimported or named) the hard-coded `pysnark.nobackend` is used
without consulting the registry -/
theorem C19_ipython (c : Config) (npre : NothingPreimported c) (henv : EnvUnnamed c)
    (hipy : c.ipython = true) (hl : c.loadable ipythonModule = true) :
    select c = .ok ipythonName ipythonModule c.env.isSome [] ∧ usedAuto c = false := by
  have h1 := stage1_none npre
  cases hv : c.env with
  | none => simp [select, usedAuto, selectStaged, h1, hv, stage3, hipy, hl]
  | some v =>
    have h2 := envLoop_notin c.loadable v c.registry none (henv v hv)
    simp [select, usedAuto, selectStaged, h1, hv, h2, stage3, hipy, hl]

/-- auto-detection is used ONLY when no backend was preimported and no known backend was named -/
theorem C19_auto_only_when_unnamed (c : Config) (h : usedAuto c = true) :
    NothingPreimported c ∧ EnvUnnamed c := by
  simp only [usedAuto, selectStaged, beq_iff_eq] at h
  cases h1 : stage1 c.registry c.preimported with
  | some e => simp [h1] at h
  | none =>
    refine ⟨?_, ?_⟩
    · intro e he hp
      simp only [stage1, List.find?_eq_none] at h1
      exact h1 e he (by simpa using hp)
    · intro v hv hmem
      rw [h1] at h
      simp only [hv] at h
      have hne := envLoop_named_ne c.loadable v c.registry none hmem
      cases h2 : envLoop c.loadable v c.registry none with
      | error m => simp [h2] at h
      | ok o =>
        cases o with
        | none => exact hne h2
        | some e => simp [h2] at h

/-- every `ok` result is a registry entry or the hard-coded IPython pair -/
theorem select_ok_mem (c : Config) (n m : String) (u : Bool) (errs : List String)
    (h : select c = .ok n m u errs) :
    (n, m) ∈ c.registry ∨ (n, m) = (ipythonName, ipythonModule) := by
  simp only [select, selectStaged] at h
  cases h1 : stage1 c.registry c.preimported with
  | some e =>
    simp only [h1, Sel.ok.injEq] at h
    exact .inl (by rw [← h.1, ← h.2.1]; exact (stage1_some_mem h1).1)
  | none =>
    rw [h1] at h
    have h3 : ∀ u', (stage3 c u').2 = .ok n m u errs →
        (n, m) ∈ c.registry ∨ (n, m) = (ipythonName, ipythonModule) := by
      intro u' h
      simp only [stage3] at h
      split at h
      · simp only [Sel.ok.injEq] at h; exact .inr (by rw [← h.1, ← h.2.1])
      · split at h
        · rename_i e errs' heq
          simp only [Sel.ok.injEq] at h
          exact .inl (by rw [← h.1, ← h.2.1]; exact autoLoop_some_mem _ _ _ _ heq)
        · simp at h
    cases hv : c.env with
    | none => rw [hv] at h; exact h3 _ h
    | some v =>
      rw [hv] at h
      dsimp only at h
      cases h2 : envLoop c.loadable v c.registry none with
      | error m' => simp [h2] at h
      | ok o =>
        rw [h2] at h
        cases o with
        | none => exact h3 _ h
        | some e =>
          simp only [Sel.ok.injEq] at h
          rcases envLoop_ok_mem _ _ _ _ _ h2 with h' | h'
          · exact .inl (by rw [← h.1, ← h.2.1]; exact h')
          · simp at h'

/-! ## Instantiation to the real registry -/

/-- the registry extracted from `runtime.py`: distinct names, distinct modules, the eight
documented names in the documented order (breaks when the source registry changes) -/
theorem C19_registry :
    (Gen.backends.map Prod.fst).Nodup ∧ (Gen.backends.map Prod.snd).Nodup ∧
    Gen.backends.map Prod.fst =
      ["libsnark", "libsnarkgg", "qaptools", "snarkjs", "zkinterface", "zkifbellman",
       "zkifbulletproofs", "nobackend"] := by decide

/-- the IPython branch's hard-coded pair is a registry entry -/
theorem C19_ipython_pair_registered : (ipythonName, ipythonModule) ∈ Gen.backends := by decide

/-- modules that `import *` from another backend module -/
def derivedModules : List String := Gen.importEdges.map Prod.fst

/-- `sys.modules` is closed under the import edges: a derived module cannot have been imported
without its base -/
def closedUnderImports (pre : List String) : Bool :=
  Gen.importEdges.all fun e => !pre.contains e.1 || e.2.all pre.contains

/-- every import edge points from a registry module to a registry module that comes EARLIER in
the registry — the structural cause of the deviation -/
theorem C19_edges_point_backwards :
    Gen.importEdges.all (fun e => e.2.all fun base =>
      decide ((Gen.backends.map Prod.snd).idxOf base < (Gen.backends.map Prod.snd).idxOf e.1 ∧
        e.1 ∈ Gen.backends.map Prod.snd)) = true := by decide

/-- the modulus a backend module declares in its own source (`none`: taken from a native library) -/
def nominalModulus (module : String) : Option Nat :=
  if module = "pysnark.qaptools.backend" then some Gen.qaptoolsModulus
  else if module = "pysnark.snarkjsbackend" then some Gen.snarkjsModulus
  else if module = "pysnark.zkinterface.backend" then some Gen.zkifModulus
  else if module = "pysnark.zkinterface.backendbellman" then some Gen.bellmanModulus
  else if module = "pysnark.zkinterface.backendbulletproofs" then some Gen.bulletproofsModulus
  else if module = "pysnark.nobackend" then some Gen.nobackendModulus
  else none

/-- effect of importing one module on the global `modulus` of `pysnark.zkinterface.backend`:
the derived modules run `set_modulus(…)`, which is the BASE module's function -/
def zkifStep (p : Nat) (imported : String) : Nat :=
  if imported = "pysnark.zkinterface.backendbellman" then Gen.bellmanModulus
  else if imported = "pysnark.zkinterface.backendbulletproofs" then Gen.bulletproofsModulus
  else p

/-- the modulus `module.get_modulus()` returns after the modules `imported` (in import order) have
run: the three zkinterface modules share the base module's global -/
def modulusInEffect (imported : List String) (module : String) : Option Nat :=
  if module = "pysnark.zkinterface.backend" ∨ module = "pysnark.zkinterface.backendbellman" ∨
      module = "pysnark.zkinterface.backendbulletproofs" then
    some (imported.foldl zkifStep Gen.zkifModulus)
  else nominalModulus module

/-- RECORDED DEVIATION.  `import pysnark.zkinterface.backendbellman` before the runtime (which puts
the base module into `sys.modules` as well: the configuration is closed under the import edges):
the runtime reports "zkinterface" — not "zkifbellman", whose registry module is the one the user
imported — while the field in effect is bellman's, not the one "zkinterface" stands for.  Naming the
backend explicitly in `PYSNARK_BACKEND` as well does not help. -/
theorem C19_cex_derived_preimport :
    let pre := ["pysnark.zkinterface.backendbellman", "pysnark.zkinterface.backend"]
    let cfg (env : Option String) : Config :=
      { registry := Gen.backends, preimported := pre, env := env, loadable := fun _ => true,
        ipython := false }
    closedUnderImports pre = true ∧
    select (cfg none) = .ok "zkinterface" "pysnark.zkinterface.backend" false [] ∧
    select (cfg (some "zkifbellman")) = .ok "zkinterface" "pysnark.zkinterface.backend" false [] ∧
    Gen.backends.lookup "zkifbellman" = some "pysnark.zkinterface.backendbellman" ∧
    modulusInEffect pre "pysnark.zkinterface.backend" = some Gen.bellmanModulus ∧
    nominalModulus "pysnark.zkinterface.backend" = some Gen.zkifModulus ∧
    Gen.bellmanModulus ≠ Gen.zkifModulus := by decide

/-- the general form: over the real registry, with `sys.modules` closed under the import edges, a
preimported derived zkinterface module is NEVER the reported backend -/
theorem C19_derived_never_reported (c : Config) (hreg : c.registry = Gen.backends)
    (hcl : closedUnderImports c.preimported = true) (n m : String) (u : Bool) (errs : List String)
    (hpre : ¬ NothingPreimported c) (h : select c = .ok n m u errs) :
    n ≠ "zkifbellman" ∧ n ≠ "zkifbulletproofs" := by
  simp only [select, selectStaged] at h
  cases h1 : stage1 c.registry c.preimported with
  | none =>
    exfalso; apply hpre
    intro e he hp
    simp only [stage1, List.find?_eq_none] at h1
    exact h1 e he (by simpa using hp)
  | some e =>
    simp only [h1, Sel.ok.injEq] at h
    rw [hreg] at h1
    simp only [closedUnderImports, Gen.importEdges, List.all_cons, List.all_nil, Bool.and_true,
      List.contains_eq_mem, Bool.or_eq_true, Bool.not_eq_true', decide_eq_false_iff_not,
      decide_eq_true_eq, Bool.and_eq_true] at hcl
    obtain ⟨_, hb, hbp⟩ := hcl
    simp only [stage1, Gen.backends, List.find?_cons, List.contains_eq_mem] at h1
    rw [← h.1]
    repeat' split at h1
    all_goals first
      | (simp only [Option.some.injEq] at h1; subst h1; simp_all; done)
      | (simp only [Option.some.injEq] at h1; subst h1; decide)
      | simp at h1

/-- where no derived module was preimported, the reported name identifies the backend in effect:
its registry module is the selected module, and that module works in the field its own source
declares -/
theorem C19_name_identifies_partial (c : Config) (hreg : c.registry = Gen.backends)
    (hnd : ∀ d ∈ derivedModules, d ∉ c.preimported) (n m : String) (u : Bool) (errs : List String)
    (h : select c = .ok n m u errs) :
    Gen.backends.lookup n = some m ∧
    modulusInEffect (c.preimported ++ [m]) m = nominalModulus m := by
  have hmem : (n, m) ∈ Gen.backends := by
    rcases select_ok_mem c n m u errs h with h' | h'
    · rwa [hreg] at h'
    · rw [h']; exact C19_ipython_pair_registered
  have hfold : ∀ (l : List String) (p : Nat), (∀ d ∈ derivedModules, d ∉ l) →
      l.foldl zkifStep p = p := by
    intro l
    induction l with
    | nil => intros; rfl
    | cons x l ih =>
      intro p hd
      have hx1 : x ≠ "pysnark.zkinterface.backendbellman" := fun hx =>
        hd "pysnark.zkinterface.backendbellman" (by decide) (by simp [hx])
      have hx2 : x ≠ "pysnark.zkinterface.backendbulletproofs" := fun hx =>
        hd "pysnark.zkinterface.backendbulletproofs" (by decide) (by simp [hx])
      rw [List.foldl_cons, ih _ (fun d hd' hm => hd d hd' (List.mem_cons_of_mem _ hm))]
      simp [zkifStep, hx1, hx2]
  have hf := hfold c.preimported Gen.zkifModulus hnd
  simp only [Gen.backends, List.mem_cons, Prod.mk.injEq, List.not_mem_nil, or_false] at hmem
  rcases hmem with ⟨rfl, rfl⟩ | ⟨rfl, rfl⟩ | ⟨rfl, rfl⟩ | ⟨rfl, rfl⟩ | ⟨rfl, rfl⟩ | ⟨rfl, rfl⟩ |
      ⟨rfl, rfl⟩ | ⟨rfl, rfl⟩ <;>
    refine ⟨by decide, ?_⟩ <;>
    simp [modulusInEffect, nominalModulus, List.foldl_append, hf, zkifStep]

/-! ## Non-vacuity -/

private def cfg (pre : List String) (env : Option String) (unl : List String) (ipy : Bool) : Config :=
  { registry := Gen.backends, preimported := pre, env := env,
    loadable := fun m => !unl.contains m, ipython := ipy }

-- the hypotheses of the general theorems are satisfiable over the real registry, every `Sel`
-- constructor and every stage occurs
example : select (cfg ["pysnark.nobackend", "pysnark.snarkjsbackend"] (some "qaptools") [] false)
    = .ok "snarkjs" "pysnark.snarkjsbackend" false [] := by decide
example : select (cfg [] (some "snarkjs") [] false) = .ok "snarkjs" "pysnark.snarkjsbackend" false [] := by decide
example : select (cfg [] (some "snarkjs") ["pysnark.snarkjsbackend"] false)
    = .importError "pysnark.snarkjsbackend" := by decide
example : select (cfg [] (some "bogus") ["pysnark.libsnark.backend", "pysnark.libsnark.backendgg"] false)
    = .ok "qaptools" "pysnark.qaptools.backend" true
        ["pysnark.libsnark.backend", "pysnark.libsnark.backendgg"] := by decide
example : usedAuto (cfg [] none ["pysnark.libsnark.backend"] false) = true ∧
    select (cfg [] none ["pysnark.libsnark.backend"] false)
      = .ok "libsnarkgg" "pysnark.libsnark.backendgg" false ["pysnark.libsnark.backend"] := by decide
example : select (cfg [] none (Gen.backends.map Prod.snd) false)
    = .noBackend (Gen.backends.map Prod.snd) := by decide
example : select (cfg [] none [] true) = .ok "nobackend" "pysnark.nobackend" false [] := by decide
example : usedAuto (cfg [] (some "snarkjs") [] false) = false := by decide
example : closedUnderImports ["pysnark.zkinterface.backendbellman"] = false := by decide
example : derivedModules = ["pysnark.libsnark.backendgg", "pysnark.zkinterface.backendbellman",
    "pysnark.zkinterface.backendbulletproofs"] := by decide
-- without the derived module the base module keeps its own field
example : modulusInEffect ["pysnark.zkinterface.backend"] "pysnark.zkinterface.backend"
    = nominalModulus "pysnark.zkinterface.backend" := by decide


/-- the eight functions the tracer calls on whatever backend is selected -/
def backendInterface : List String :=
  ["privval", "pubval", "zero", "one", "fieldinverse", "get_modulus", "add_constraint", "prove"]

/-- **every selectable backend offers the complete interface**, statically: for every module of the registry re-extracted
from the source on this run, each interface function is among the names the module defines, imports explicitly or receives
through the closure of its `from … import *` statements (`Gen.backendExports`, extracted with `ast`, so this covers the
libsnark modules too, which can not be loaded here).  A derived module that replaces its star import by an explicit list and
forgets one function makes this obligation fail. -/
theorem C19_interface_static :
    ∀ b ∈ Gen.backends, ∀ f ∈ backendInterface, f ∈ ((Gen.backendExports.lookup b.2).getD []) := by
  decide

end Pysnark
