import PysnarkModel.Lemmas.Poseidon
import PysnarkModel.Gen.Api
import PysnarkModel.Lemmas.Select
import PysnarkModel.Props.C19
import PysnarkModel.Spec.Curves
import PysnarkModel.Gen.Constants
/-!
# C20 — hash gadgets equal a plain reference and use the active backend's parameters

* model: `Model/Hash.lean` (`permute`, `poseidonHash`, `gghHash`), compositions of the tracer
  model's own `LinComb` operations, compared with the real `poseidon_hash.py` on every run;
* reference: `Spec/Poseidon.lean`, a plain `Nat`-modulo-`p` permutation and sponge written from
  the algorithm description;
* parameters: `Gen/Poseidon.lean`, generated from `poseidon_constants.py` on every run;
* parameter set in use: `Hash.paramsInUse`, the table entry of the backend name that the selection
  model (`Model/Select.lean`, property C19, whose theorems are imported) reports — the code after
  repair 98011bd; the selection theorems quantify over EVERY selection configuration.

Recorded deviation (`C20_cex_derived_preimport`, a consequence of `C19_cex_derived_preimport`): a
pre-imported derived zkinterface module is reported under the base name, so the zkinterface
(BN254) set is used over the derived field; `C20_params_partial` excludes exactly that.

Quantifiers: ALL parameter sets for the value statements (whenever the model returns); well-shaped
parameter sets (`ParamsWF`, decidable, holds for the four table entries) for totality and counts;
ALL input values (negative, above the prime); every state whose modulus is positive and whose
`LinComb.ONE` has value 1 (i.e. outside guarded regions; needed only for exponent 0 and padding).
-/
namespace Pysnark
open Pysnark.Hash Pysnark.Gen Pysnark.Select

/-! ## values -/

/-- standalone value clause of `LinComb * LinComb` (no invariant needed) -/
theorem C20_mulLL_value {a b r : LinComb} {s s' : St} (h : mulLL a b s = .ok (r, s')) :
    r.value = a.value * b.value := mulLL_value h

/-- the traced permutation returns, modulo `p`, what the plain permutation returns on the reduced
inputs — for every parameter set, every input list, every input value -/
theorem C20_poseidon_values (P : PoseidonParams) (s s' : St) (xs out : List LinComb)
    (vs : List Int) (hvs : xs.map (·.value) = vs) (hp : 0 < s.p) (hone : s.one = oneSafe)
    (h : Hash.permute P xs s = .ok (out, s')) :
    out.map (fun x => (x.value % s.p).toNat) =
      Spec.Poseidon.permute P s.p.toNat (vs.map fun v => (v % s.p).toNat) := by
  have hq : s.p = ((s.p.toNat : Nat) : Int) := (Int.toNat_of_nonneg hp.le).symm
  have ok : Ok s.p.toNat s := ⟨hq, by rw [hone]; rfl⟩
  have := (permute_run s.p.toNat (by omega) P xs h).2 ok
  have hred : red s.p.toNat = fun x => (x.value % s.p).toNat := by
    funext x; unfold red; rw [← hq]
  subst hvs
  rw [hred] at this
  rw [List.map_map]
  exact this

/-- the canonical representatives compared by the value statements are below the modulus -/
theorem C20_spec_reduced (q : Nat) (hq : 0 < q) (xs : List LinComb) :
    ∀ v ∈ xs.map (red q), v < q := by
  intro v hv
  simp only [List.mem_map] at hv
  obtain ⟨x, _, rfl⟩ := hv
  exact red_lt q hq x

/-- the traced sponge returns, modulo `p`, what the plain sponge returns -/
theorem C20_poseidon_hash_values (P : PoseidonParams) (s s' : St) (xs out : List LinComb)
    (vs : List Int) (hvs : xs.map (·.value) = vs) (hp : 1 < s.p) (hone : s.one = oneSafe)
    (h : Hash.poseidonHash P xs s = .ok (out, s')) :
    out.map (fun x => (x.value % s.p).toNat) =
      Spec.Poseidon.hash P s.p.toNat (vs.map fun v => (v % s.p).toNat) := by
  have hq : s.p = ((s.p.toNat : Nat) : Int) := (Int.toNat_of_nonneg (by omega)).symm
  have ok : Ok s.p.toNat s := ⟨hq, by rw [hone]; rfl⟩
  have := (poseidonHash_run s.p.toNat (by omega) P xs h).2 ok
  have hred : red s.p.toNat = fun x => (x.value % s.p).toNat := by
    funext x; unfold red; rw [← hq]
  subst hvs
  rw [hred] at this
  rw [List.map_map]
  exact this

/-! ## constraint counts -/

/-- `x ** a` by `powLN` costs `a - 1` multiplications -/
def mulsFor (a : Nat) : Nat := a - 1

/-- whenever `permute` returns it has added exactly `permCount P` constraints and as many private
values, and changed nothing else — for every parameter set and every input -/
theorem C20_count_of_ok (P : PoseidonParams) (s s' : St) (xs out : List LinComb)
    (h : Hash.permute P xs s = .ok (out, s')) :
    s'.cons.length = s.cons.length + permCount P ∧
    s'.priv.length = s.priv.length + permCount P ∧ s'.pub = s.pub ∧ s'.p = s.p ∧
    s'.guard = s.guard ∧ s'.one = s.one := by
  obtain ⟨f, _⟩ := permute_run 1 (by omega) P xs h
  exact ⟨f.cons, f.priv, f.pub, f.p, f.guard, f.one⟩

theorem C20_permCount (P : PoseidonParams) (hP : ParamsWF P) (heven : P.rF % 2 = 0) :
    permCount P = (P.rF * P.t + P.rP) * mulsFor P.a := by
  unfold permCount mulsFor
  rw [hP.width]
  have : 2 * (P.rF / 2) = P.rF := by omega
  rw [this]

/-- on well-shaped parameters, `permute` on ANY `t` inputs in ANY state returns and adds exactly
`(R_F·t + R_P)·(a-1)` constraints: success and count do not depend on the input values -/
theorem C20_count (P : PoseidonParams) (hP : ParamsWF P) (heven : P.rF % 2 = 0)
    (xs : List LinComb) (hxs : xs.length = P.t) (s : St) :
    ∃ out s', Hash.permute P xs s = .ok (out, s') ∧ out.length = P.t ∧
      s'.cons.length = s.cons.length + (P.rF * P.t + P.rP) * mulsFor P.a := by
  obtain ⟨out, s', h, hl⟩ := permute_total P hP xs hxs s
  refine ⟨out, s', h, hl, ?_⟩
  rw [← C20_permCount P hP heven]
  exact (C20_count_of_ok P s s' xs out h).1

/-- the sponge: success and count are a function of the input LENGTH only -/
theorem C20_count_hash (P : PoseidonParams) (hP : ParamsWF P) (heven : P.rF % 2 = 0)
    (ht : 2 ≤ P.t) (xs : List LinComb) (s : St) :
    ∃ out s', Hash.poseidonHash P xs s = .ok (out, s') ∧ out.length = P.t - 1 ∧
      s'.cons.length =
        s.cons.length + (xs.length / (P.t - 1) + 1) * ((P.rF * P.t + P.rP) * mulsFor P.a) := by
  obtain ⟨out, s', h, hl⟩ := poseidonHash_total P hP ht xs s
  refine ⟨out, s', h, hl, ?_⟩
  rw [← C20_permCount P hP heven]
  exact (poseidonHash_run 2 (by omega) P xs h).1.cons

/-- the four registered parameter sets are well shaped; the docstring's "400 constraints" -/
theorem C20_table_wf : ∀ kP ∈ poseidonTable, ParamsWF kP.2 ∧ kP.2.rF % 2 = 0 ∧ 2 ≤ kP.2.t := by
  kdecide

theorem C20_count_400 :
    permCount poseidon_zkinterface = 400 ∧ permCount poseidon_zkifbellman = 400 ∧
    permCount poseidon_zkifbulletproofs = 400 ∧ permCount poseidon_nobackend = 24 := by
  kdecide

/-! ## padding -/

/-- messages of different length (or content) never share a padded form -/
theorem C20_padding_injective (rate : Nat) (xs ys : List Nat)
    (h : Spec.Poseidon.pad rate xs = Spec.Poseidon.pad rate ys) : xs = ys :=
  pad_injective rate xs ys h

/-- the padded length is the next multiple of the rate strictly above the length: at least one
element is always appended -/
theorem C20_padding_length (rate : Nat) (hr : 0 < rate) (xs : List Nat) :
    (Spec.Poseidon.pad rate xs).length = rate * (xs.length / rate + 1) ∧
    xs.length < (Spec.Poseidon.pad rate xs).length ∧
    xs <+: Spec.Poseidon.pad rate xs := by
  refine ⟨pad_length rate hr xs, ?_, ?_⟩
  · simp [Spec.Poseidon.pad]
  · exact ⟨_, rfl⟩

/-! ## published test vectors (`test/test_poseidon_hash.py`) -/

theorem C20_vectors_zkinterface :
    (poseidonTable.lookup "zkinterface").map
        (fun P => Spec.Poseidon.permute P Spec.bn254_r [0, 1, 2, 3, 4]) =
      some [0x299c867db6c1fdd79dcefa40e4510b9837e60ebb1ce0663dbaa525df65250465,
            0x1148aaef609aa338b27dafd89bb98862d8bb2b429aceac47d86206154ffe053d,
            0x24febb87fed7462e23f6665ff9a0111f4044c38ee1672c1ac6b0637d34f24907,
            0x0eb08f6d809668a981c186beaf6110060707059576406b248e5d9cf6e78b3d3e,
            0x07748bc6877c9b82c8b98666ee9d0626ec7f5be4205f79ee8528ef1c4a376fc7] := by
  kdecide

theorem C20_vectors_zkifbellman :
    (poseidonTable.lookup "zkifbellman").map
        (fun P => Spec.Poseidon.permute P Spec.bls12_381_r [0, 1, 2, 3, 4]) =
      some [0x2a918b9c9f9bd7bb509331c81e297b5707f6fc7393dcee1b13901a0b22202e18,
            0x65ebf8671739eeb11fb217f2d5c5bf4a0c3f210e3f3cd3b08b5db75675d797f7,
            0x2cc176fc26bc70737a696a9dfd1b636ce360ee76926d182390cdb7459cf585ce,
            0x4dc4e29d283afd2a491fe6aef122b9a968e74eff05341f3cc23fda1781dcb566,
            0x03ff622da276830b9451b88b85e6184fd6ae15c8ab3ee25a5667be8592cce3b1] := by
  kdecide

theorem C20_vectors :
    Spec.Poseidon.permute poseidon_zkinterface Spec.bn254_r [0, 1, 2, 3, 4] =
      [0x299c867db6c1fdd79dcefa40e4510b9837e60ebb1ce0663dbaa525df65250465,
       0x1148aaef609aa338b27dafd89bb98862d8bb2b429aceac47d86206154ffe053d,
       0x24febb87fed7462e23f6665ff9a0111f4044c38ee1672c1ac6b0637d34f24907,
       0x0eb08f6d809668a981c186beaf6110060707059576406b248e5d9cf6e78b3d3e,
       0x07748bc6877c9b82c8b98666ee9d0626ec7f5be4205f79ee8528ef1c4a376fc7] ∧
    Spec.Poseidon.permute poseidon_zkifbellman Spec.bls12_381_r [0, 1, 2, 3, 4] =
      [0x2a918b9c9f9bd7bb509331c81e297b5707f6fc7393dcee1b13901a0b22202e18,
       0x65ebf8671739eeb11fb217f2d5c5bf4a0c3f210e3f3cd3b08b5db75675d797f7,
       0x2cc176fc26bc70737a696a9dfd1b636ce360ee76926d182390cdb7459cf585ce,
       0x4dc4e29d283afd2a491fe6aef122b9a968e74eff05341f3cc23fda1781dcb566,
       0x03ff622da276830b9451b88b85e6184fd6ae15c8ab3ee25a5667be8592cce3b1] := by
  kdecide

/-! ## rounds and rows (generated-constants obligation)

The number of rounds of a parameter set is `R_F + R_P`; the number of ROWS of its round-constant
table is a separate fact of the source.  For the three real sets the two coincide (68); the set
registered for `nobackend` has 4 rounds and a 68-row table.  `poseidonRounds` is counted by the
extractor on the source literal on every run, so a change of either number — or of the code's loop
bounds from the one to the other, which only the `nobackend` configuration can tell apart — meets
a pinned statement; the harness runs that configuration against this model on every run. -/

theorem C20_round_rows :
    poseidonTable.map (fun kP => (kP.1, kP.2.rF, kP.2.rP, kP.2.roundConstants.length)) = poseidonRounds ∧
    poseidonRounds = [("zkinterface", 8, 60, 68), ("zkifbellman", 8, 60, 68),
                      ("zkifbulletproofs", 8, 60, 68), ("nobackend", 2, 2, 68)] := by
  constructor <;> kdecide

/-- the reference permutation reads exactly the first `R_F + R_P` rows: rows beyond them are never
used, for EVERY parameter set, modulus and state -/
theorem C20_rounds_not_rows (P : PoseidonParams) (p : Nat) (st : List Nat) :
    Spec.Poseidon.permute P p st =
      Spec.Poseidon.permute { P with roundConstants := P.roundConstants.take (2 * (P.rF / 2) + P.rP) } p st := by
  have hget : ∀ r, r < 2 * (P.rF / 2) + P.rP →
      (P.roundConstants.take (2 * (P.rF / 2) + P.rP)).getD r [] = P.roundConstants.getD r [] := by
    intro r hr
    simp [List.getD_eq_getElem?_getD, hr]
  have hfold : ∀ (f g : List Nat → Nat → List Nat) (l : List Nat) (a : List Nat),
      (∀ x b, b ∈ l → f x b = g x b) → l.foldl f a = l.foldl g a := by
    intro f g l
    induction l with
    | nil => intros; rfl
    | cons b l ih =>
      intro a h
      simp only [List.foldl_cons]
      rw [h a b (by simp)]
      exact ih _ (fun x c hc => h x c (by simp [hc]))
  unfold Spec.Poseidon.permute
  simp only
  rw [hfold _ (Spec.Poseidon.fullRound { P with roundConstants := P.roundConstants.take (2 * (P.rF / 2) + P.rP) } p)
        (List.range (P.rF / 2)) st
        (fun x b hb => by
          simp only [List.mem_range] at hb
          simp only [Spec.Poseidon.fullRound]; rw [hget b (by omega)])]
  rw [hfold _ (fun st i => Spec.Poseidon.partialRound { P with roundConstants := P.roundConstants.take (2 * (P.rF / 2) + P.rP) } p st (P.rF / 2 + i))
        (List.range P.rP) _
        (fun x b hb => by
          simp only [List.mem_range] at hb
          simp only [Spec.Poseidon.partialRound]; rw [hget (P.rF / 2 + b) (by omega)])]
  rw [hfold _ (fun st i => Spec.Poseidon.fullRound { P with roundConstants := P.roundConstants.take (2 * (P.rF / 2) + P.rP) } p st (P.rF / 2 + P.rP + i))
        (List.range (P.rF / 2)) _
        (fun x b hb => by
          simp only [List.mem_range] at hb
          simp only [Spec.Poseidon.fullRound]; rw [hget (P.rF / 2 + P.rP + b) (by omega)])]

/-- the configuration that tells rounds from rows: with the set registered for `nobackend` (4 rounds,
68 rows) over the modulus of `pysnark/nobackend.py`, the permutation of `[0,1,2,3,4]` and the
digest of the empty message (values the harness also obtains from the real code on every run) -/
theorem C20_nobackend_vector :
    Spec.Poseidon.permute poseidon_nobackend nobackendModulus [0, 1, 2, 3, 4] = [5480, 5480, 5480, 5480, 5480] ∧
    Spec.Poseidon.hash poseidon_nobackend nobackendModulus [] = [5, 5, 5, 5] := by
  kdecide

/-- the moduli the vectors are computed over are the backends' moduli -/
theorem C20_moduli : Spec.bn254_r = zkifModulus ∧ Spec.bls12_381_r = bellmanModulus ∧
    Spec.curve25519_l = bulletproofsModulus := by kdecide

/-! ## the parameter table and the parameter set in use -/

/-- shape check of a real parameter set over the prime `p` -/
def realParams (P : PoseidonParams) (p : Nat) : Bool :=
  P.t == 5 && P.a == 5 && P.rF == 8 && P.rP == 60 &&
  P.roundConstants.length == 68 &&
  P.roundConstants.all (fun row => row.length == 5 && row.all (· < p)) &&
  P.matrix.length == 5 && P.matrix.all (fun row => row.length == 5 && row.all (· < p))

theorem C20_params_table :
    (poseidonTable.lookup "zkinterface").any (realParams · zkifModulus) = true ∧
    (poseidonTable.lookup "zkifbellman").any (realParams · bellmanModulus) = true ∧
    (poseidonTable.lookup "zkifbulletproofs").any (realParams · bulletproofsModulus) = true ∧
    (poseidonTable.lookup "nobackend").any (fun P => P.rF == 2 && P.rP == 2 && P.a == 3 &&
      P.t == 5 && P.roundConstants.all (·.all (· == 1)) && P.matrix.all (·.all (· == 1))) = true ∧
    poseidonTable.map (·.1) = ["zkinterface", "zkifbellman", "zkifbulletproofs", "nobackend"] := by
  kdecide

/-- a fingerprint of a parameter set with decidable equality (`PoseidonParams` itself carries
none): `[t, R_F, R_P, a]`, then the first row of the round constants, then the first row of the matrix.  The harness
compares the same tuple on the real module's `constants` object. -/
def fingerprint (P : PoseidonParams) : List Nat :=
  [P.t, P.rF, P.rP, P.a] ++ P.roundConstants.headD [] ++ P.matrix.headD []

/-- the table has four distinct keys and four pairwise different parameter sets, so "which set is
in use" can be read off a fingerprint and names its key -/
theorem C20_table_distinct :
    (poseidonTable.map (·.1)).Nodup ∧ (poseidonTable.map fun kP => fingerprint kP.2).Nodup := by
  kdecide

/-- a parameter set is registered under ONE name -/
theorem C20_params_key_injective (a b : String) (P : PoseidonParams)
    (ha : lookupParams a = some P) (hb : lookupParams b = some P) : a = b :=
  lookup_key_injective fingerprint poseidonTable C20_table_distinct.2 a b P ha hb

/-- what `poseidon_hash.py` does with each reported backend name, on the table as extracted -/
theorem C20_params_of_name :
    paramsOfName "zkinterface" = .params poseidon_zkinterface ∧
    paramsOfName "zkifbellman" = .params poseidon_zkifbellman ∧
    paramsOfName "zkifbulletproofs" = .params poseidon_zkifbulletproofs ∧
    paramsOfName "nobackend" = .params poseidon_nobackend ∧
    paramsOfName "snarkjs" = .notImplemented ∧ paramsOfName "qaptools" = .notImplemented ∧
    paramsOfName "libsnark" = .notImplemented ∧ paramsOfName "libsnarkgg" = .notImplemented :=
  ⟨rfl, rfl, rfl, rfl, rfl, rfl, rfl, rfl⟩

/-- THE PARAMETER SET IN USE IS THAT OF THE SELECTED BACKEND — for EVERY selection configuration
(any registry, any set of pre-imported modules, any `PYSNARK_BACKEND` value or none, any
loadability, IPython or not), i.e. however the backend came to be selected: if the selection code
reports name `n`, the set in use is the table entry for `n`, and `NotImplementedError` is raised
when the table has none; if the selection itself fails there is no parameter set at all.  The
environment variable plays no role beyond its role in `select`; there is no fallback key. -/
theorem C20_params_selected (c : Config) :
    (∀ n m u errs, select c = .ok n m u errs →
      (∀ P, poseidonTable.lookup n = some P → paramsInUse c = .params P) ∧
      (poseidonTable.lookup n = none → paramsInUse c = .notImplemented)) ∧
    (∀ m, select c = .importError m → paramsInUse c = .runtimeFails) ∧
    (∀ errs, select c = .noBackend errs → paramsInUse c = .runtimeFails) := by
  refine ⟨?_, ?_, ?_⟩
  · intro n m u errs h
    constructor
    · intro P hP
      simp only [paramsInUse, h, paramsOfName, lookupParams, hP]
    · intro hP
      simp only [paramsInUse, h, paramsOfName, lookupParams, hP]
  · intro m h; simp only [paramsInUse, h]
  · intro errs h; simp only [paramsInUse, h]

/-- … by pre-import: the first pre-imported registry module's name keys the lookup, whatever the
environment variable says -/
theorem C20_params_preimport (c : Config) (a b : List (String × String)) (e : String × String)
    (hreg : c.registry = a ++ e :: b) (ha : ∀ x ∈ a, x.2 ∉ c.preimported)
    (he : e.2 ∈ c.preimported) : paramsInUse c = paramsOfName e.1 := by
  simp only [paramsInUse, (C19_preimport c a b e hreg ha he).1]

/-- … by environment variable (nothing pre-imported, a registered name): that name keys the
lookup if its module loads; if not, the import error propagates — no parameters, no fallback -/
theorem C20_params_env (c : Config) (v m : String) (nd : (c.registry.map Prod.fst).Nodup)
    (npre : NothingPreimported c) (henv : c.env = some v) (hmem : (v, m) ∈ c.registry) :
    (c.loadable m = true → paramsInUse c = paramsOfName v) ∧
    (c.loadable m = false → paramsInUse c = .runtimeFails) := by
  obtain ⟨h1, h2, _⟩ := C19_env_known c v m nd npre henv hmem
  exact ⟨fun hl => by simp only [paramsInUse, h1 hl], fun hl => by simp only [paramsInUse, h2 hl]⟩

/-- … by auto-detection (nothing pre-imported, no registered name in the environment, no
IPython): the first loadable registry entry's name keys the lookup -/
theorem C20_params_auto (c : Config) (a b : List (String × String)) (e : String × String)
    (npre : NothingPreimported c) (henv : EnvUnnamed c) (hipy : c.ipython = false)
    (hreg : c.registry = a ++ e :: b) (ha : ∀ x ∈ a, c.loadable x.2 = false)
    (he : c.loadable e.2 = true) : paramsInUse c = paramsOfName e.1 := by
  simp only [paramsInUse, (C19_auto_first_loadable c a b e npre henv hipy hreg ha he).1]

/-- … under IPython with nothing named: the hard-coded `nobackend` -/
theorem C20_params_ipython (c : Config) (npre : NothingPreimported c) (henv : EnvUnnamed c)
    (hipy : c.ipython = true) (hl : c.loadable ipythonModule = true) :
    paramsInUse c = paramsOfName ipythonName := by
  simp only [paramsInUse, (C19_ipython c npre henv hipy hl).1]

/-! ### the toy `"nobackend"` set -/

/-- Over the real registry, in EVERY configuration in which a backend is selected: the toy
`"nobackend"` parameter set (2 full + 2 partial rounds, all constants 1) is in use IF AND ONLY IF
the selected backend is `nobackend` — the module receiving the constraints is `pysnark.nobackend`
(which records nothing and works modulo 10000).  It is the set registered for that backend, not a
fallback: a real backend never hashes with it. -/
theorem C20_toy_iff_nobackend (c : Config) (hreg : c.registry = Gen.backends) (n m : String)
    (u : Bool) (errs : List String) (h : select c = .ok n m u errs) :
    ((∃ P, paramsInUse c = .params P ∧ lookupParams "nobackend" = some P) ↔ n = "nobackend") ∧
    (n = "nobackend" ↔ m = "pysnark.nobackend") := by
  have hin : paramsInUse c = paramsOfName n := by simp only [paramsInUse, h]
  refine ⟨⟨?_, ?_⟩, ?_⟩
  · rintro ⟨P, hP, hnb⟩
    rw [hin] at hP
    unfold paramsOfName at hP
    cases hl : lookupParams n with
    | none => rw [hl] at hP; cases hP
    | some Q =>
      rw [hl] at hP
      injection hP with hQ
      subst hQ
      exact C20_params_key_injective _ _ _ hl hnb
  · rintro rfl
    exact ⟨poseidon_nobackend, hin, rfl⟩
  · have hmem : (n, m) ∈ Gen.backends := by
      rcases select_ok_mem c n m u errs h with h' | h'
      · rwa [hreg] at h'
      · rw [h']; exact C19_ipython_pair_registered
    simp only [Gen.backends, List.mem_cons, Prod.mk.injEq, List.not_mem_nil, or_false] at hmem
    rcases hmem with ⟨rfl, rfl⟩ | ⟨rfl, rfl⟩ | ⟨rfl, rfl⟩ | ⟨rfl, rfl⟩ | ⟨rfl, rfl⟩ | ⟨rfl, rfl⟩ |
      ⟨rfl, rfl⟩ | ⟨rfl, rfl⟩ <;> decide

/-- `nobackend` CAN be the backend actually selected without being named: it is the last registry
entry, so auto-detection reaches it — exactly when every other registry module fails to load (and
under IPython it is hard-coded, `C20_params_ipython`).  The toy set is then the set registered for
the backend actually selected. -/
theorem C20_toy_by_auto_only_if_nothing_else_loads (c : Config) (hreg : c.registry = Gen.backends)
    (hauto : usedAuto c = true) (m : String) (u : Bool) (errs : List String)
    (h : select c = .ok "nobackend" m u errs) :
    ∀ e ∈ Gen.backends, e.1 ≠ "nobackend" → c.loadable e.2 = false := by
  obtain ⟨a, b, hsplit, ha, _, _⟩ := usedAuto_ok_split c hauto h
  rw [hreg] at hsplit
  have hm : m = "pysnark.nobackend" :=
    ((C20_toy_iff_nobackend c hreg _ m u errs h).2).mp rfl
  subst hm
  have hfront : Gen.backends = Gen.backends.dropLast ++ [("nobackend", "pysnark.nobackend")] := by
    decide
  have hnot : (("nobackend", "pysnark.nobackend") : String × String) ∉ Gen.backends.dropLast := by
    decide
  obtain ⟨rfl, _⟩ := split_unique_last _ a b _ hnot (hsplit.symm.trans hfront)
  intro e he hne
  rw [hfront] at he
  rcases List.mem_append.mp he with he | he
  · exact ha e he
  · simp only [List.mem_singleton] at he
    exact absurd (by rw [he]) hne

/-- REGRESSION STATEMENT for the repaired defect (`fixed: 98011bd`; before the repair the lookup
was keyed on `os.environ["PYSNARK_BACKEND"]` with fallback `"nobackend"`, so these three
configurations hashed with the toy set).  With the variable UNSET, a zkinterface backend selected
by pre-import, or by auto-detection (everything before it unloadable), hashes with ITS registered
set; a conflicting value in the variable does not change the set of a pre-imported backend; and in
general no configuration selecting a backend other than `nobackend` uses the toy set. -/
theorem C20_regress_toy_fallback :
    paramsInUse { registry := Gen.backends, preimported := ["pysnark.zkinterface.backend"],
                  env := none, loadable := fun _ => true, ipython := false }
      = .params poseidon_zkinterface ∧
    paramsInUse { registry := Gen.backends, preimported := ["pysnark.zkinterface.backend"],
                  env := some "nobackend", loadable := fun _ => true, ipython := false }
      = .params poseidon_zkinterface ∧
    paramsInUse { registry := Gen.backends, preimported := [], env := none,
                  loadable := fun m => !(["pysnark.libsnark.backend", "pysnark.libsnark.backendgg",
                    "pysnark.qaptools.backend", "pysnark.snarkjsbackend"].contains m),
                  ipython := false }
      = .params poseidon_zkinterface ∧
    poseidon_zkinterface.rF = 8 ∧ poseidon_zkinterface.rP = 60 ∧ poseidon_nobackend.rF = 2 ∧
    (∀ (c : Config), c.registry = Gen.backends → ∀ n m u errs, select c = .ok n m u errs →
      n ≠ "nobackend" → ∀ P, paramsInUse c = .params P → lookupParams "nobackend" ≠ some P) := by
  refine ⟨rfl, rfl, rfl, rfl, rfl, rfl, ?_⟩
  intro c hreg n m u errs h hn P hP hnb
  exact hn (((C20_toy_iff_nobackend c hreg n m u errs h).1).mp ⟨P, hP, hnb⟩)

/-- why the toy set must never serve a real backend: under it the "hash" is degenerate — the
all-ones matrix makes every state element equal after one round, so the four outputs coincide and
the inputs of a block can be permuted without changing the digest (a collision) -/
theorem C20_toy_degenerate :
    Spec.Poseidon.hash poseidon_nobackend zkifModulus [1, 2, 3, 4] =
      Spec.Poseidon.hash poseidon_nobackend zkifModulus [4, 3, 2, 1] ∧
    Spec.Poseidon.hash poseidon_nobackend zkifModulus [1, 2, 3, 4] =
      List.replicate 4 6716221465836031107370471777127124650323930349870762019862241920123969963551 := by
  kdecide

/-! ### interplay with the open finding `C19-derived-preimport` -/

/-- names of the registered backends whose own source declares modulus `p` and for which a
parameter set is registered: "the parameter sets registered for the field `p`" -/
def registeredForField (p : Nat) : List String :=
  (Gen.backends.filter fun e => nominalModulus e.2 == some p && (lookupParams e.1).isSome).map (·.1)

/-- `import pysnark.zkinterface.backendbellman` (resp. `…backendbulletproofs`) before the runtime -/
def derivedPreimportCfg (derived : String) : Config :=
  { registry := Gen.backends, preimported := [derived, "pysnark.zkinterface.backend"], env := none,
    loadable := fun _ => true, ipython := false }

/-- RECORDED DEFECT (consequence of `C19_cex_derived_preimport`, reproduced on the real code).
After `import pysnark.zkinterface.backendbellman` the runtime reports "zkinterface" while the
field in effect is BLS12-381's.  `poseidon_hash.py` faithfully takes the set of the REPORTED name:
the zkinterface (BN254) parameter set is used over the BLS12-381 field, although the set
registered for that field is zkifbellman's; the permutation of `[0,1,2,3,4]` is neither the
published zkinterface nor the published zkifbellman vector (first output below = the value the
real code returns).  With `backendbulletproofs` the set in use is not even a set of elements of
the field in effect (Curve25519's order is below some of the BN254 constants). -/
theorem C20_cex_derived_preimport :
    closedUnderImports (derivedPreimportCfg "pysnark.zkinterface.backendbellman").preimported = true ∧
    select (derivedPreimportCfg "pysnark.zkinterface.backendbellman")
      = .ok "zkinterface" "pysnark.zkinterface.backend" false [] ∧
    paramsInUse (derivedPreimportCfg "pysnark.zkinterface.backendbellman")
      = .params poseidon_zkinterface ∧
    paramsInUse (derivedPreimportCfg "pysnark.zkinterface.backendbulletproofs")
      = .params poseidon_zkinterface ∧
    modulusInEffect (derivedPreimportCfg "pysnark.zkinterface.backendbellman").preimported
      "pysnark.zkinterface.backend" = some Gen.bellmanModulus ∧
    modulusInEffect (derivedPreimportCfg "pysnark.zkinterface.backendbulletproofs").preimported
      "pysnark.zkinterface.backend" = some Gen.bulletproofsModulus ∧
    registeredForField Gen.bellmanModulus = ["zkifbellman"] ∧
    registeredForField Gen.bulletproofsModulus = ["zkifbulletproofs"] ∧
    registeredForField Gen.zkifModulus = ["zkinterface"] ∧
    fingerprint poseidon_zkinterface ≠ fingerprint poseidon_zkifbellman ∧
    (Spec.Poseidon.permute poseidon_zkinterface Gen.bellmanModulus [0, 1, 2, 3, 4]).head? =
      some 0x09e23e44d633bb7026de14251a0d51b5889c1708cccca2e0d16a2148dca558f0 ∧
    (Spec.Poseidon.permute poseidon_zkifbellman Gen.bellmanModulus [0, 1, 2, 3, 4]).head? =
      some 0x2a918b9c9f9bd7bb509331c81e297b5707f6fc7393dcee1b13901a0b22202e18 ∧
    poseidon_zkinterface.roundConstants.all (·.all (· < Gen.bulletproofsModulus)) = false := by
  refine ⟨by decide, by decide, rfl, rfl, by decide, by decide, by kdecide, by kdecide,
    by kdecide, by kdecide, by kdecide, by kdecide, by kdecide⟩

/-- the selection clause at full strength: in every configuration over the real registry
(`sys.modules` closed under the import edges), the parameter set in use is the table entry of a
registered backend whose declared field is the field in effect -/
def C20_params_full : Prop :=
  ∀ c : Config, c.registry = Gen.backends → closedUnderImports c.preimported = true →
    ∀ n m u errs, select c = .ok n m u errs → ∀ P, paramsInUse c = .params P →
      ∃ e ∈ Gen.backends, lookupParams e.1 = some P ∧
        modulusInEffect (c.preimported ++ [m]) m = nominalModulus e.2

theorem C20_params_full_false : ¬ C20_params_full := by
  intro hfull
  obtain ⟨e, he, hP, hmod⟩ := hfull (derivedPreimportCfg "pysnark.zkinterface.backendbellman") rfl
    (by decide) "zkinterface" "pysnark.zkinterface.backend" false [] (by decide)
    poseidon_zkinterface rfl
  have hk : e.1 = "zkinterface" := C20_params_key_injective _ _ _ hP rfl
  have he2 : e.2 = "pysnark.zkinterface.backend" := by
    obtain ⟨e1, e2⟩ := e
    simp only at hk
    subst hk
    simp only [Gen.backends, List.mem_cons, Prod.mk.injEq, List.not_mem_nil, or_false] at he
    rcases he with ⟨h, _⟩ | ⟨h, _⟩ | ⟨h, _⟩ | ⟨h, _⟩ | ⟨_, h⟩ | ⟨h, _⟩ | ⟨h, _⟩ | ⟨h, _⟩ <;>
      first | exact h | exact absurd h (by decide)
  rw [he2] at hmod
  revert hmod
  decide

/-- … and it holds wherever no derived backend module was pre-imported (the exclusion of
`C19_name_identifies_partial`): the set in use is the table entry of the reported name, whose
registry module is the module in use, working in the field its own source declares -/
theorem C20_params_partial (c : Config) (hreg : c.registry = Gen.backends)
    (hnd : ∀ d ∈ derivedModules, d ∉ c.preimported) (n m : String) (u : Bool) (errs : List String)
    (h : select c = .ok n m u errs) :
    paramsInUse c = paramsOfName n ∧ (n, m) ∈ Gen.backends ∧
    modulusInEffect (c.preimported ++ [m]) m = nominalModulus m ∧
    (∀ P, paramsInUse c = .params P →
      ∃ e ∈ Gen.backends, lookupParams e.1 = some P ∧
        modulusInEffect (c.preimported ++ [m]) m = nominalModulus e.2) := by
  have hin : paramsInUse c = paramsOfName n := by simp only [paramsInUse, h]
  obtain ⟨hlook, hmod⟩ := C19_name_identifies_partial c hreg hnd n m u errs h
  have hmem : (n, m) ∈ Gen.backends := by
    rcases select_ok_mem c n m u errs h with h' | h'
    · rwa [hreg] at h'
    · rw [h']; exact C19_ipython_pair_registered
  refine ⟨hin, hmem, hmod, ?_⟩
  intro P hP
  refine ⟨(n, m), hmem, ?_, hmod⟩
  rw [hin] at hP
  unfold paramsOfName at hP
  cases hl : lookupParams n with
  | none => rw [hl] at hP; cases hP
  | some Q => rw [hl] at hP; injection hP with hQ; rw [hQ]

/-- RECORDED DEFECT (test suite): the vector published in `test_zkifbulletproofs_permutation` is
the zkifbellman vector; its second entry is not even below the Curve25519 group order, and the
permutation with the registered zkifbulletproofs parameters returns something else (the real
`permute` agrees with the value below). -/
theorem C20_cex_bulletproofs_vector :
    ¬ (0x65ebf8671739eeb11fb217f2d5c5bf4a0c3f210e3f3cd3b08b5db75675d797f7 < bulletproofsModulus) ∧
    Spec.Poseidon.permute poseidon_zkifbulletproofs bulletproofsModulus [0, 1, 2, 3, 4] =
      [1402989944907728534286136183116841609678834248606192775782363953369628511337,
       3363613745003843819467818979644668531958561956607118508302119190271561265140,
       2825491006183284213335590334684283088158733469171613014070341807546653171085,
       2925411636667260559086107353415442513071426715756558613079401269742747692964,
       5208642969692129922784740286135370386753404317849849192096120667241358387920] := by
  kdecide

/-! ## subset-sum hash -/

/-- the traced subset-sum hash has value `Σ bᵢ·coefᵢ` modulo `p` and adds NO constraint, private
value or public value (the result is a linear combination of the input bits) -/
theorem C20_ggh (coefs : List Int) (bits : List Bit) (s s' : St) (t : Total)
    (h : gghHash coefs bits s = .ok (t, s')) :
    s' = s ∧ t.value ≡ gghSum coefs bits [ZMOD s.p] :=
  gghHash_run coefs bits h

/-- the plain path returns the canonical representative -/
theorem C20_ggh_plain (coefs : List Int) (bits : List Bit) (s : St)
    (hplain : bits.any Bit.isLC = false) :
    gghHash coefs bits s = .ok (.int (gghPlain s.p coefs (bits.map Bit.value) 0), s) := by
  unfold gghHash; rw [hplain]; rfl

/-! ## non-vacuity -/

/-- a concrete run of the model over the bn254 scalar field with the real parameters -/
def exRun : Except Err (List LinComb × St) :=
  (do let xs ← mapM' privVal [0, 1, 2, 3, 4]; Hash.permute poseidon_zkinterface xs)
    { p := (zkifModulus : Int) }

def exOK : Bool :=
  match exRun with
  | .ok (out, s) =>
    out.map (·.value) ==
      [0x299c867db6c1fdd79dcefa40e4510b9837e60ebb1ce0663dbaa525df65250465,
       0x1148aaef609aa338b27dafd89bb98862d8bb2b429aceac47d86206154ffe053d,
       0x24febb87fed7462e23f6665ff9a0111f4044c38ee1672c1ac6b0637d34f24907,
       0x0eb08f6d809668a981c186beaf6110060707059576406b248e5d9cf6e78b3d3e,
       0x07748bc6877c9b82c8b98666ee9d0626ec7f5be4205f79ee8528ef1c4a376fc7] &&
    s.cons.length == 400 && s.priv.length == 405
  | .error _ => false

/-- the MODEL reproduces the published vector and the documented 400 constraints -/
example : exOK = true := by kdecide

/-- ggh on mixed secret bits over a small modulus: value 1·3 + 0·5 + 1·7 = 10 ≡ 3 (mod 7), no
constraint -/
example :
    (match gghHash [3, 5, 7] [.lc ⟨1, [(Wire.priv 0, 1)]⟩, .lc ⟨0, [(Wire.priv 1, 1)]⟩, .int 1]
        { p := 7, priv := [1, 0] } with
      | .ok (t, s) => t.value == 3 && s.cons.length == 0
      | .error _ => false) = true := by kdecide

private def selCfg (pre : List String) (env : Option String) (unl : List String) (ipy : Bool) : Config :=
  { registry := Gen.backends, preimported := pre, env := env,
    loadable := fun m => !(unl.contains m), ipython := ipy }

-- every selection path reaches a real backend and its registered set (the hypotheses of
-- `C20_params_preimport/_env/_auto/_ipython` are satisfiable over the real registry) …
example : paramsInUse (selCfg [] (some "zkifbellman") [] false) = .params poseidon_zkifbellman := rfl
example : paramsInUse (selCfg ["pysnark.zkinterface.backend"] none [] false)
    = .params poseidon_zkinterface := rfl
example :
    usedAuto (selCfg [] none ["pysnark.libsnark.backend", "pysnark.libsnark.backendgg",
      "pysnark.qaptools.backend", "pysnark.snarkjsbackend"] false) = true := by decide
example : paramsInUse (selCfg [] none [] true) = .params poseidon_nobackend := rfl
-- … a backend without registered parameters gets `NotImplementedError` on every path, whatever
-- the environment variable names, and a failing selection yields no parameters
example : paramsInUse (selCfg ["pysnark.snarkjsbackend"] (some "zkinterface") [] false)
    = .notImplemented := rfl
example : paramsInUse (selCfg [] (some "snarkjs") ["pysnark.snarkjsbackend"] false)
    = .runtimeFails := rfl
-- `nobackend` IS reachable by auto-detection (premises of
-- `C20_toy_by_auto_only_if_nothing_else_loads`): nothing else loads, the toy set is then the set
-- of the backend actually selected
example :
    usedAuto (selCfg [] none (Gen.backends.dropLast.map Prod.snd) false) = true ∧
    select (selCfg [] none (Gen.backends.dropLast.map Prod.snd) false)
      = .ok "nobackend" "pysnark.nobackend" false (Gen.backends.dropLast.map Prod.snd) := by decide
example : paramsInUse (selCfg [] none (Gen.backends.dropLast.map Prod.snd) false)
    = .params poseidon_nobackend := rfl
-- the exclusion of `C20_params_partial` is satisfiable and is violated by the recorded configuration
example : (∀ d ∈ derivedModules, d ∉ (selCfg ["pysnark.zkinterface.backend"] none [] false).preimported) ∧
    ¬ (∀ d ∈ derivedModules,
        d ∉ (derivedPreimportCfg "pysnark.zkinterface.backendbellman").preimported) := by decide


/-- **API surface pinned** (regenerated from the source on every run, `Gen/Api.lean`): the functions this property's model
transcribes are exactly the functions the code has; an added or removed function changes the generated list and this
obligation fails (the tie is then broken by construction and the check runs its extended search). -/
theorem C20_api_surface :
    Gen.api_poseidon_hash = ["matmul", "transpose", "permute", "poseidon_hash"] ∧
    Gen.api_ggh_hash = ["bitlength", "SHA512_prng", "int_to_bits", "bool_arr", "ggh_hash_plain", "ggh_hash_nonplain", "rand_bits", "ggh_hash"] := ⟨rfl, rfl⟩

end Pysnark
