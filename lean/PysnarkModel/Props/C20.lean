import PysnarkModel.Lemmas.Poseidon
import PysnarkModel.Spec.Curves
import PysnarkModel.Gen.Constants
/-!
# C20 — hash gadgets equal a plain reference and use the active backend's parameters

* model: `Model/Hash.lean` (`permute`, `poseidonHash`, `gghHash`), compositions of the tracer
  model's own `LinComb` operations, compared with the real `poseidon_hash.py` on every run;
* reference: `Spec/Poseidon.lean`, a plain `Nat`-modulo-`p` permutation and sponge written from
  the algorithm description;
* parameters: `Gen/Poseidon.lean`, generated from `poseidon_constants.py` on every run.

Quantifiers: ALL parameter sets for the value statements (whenever the model returns); well-shaped
parameter sets (`ParamsWF`, decidable, holds for the four table entries) for totality and counts;
ALL input values (negative, above the prime); every state whose modulus is positive and whose
`LinComb.ONE` has value 1 (i.e. outside guarded regions; needed only for exponent 0 and padding).
-/
namespace Pysnark
open Pysnark.Hash Pysnark.Gen

/-! ## values -/

/-- standalone value clause of `LinComb * LinComb` (no invariant needed) -/
theorem C20_mulLL_value {a b r : LinComb} {s s' : St} (h : mulLL a b s = .ok (r, s')) :
    r.value = a.value * b.value := mulLL_value h

/-- the traced permutation returns, modulo `p`, what the plain permutation returns on the reduced
inputs — for every parameter set, every input list, every input value -/
theorem C20_poseidon_values (P : PoseidonParams) (s s' : St) (xs out : List LinComb)
    (vs : List Int) (hvs : xs.map (·.value) = vs) (hp : 0 < s.p) (hone : s.one = oneSafe)
    (h : Hash.permute P xs s = .ok (out, s')) :
    out.map (fun x => (x.value % s.p).toNat) =
      Spec.Poseidon.permute P s.p.toNat (vs.map fun v => (v % s.p).toNat) := by
  have hq : s.p = ((s.p.toNat : Nat) : Int) := (Int.toNat_of_nonneg hp.le).symm
  have ok : Ok s.p.toNat s := ⟨hq, by rw [hone]; rfl⟩
  have := (permute_run s.p.toNat (by omega) P xs h).2 ok
  have hred : red s.p.toNat = fun x => (x.value % s.p).toNat := by
    funext x; unfold red; rw [← hq]
  subst hvs
  rw [hred] at this
  rw [List.map_map]
  exact this

/-- the canonical representatives compared by the value statements are below the modulus -/
theorem C20_spec_reduced (q : Nat) (hq : 0 < q) (xs : List LinComb) :
    ∀ v ∈ xs.map (red q), v < q := by
  intro v hv
  simp only [List.mem_map] at hv
  obtain ⟨x, _, rfl⟩ := hv
  exact red_lt q hq x

/-- the traced sponge returns, modulo `p`, what the plain sponge returns -/
theorem C20_poseidon_hash_values (P : PoseidonParams) (s s' : St) (xs out : List LinComb)
    (vs : List Int) (hvs : xs.map (·.value) = vs) (hp : 1 < s.p) (hone : s.one = oneSafe)
    (h : Hash.poseidonHash P xs s = .ok (out, s')) :
    out.map (fun x => (x.value % s.p).toNat) =
      Spec.Poseidon.hash P s.p.toNat (vs.map fun v => (v % s.p).toNat) := by
  have hq : s.p = ((s.p.toNat : Nat) : Int) := (Int.toNat_of_nonneg (by omega)).symm
  have ok : Ok s.p.toNat s := ⟨hq, by rw [hone]; rfl⟩
  have := (poseidonHash_run s.p.toNat (by omega) P xs h).2 ok
  have hred : red s.p.toNat = fun x => (x.value % s.p).toNat := by
    funext x; unfold red; rw [← hq]
  subst hvs
  rw [hred] at this
  rw [List.map_map]
  exact this

/-! ## constraint counts -/

/-- `x ** a` by `powLN` costs `a - 1` multiplications -/
def mulsFor (a : Nat) : Nat := a - 1

/-- whenever `permute` returns it has added exactly `permCount P` constraints and as many private
values, and changed nothing else — for every parameter set and every input -/
theorem C20_count_of_ok (P : PoseidonParams) (s s' : St) (xs out : List LinComb)
    (h : Hash.permute P xs s = .ok (out, s')) :
    s'.cons.length = s.cons.length + permCount P ∧
    s'.priv.length = s.priv.length + permCount P ∧ s'.pub = s.pub ∧ s'.p = s.p ∧
    s'.guard = s.guard ∧ s'.one = s.one := by
  obtain ⟨f, _⟩ := permute_run 1 (by omega) P xs h
  exact ⟨f.cons, f.priv, f.pub, f.p, f.guard, f.one⟩

theorem C20_permCount (P : PoseidonParams) (hP : ParamsWF P) (heven : P.rF % 2 = 0) :
    permCount P = (P.rF * P.t + P.rP) * mulsFor P.a := by
  unfold permCount mulsFor
  rw [hP.width]
  have : 2 * (P.rF / 2) = P.rF := by omega
  rw [this]

/-- on well-shaped parameters, `permute` on ANY `t` inputs in ANY state returns and adds exactly
`(R_F·t + R_P)·(a-1)` constraints: success and count do not depend on the input values -/
theorem C20_count (P : PoseidonParams) (hP : ParamsWF P) (heven : P.rF % 2 = 0)
    (xs : List LinComb) (hxs : xs.length = P.t) (s : St) :
    ∃ out s', Hash.permute P xs s = .ok (out, s') ∧ out.length = P.t ∧
      s'.cons.length = s.cons.length + (P.rF * P.t + P.rP) * mulsFor P.a := by
  obtain ⟨out, s', h, hl⟩ := permute_total P hP xs hxs s
  refine ⟨out, s', h, hl, ?_⟩
  rw [← C20_permCount P hP heven]
  exact (C20_count_of_ok P s s' xs out h).1

/-- the sponge: success and count are a function of the input LENGTH only -/
theorem C20_count_hash (P : PoseidonParams) (hP : ParamsWF P) (heven : P.rF % 2 = 0)
    (ht : 2 ≤ P.t) (xs : List LinComb) (s : St) :
    ∃ out s', Hash.poseidonHash P xs s = .ok (out, s') ∧ out.length = P.t - 1 ∧
      s'.cons.length =
        s.cons.length + (xs.length / (P.t - 1) + 1) * ((P.rF * P.t + P.rP) * mulsFor P.a) := by
  obtain ⟨out, s', h, hl⟩ := poseidonHash_total P hP ht xs s
  refine ⟨out, s', h, hl, ?_⟩
  rw [← C20_permCount P hP heven]
  exact (poseidonHash_run 2 (by omega) P xs h).1.cons

/-- the four registered parameter sets are well shaped; the docstring's "400 constraints" -/
theorem C20_table_wf : ∀ kP ∈ poseidonTable, ParamsWF kP.2 ∧ kP.2.rF % 2 = 0 ∧ 2 ≤ kP.2.t := by
  decide +kernel

theorem C20_count_400 :
    permCount poseidon_zkinterface = 400 ∧ permCount poseidon_zkifbellman = 400 ∧
    permCount poseidon_zkifbulletproofs = 400 ∧ permCount poseidon_nobackend = 24 := by
  decide +kernel

/-! ## padding -/

/-- messages of different length (or content) never share a padded form -/
theorem C20_padding_injective (rate : Nat) (xs ys : List Nat)
    (h : Spec.Poseidon.pad rate xs = Spec.Poseidon.pad rate ys) : xs = ys :=
  pad_injective rate xs ys h

/-- the padded length is the next multiple of the rate strictly above the length: at least one
element is always appended -/
theorem C20_padding_length (rate : Nat) (hr : 0 < rate) (xs : List Nat) :
    (Spec.Poseidon.pad rate xs).length = rate * (xs.length / rate + 1) ∧
    xs.length < (Spec.Poseidon.pad rate xs).length ∧
    xs <+: Spec.Poseidon.pad rate xs := by
  refine ⟨pad_length rate hr xs, ?_, ?_⟩
  · simp [Spec.Poseidon.pad]
  · exact ⟨_, rfl⟩

/-! ## published test vectors (`test/test_poseidon_hash.py`) -/

theorem C20_vectors_zkinterface :
    (poseidonTable.lookup "zkinterface").map
        (fun P => Spec.Poseidon.permute P Spec.bn254_r [0, 1, 2, 3, 4]) =
      some [0x299c867db6c1fdd79dcefa40e4510b9837e60ebb1ce0663dbaa525df65250465,
            0x1148aaef609aa338b27dafd89bb98862d8bb2b429aceac47d86206154ffe053d,
            0x24febb87fed7462e23f6665ff9a0111f4044c38ee1672c1ac6b0637d34f24907,
            0x0eb08f6d809668a981c186beaf6110060707059576406b248e5d9cf6e78b3d3e,
            0x07748bc6877c9b82c8b98666ee9d0626ec7f5be4205f79ee8528ef1c4a376fc7] := by
  decide +kernel

theorem C20_vectors_zkifbellman :
    (poseidonTable.lookup "zkifbellman").map
        (fun P => Spec.Poseidon.permute P Spec.bls12_381_r [0, 1, 2, 3, 4]) =
      some [0x2a918b9c9f9bd7bb509331c81e297b5707f6fc7393dcee1b13901a0b22202e18,
            0x65ebf8671739eeb11fb217f2d5c5bf4a0c3f210e3f3cd3b08b5db75675d797f7,
            0x2cc176fc26bc70737a696a9dfd1b636ce360ee76926d182390cdb7459cf585ce,
            0x4dc4e29d283afd2a491fe6aef122b9a968e74eff05341f3cc23fda1781dcb566,
            0x03ff622da276830b9451b88b85e6184fd6ae15c8ab3ee25a5667be8592cce3b1] := by
  decide +kernel

theorem C20_vectors :
    Spec.Poseidon.permute poseidon_zkinterface Spec.bn254_r [0, 1, 2, 3, 4] =
      [0x299c867db6c1fdd79dcefa40e4510b9837e60ebb1ce0663dbaa525df65250465,
       0x1148aaef609aa338b27dafd89bb98862d8bb2b429aceac47d86206154ffe053d,
       0x24febb87fed7462e23f6665ff9a0111f4044c38ee1672c1ac6b0637d34f24907,
       0x0eb08f6d809668a981c186beaf6110060707059576406b248e5d9cf6e78b3d3e,
       0x07748bc6877c9b82c8b98666ee9d0626ec7f5be4205f79ee8528ef1c4a376fc7] ∧
    Spec.Poseidon.permute poseidon_zkifbellman Spec.bls12_381_r [0, 1, 2, 3, 4] =
      [0x2a918b9c9f9bd7bb509331c81e297b5707f6fc7393dcee1b13901a0b22202e18,
       0x65ebf8671739eeb11fb217f2d5c5bf4a0c3f210e3f3cd3b08b5db75675d797f7,
       0x2cc176fc26bc70737a696a9dfd1b636ce360ee76926d182390cdb7459cf585ce,
       0x4dc4e29d283afd2a491fe6aef122b9a968e74eff05341f3cc23fda1781dcb566,
       0x03ff622da276830b9451b88b85e6184fd6ae15c8ab3ee25a5667be8592cce3b1] := by
  decide +kernel

/-- the moduli the vectors are computed over are the backends' moduli -/
theorem C20_moduli : Spec.bn254_r = zkifModulus ∧ Spec.bls12_381_r = bellmanModulus ∧
    Spec.curve25519_l = bulletproofsModulus := by decide +kernel

/-! ## the parameter table and the parameter set in use -/

/-- shape check of a real parameter set over the prime `p` -/
def realParams (P : PoseidonParams) (p : Nat) : Bool :=
  P.t == 5 && P.a == 5 && P.rF == 8 && P.rP == 60 &&
  P.roundConstants.length == 68 &&
  P.roundConstants.all (fun row => row.length == 5 && row.all (· < p)) &&
  P.matrix.length == 5 && P.matrix.all (fun row => row.length == 5 && row.all (· < p))

theorem C20_params_table :
    (poseidonTable.lookup "zkinterface").any (realParams · zkifModulus) = true ∧
    (poseidonTable.lookup "zkifbellman").any (realParams · bellmanModulus) = true ∧
    (poseidonTable.lookup "zkifbulletproofs").any (realParams · bulletproofsModulus) = true ∧
    (poseidonTable.lookup "nobackend").any (fun P => P.rF == 2 && P.rP == 2 && P.a == 3 &&
      P.t == 5 && P.roundConstants.all (·.all (· == 1)) && P.matrix.all (·.all (· == 1))) = true ∧
    poseidonTable.map (·.1) = ["zkinterface", "zkifbellman", "zkifbulletproofs", "nobackend"] := by
  decide +kernel

/-- with the environment variable set to a zkinterface backend the registered set is used;
other backends: `NotImplementedError` -/
theorem C20_params_env :
    lookupParams (some "zkinterface") = some poseidon_zkinterface ∧
    lookupParams (some "zkifbellman") = some poseidon_zkifbellman ∧
    lookupParams (some "zkifbulletproofs") = some poseidon_zkifbulletproofs ∧
    lookupParams (some "snarkjs") = none ∧ lookupParams (some "qaptools") = none ∧
    lookupParams (some "libsnark") = none :=
  ⟨rfl, rfl, rfl, rfl, rfl, rfl⟩

/-- RECORDED DEFECT: the parameter set is keyed on the ENVIRONMENT VARIABLE with fallback
`"nobackend"`, and the table has a toy `"nobackend"` entry (2 full + 2 partial rounds, all
constants 1).  With `PYSNARK_BACKEND` unset — backend selected by pre-importing a backend module or
by auto-detection — the gadget hashes with the toy parameters, whatever backend is active. -/
theorem C20_cex_toy_fallback :
    lookupParams none = some poseidon_nobackend ∧
    poseidon_nobackend.rF = 2 ∧ poseidon_nobackend.rP = 2 ∧
    lookupParams none ≠ lookupParams (some "zkinterface") := by
  refine ⟨rfl, rfl, rfl, ?_⟩
  intro h
  have : (lookupParams none).map (·.rF) = (lookupParams (some "zkinterface")).map (·.rF) := by rw [h]
  exact absurd this (by decide +kernel)

/-- under the toy parameters the "hash" is degenerate: the all-ones matrix makes every state
element equal after one round, so the four outputs coincide and the inputs of a block can be
permuted without changing the digest (a collision) -/
theorem C20_cex_toy_degenerate :
    Spec.Poseidon.hash poseidon_nobackend zkifModulus [1, 2, 3, 4] =
      Spec.Poseidon.hash poseidon_nobackend zkifModulus [4, 3, 2, 1] ∧
    Spec.Poseidon.hash poseidon_nobackend zkifModulus [1, 2, 3, 4] =
      List.replicate 4 6716221465836031107370471777127124650323930349870762019862241920123969963551 := by
  decide +kernel

/-- RECORDED DEFECT (test suite): the vector published in `test_zkifbulletproofs_permutation` is
the zkifbellman vector; its second entry is not even below the Curve25519 group order, and the
permutation with the registered zkifbulletproofs parameters returns something else (the real
`permute` agrees with the value below). -/
theorem C20_cex_bulletproofs_vector :
    ¬ (0x65ebf8671739eeb11fb217f2d5c5bf4a0c3f210e3f3cd3b08b5db75675d797f7 < bulletproofsModulus) ∧
    Spec.Poseidon.permute poseidon_zkifbulletproofs bulletproofsModulus [0, 1, 2, 3, 4] =
      [1402989944907728534286136183116841609678834248606192775782363953369628511337,
       3363613745003843819467818979644668531958561956607118508302119190271561265140,
       2825491006183284213335590334684283088158733469171613014070341807546653171085,
       2925411636667260559086107353415442513071426715756558613079401269742747692964,
       5208642969692129922784740286135370386753404317849849192096120667241358387920] := by
  decide +kernel

/-! ## subset-sum hash -/

/-- the traced subset-sum hash has value `Σ bᵢ·coefᵢ` modulo `p` and adds NO constraint, private
value or public value (the result is a linear combination of the input bits) -/
theorem C20_ggh (coefs : List Int) (bits : List Bit) (s s' : St) (t : Total)
    (h : gghHash coefs bits s = .ok (t, s')) :
    s' = s ∧ t.value ≡ gghSum coefs bits [ZMOD s.p] :=
  gghHash_run coefs bits h

/-- the plain path returns the canonical representative -/
theorem C20_ggh_plain (coefs : List Int) (bits : List Bit) (s : St)
    (hplain : bits.any Bit.isLC = false) :
    gghHash coefs bits s = .ok (.int (gghPlain s.p coefs (bits.map Bit.value) 0), s) := by
  unfold gghHash; rw [hplain]; rfl

/-! ## non-vacuity -/

/-- a concrete run of the model over the bn254 scalar field with the real parameters -/
def exRun : Except Err (List LinComb × St) :=
  (do let xs ← mapM' privVal [0, 1, 2, 3, 4]; Hash.permute poseidon_zkinterface xs)
    { p := (zkifModulus : Int) }

def exOK : Bool :=
  match exRun with
  | .ok (out, s) =>
    out.map (·.value) ==
      [0x299c867db6c1fdd79dcefa40e4510b9837e60ebb1ce0663dbaa525df65250465,
       0x1148aaef609aa338b27dafd89bb98862d8bb2b429aceac47d86206154ffe053d,
       0x24febb87fed7462e23f6665ff9a0111f4044c38ee1672c1ac6b0637d34f24907,
       0x0eb08f6d809668a981c186beaf6110060707059576406b248e5d9cf6e78b3d3e,
       0x07748bc6877c9b82c8b98666ee9d0626ec7f5be4205f79ee8528ef1c4a376fc7] &&
    s.cons.length == 400 && s.priv.length == 405
  | .error _ => false

/-- the MODEL reproduces the published vector and the documented 400 constraints -/
example : exOK = true := by decide +kernel

/-- ggh on mixed secret bits over a small modulus: value 1·3 + 0·5 + 1·7 = 10 ≡ 3 (mod 7), no
constraint -/
example :
    (match gghHash [3, 5, 7] [.lc ⟨1, [(Wire.priv 0, 1)]⟩, .lc ⟨0, [(Wire.priv 1, 1)]⟩, .int 1]
        { p := 7, priv := [1, 0] } with
      | .ok (t, s) => t.value == 3 && s.cons.length == 0
      | .error _ => false) = true := by decide +kernel

end Pysnark
