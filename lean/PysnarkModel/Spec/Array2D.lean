import PysnarkModel.Model.Array2D
/-!
# Reference semantics of two-dimensional array histories: Python lists of lists (C15)

What the events of `Model/Array2D.lean` mean on nested Python lists of plain integers — no wires, no
constraints, no selectors: an access at position `(i, j)` reads or replaces the element at row `i`, column `j`.

`SMat` is the object reading (rows are list OBJECTS, as in `harness/worker_array2d.py`, class `Ref`): a row read at a
plain index is the row object itself, at a secret index a read-only snapshot; `Array(x)` copies; a store at a secret ROW
index leaves every row a fresh object except the stored object itself.  `SMat.matrix` is the list of lists the
property speaks about.  `pstep` is the same semantics for histories of element accesses through the matrix only
(`m[i,j]`, `m[i][j]`, `m[i,j] = x`, reads in a branch), directly on `List (List Int)`: `Lemmas/Array2DPure.lean` proves that
the two agree on such histories, so that the statement about the model can be read without any notion of object.
-/
namespace Pysnark
namespace A2

/-- a resolved index: secret?, value -/
abbrev SIx := Bool × Int

/-- position selected by an index in a list of `n` elements: a secret index must lie in `[0, n)`, a plain one follows
Python's list indexing (negative values count from the end); anything else is an `IndexError` -/
def pos (n : Nat) (ix : SIx) : Except Err Nat :=
  if ix.1 then
    (if 0 ≤ ix.2 ∧ ix.2 < n then .ok ix.2.toNat else .error .index)
  else
    match pyIndex n ix.2 with
    | some k => .ok k
    | Option.none => .error .index

def nth {α : Type} (xs : List α) (k : Nat) : Except Err α :=
  match xs[k]? with
  | some x => .ok x
  | Option.none => .error .index

structure SRow where
  vals : List Int
  ro : Bool
deriving Repr, DecidableEq

inductive SSlot
  | scalar (v : Int)
  | row (id : Nat)
deriving Repr, DecidableEq

structure SMat where
  heap : List SRow
  mat : List Nat
  idx : List (Nat × SIx) := []
  vars : List (Nat × SSlot) := []
deriving Repr, DecidableEq

def SMat.row (r : SMat) (id : Nat) : SRow := r.heap.getD id ⟨[], false⟩
/-- **the matrix**: the list of lists -/
def SMat.matrix (r : SMat) : List (List Int) := r.mat.map fun id => (r.row id).vals
def SMat.alloc (r : SMat) (x : SRow) : Nat × SMat := (r.heap.length, { r with heap := r.heap ++ [x] })
def SMat.setVals (r : SMat) (id : Nat) (vals : List Int) : SMat :=
  { r with heap := r.heap.set id ⟨vals, (r.row id).ro⟩ }
def SMat.setVar (r : SMat) (v : Nat) (x : SSlot) : SMat := { r with vars := (v, x) :: r.vars }

def sIx (r : SMat) : Ix → Except Err SIx
  | .p i => .ok (false, i)
  | .s i => .ok (true, i)
  | .n k => match lookup r.idx k with | some v => .ok v | Option.none => .error .key

def sSlotRow (r : SMat) (v : Nat) : Except Err Nat :=
  match lookup r.vars v with
  | some (.row id) => .ok id
  | _ => .error .unmodelled

/-- `m[i]`: the row object at a plain index; a snapshot (not yet an object) at a secret one -/
def sOuterGet (r : SMat) (i : SIx) : Except Err (Nat × Nat) := do
  let k ← pos r.mat.length i
  let id ← nth r.mat k
  pure (k, id)

/-- holding the row just read: the object itself, or a new read-only snapshot -/
def SMat.hold (r : SMat) (i : SIx) (id : Nat) : Nat × SMat :=
  if i.1 then r.alloc ⟨(r.row id).vals, true⟩ else (id, r)

def sRebuild (r : SMat) : List (Nat × Bool × List Int) → List Nat × SMat
  | [] => ([], r)
  | (id, same, c) :: t =>
    if same then
      let (ids, r') := sRebuild r t
      (id :: ids, r')
    else
      let (nid, r1) := r.alloc ⟨c, false⟩
      let (ids, r2) := sRebuild r1 t
      (nid :: ids, r2)

def enumFrom {α : Type} : Nat → List α → List (Nat × α)
  | _, [] => []
  | n, x :: xs => (n, x) :: enumFrom (n+1) xs

/-- `m[i] = row` (position `k` already resolved).  Plain index: the object is stored.  Secret index: every row becomes
a fresh list holding what it held before, row `k` what the stored row holds — except rows that ARE the stored object -/
def sOuterSet (r : SMat) (sec : Bool) (k : Nat) (vals : List Int) (oid : Option Nat) : SMat :=
  if sec then
    let (ids, r1) := sRebuild r ((enumFrom 0 r.mat).map fun (kid : Nat × Nat) =>
      (kid.2, oid == some kid.2, if kid.1 = k then vals else (r.row kid.2).vals))
    { r1 with mat := ids }
  else
    match oid with
    | some id => { r with mat := r.mat.set k id }
    | Option.none => let (id, r1) := r.alloc ⟨vals, false⟩; { r1 with mat := r1.mat.set k id }

/-- `row[j] = x` on the object `id` -/
def sWriteRow (r : SMat) (id : Nat) (j : SIx) (x : Int) : Except Err SMat := do
  if (r.row id).ro then .error .type else
  let l ← pos (r.row id).vals.length j
  pure (r.setVals id ((r.row id).vals.set l x))

def sGet2 (r : SMat) (i j : SIx) : Except Err Int := do
  let (_, id) ← sOuterGet r i
  let l ← pos (r.row id).vals.length j
  nth (r.row id).vals l

def sGather : List Ix → SMat → Except Err (List Nat × SMat)
  | [], r => pure ([], r)
  | sp :: t, r => do
    let i ← sIx r sp
    let (_, id) ← sOuterGet r i
    let (hid, r1) := r.hold i id
    let (ids, r2) ← sGather t r1
    pure (hid :: ids, r2)

/-- one event on nested lists -/
def sstep (r : SMat) : Ev → Except Err SMat
  | .idx name sec i => pure { r with idx := (name, (sec, i)) :: r.idx }
  | .row v ri => do
    let i ← sIx r ri
    let (_, id) ← sOuterGet r i
    let (hid, r1) := r.hold i id
    pure (r1.setVar v (.row hid))
  | .copy v src => do
    let id ← sSlotRow r src
    let (nid, r1) := r.alloc ⟨(r.row id).vals, false⟩
    pure (r1.setVar v (.row nid))
  | .rowget v src c => do
    let id ← sSlotRow r src
    let j ← sIx r c
    let l ← pos (r.row id).vals.length j
    let x ← nth (r.row id).vals l
    pure (r.setVar v (.scalar x))
  | .get2 v ri c => do
    let i ← sIx r ri
    let j ← sIx r c
    let x ← sGet2 r i j
    pure (r.setVar v (.scalar x))
  | .getrc v ri c => do
    let i ← sIx r ri
    let j ← sIx r c
    let x ← sGet2 r i j
    pure (r.setVar v (.scalar x))
  | .bget v cnd ri c => do
    let i ← sIx r ri
    let j ← sIx r c
    if cnd = 1 then do
      let x ← sGet2 r i j
      pure (r.setVar v (.scalar x))
    else if cnd = 0 then pure (r.setVar v (.scalar 0))     -- the branch is not taken: nothing in it is looked at
    else .error .value
  | .set1 v c x => do
    let id ← sSlotRow r v
    let j ← sIx r c
    sWriteRow r id j x
  | .setchain k c x => do
    let (_, id) ← sOuterGet r (false, k)
    let j ← sIx r c
    sWriteRow r id j x
  | .set2 ri c x => do
    let i ← sIx r ri
    let j ← sIx r c
    let (k, id) ← sOuterGet r i
    let l ← pos (r.row id).vals.length j
    let vals' := (r.row id).vals.set l x
    if i.1 then pure (sOuterSet r true k vals' Option.none)
    else if (r.row id).ro then pure (sOuterSet r false k vals' Option.none)   -- a stored snapshot is replaced by an updated copy
    else pure (r.setVals id vals')
  | .setrow ri v => do
    let id ← sSlotRow r v
    let i ← sIx r ri
    let k ← pos r.mat.length i
    pure (sOuterSet r i.1 k (r.row id).vals (some id))
  | .gather rs => do
    let (ids, r1) ← sGather rs r
    pure { r1 with mat := ids }
  | .newrow v vals =>
    let (id, r1) := r.alloc ⟨vals, false⟩
    pure (r1.setVar v (.row id))

/-- the events of a history on matrices of width `w` that the theorems cover: a row built outside the matrix has the
width of the matrix (a store of a row of another length at a SECRET index is refused with `ValueError`, as is every
secret-index row access to a matrix made ragged by plain-index stores: `C15_other_length_refused`; before the repair of
finding `C15-row-store-other-length` the code truncated every row instead) -/
def Ev.okWidth (w : Nat) : Ev → Prop
  | .newrow _ vals => vals.length = w
  | _ => True

def srun : List Ev → SMat → Except Err SMat
  | [], r => pure r
  | e :: es, r => do let r1 ← sstep r e; srun es r1

/-- the initial state: one list object per row -/
def sinit (m : List (List Int)) : SMat :=
  { heap := m.map fun r => ⟨r, false⟩, mat := List.range m.length }

/-! ## histories of element accesses through the matrix, on `List (List Int)` alone -/

/-- the events that go through the matrix only (no row handle is ever taken) -/
def Ev.direct : Ev → Bool
  | .idx .. | .get2 .. | .getrc .. | .bget .. | .set2 .. => true
  | _ => false

/-- state of a direct history: the matrix, the index objects, the values read -/
structure PMat where
  m : List (List Int)
  idx : List (Nat × SIx) := []
  vars : List (Nat × Int) := []
deriving Repr, DecidableEq

def pIx (r : PMat) : Ix → Except Err SIx
  | .p i => .ok (false, i)
  | .s i => .ok (true, i)
  | .n k => match lookup r.idx k with | some v => .ok v | Option.none => .error .key

/-- `m[i][j]` -/
def pGet (m : List (List Int)) (i j : SIx) : Except Err Int := do
  let k ← pos m.length i
  let row ← nth m k
  let l ← pos row.length j
  nth row l

/-- `m[i][j] = x`: exactly that element is replaced -/
def pSet (m : List (List Int)) (i j : SIx) (x : Int) : Except Err (List (List Int)) := do
  let k ← pos m.length i
  let row ← nth m k
  let l ← pos row.length j
  pure (m.set k (row.set l x))

def pstep (r : PMat) : Ev → Except Err PMat
  | .idx name sec i => pure { r with idx := (name, (sec, i)) :: r.idx }
  | .get2 v ri c | .getrc v ri c => do
    let i ← pIx r ri
    let j ← pIx r c
    let x ← pGet r.m i j
    pure { r with vars := (v, x) :: r.vars }
  | .bget v cnd ri c => do
    let i ← pIx r ri
    let j ← pIx r c
    if cnd = 1 then do
      let x ← pGet r.m i j
      pure { r with vars := (v, x) :: r.vars }
    else if cnd = 0 then pure { r with vars := (v, 0) :: r.vars }
    else .error .value
  | .set2 ri c x => do
    let i ← pIx r ri
    let j ← pIx r c
    let m' ← pSet r.m i j x
    pure { r with m := m' }
  | _ => .error .unmodelled

def prun : List Ev → PMat → Except Err PMat
  | [], r => pure r
  | e :: es, r => do let r1 ← pstep r e; prun es r1

end A2
end Pysnark
