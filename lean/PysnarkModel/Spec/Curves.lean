import PysnarkModel.Lemmas.Pratt
/-!
# The three scalar-field orders, and their primality (Pratt certificate trees)

The literals below are the published group orders of BN254 (alt_bn128), BLS12-381 and
Curve25519/ed25519.  That they *are* those orders is taken from the curves' published parameters
(trusted base); that they are prime is proved here.  The certificate trees were generated once
with sympy (`design-spikes/genpratt.py`) and are checked by the kernel on every build.
-/
namespace Pysnark.Spec
open Pysnark.Pratt Pysnark.Py

/-- order of the BN254 / alt_bn128 G1 group (scalar field of snarkjs, libsnark, zkinterface default, qaptools) -/
def bn254_r : Nat := 21888242871839275222246405745257275088548364400416034343698204186575808495617
/-- order of the BLS12-381 G1 group (bellman) -/
def bls12_381_r : Nat := 52435875175126190479447740508185965837690552500527637822603658699938581184513
/-- order ℓ of the prime-order subgroup of Curve25519 / ristretto (bulletproofs) -/
def curve25519_l : Nat := 7237005577332262213973186563042994240857116359379907606001950938285454250989

theorem prime_2 : Nat.Prime 2 := by norm_num
theorem prime_3 : Nat.Prime 3 := by norm_num
theorem prime_13 : Nat.Prime 13 := by norm_num
theorem prime_29 : Nat.Prime 29 := by norm_num
theorem prime_983 : Nat.Prime 983 := by norm_num
theorem prime_11 : Nat.Prime 11 := by norm_num
theorem prime_449 : Nat.Prime 449 := by norm_num
theorem prime_237073 : Nat.Prime 237073 :=
  pratt 237073 15 [(2, 4), (3, 1), (11, 1), (449, 1)] (by norm_num) (by decide +kernel)
    (by
      intro qe h
      simp only [List.mem_cons, List.not_mem_nil, or_false] at h
      rcases h with rfl | rfl | rfl | rfl
      · exact prime_2
      · exact prime_3
      · exact prime_11
      · exact prime_449)
    (by decide +kernel) (by decide +kernel)
theorem prime_11003 : Nat.Prime 11003 := by norm_num
theorem prime_4999 : Nat.Prime 4999 := by norm_num
theorem prime_3691 : Nat.Prime 3691 := by norm_num
theorem prime_405928799 : Nat.Prime 405928799 :=
  pratt 405928799 22 [(2, 1), (11, 1), (3691, 1), (4999, 1)] (by norm_num) (by decide +kernel)
    (by
      intro qe h
      simp only [List.mem_cons, List.not_mem_nil, or_false] at h
      rcases h with rfl | rfl | rfl | rfl
      · exact prime_2
      · exact prime_11
      · exact prime_3691
      · exact prime_4999)
    (by decide +kernel) (by decide +kernel)
theorem prime_107 : Nat.Prime 107 := by norm_num
theorem prime_7 : Nat.Prime 7 := by norm_num
theorem prime_661 : Nat.Prime 661 := by norm_num
theorem prime_93001 : Nat.Prime 93001 := by norm_num
theorem prime_12048837557 : Nat.Prime 12048837557 :=
  pratt 12048837557 2 [(2, 2), (7, 2), (661, 1), (93001, 1)] (by norm_num) (by decide +kernel)
    (by
      intro qe h
      simp only [List.mem_cons, List.not_mem_nil, or_false] at h
      rcases h with rfl | rfl | rfl | rfl
      · exact prime_2
      · exact prime_7
      · exact prime_661
      · exact prime_93001)
    (by decide +kernel) (by decide +kernel)
theorem prime_5156902474397 : Nat.Prime 5156902474397 :=
  pratt 5156902474397 2 [(2, 2), (107, 1), (12048837557, 1)] (by norm_num) (by decide +kernel)
    (by
      intro qe h
      simp only [List.mem_cons, List.not_mem_nil, or_false] at h
      rcases h with rfl | rfl | rfl
      · exact prime_2
      · exact prime_107
      · exact prime_12048837557)
    (by decide +kernel) (by decide +kernel)
theorem prime_1670836401704629 : Nat.Prime 1670836401704629 :=
  pratt 1670836401704629 2 [(2, 2), (3, 4), (5156902474397, 1)] (by norm_num) (by decide +kernel)
    (by
      intro qe h
      simp only [List.mem_cons, List.not_mem_nil, or_false] at h
      rcases h with rfl | rfl | rfl
      · exact prime_2
      · exact prime_3
      · exact prime_5156902474397)
    (by decide +kernel) (by decide +kernel)
theorem prime_5 : Nat.Prime 5 := by norm_num
theorem prime_823 : Nat.Prime 823 := by norm_num
theorem prime_19 : Nat.Prime 19 := by norm_num
theorem prime_41927 : Nat.Prime 41927 := by norm_num
theorem prime_1593227 : Nat.Prime 1593227 :=
  pratt 1593227 2 [(2, 1), (19, 1), (41927, 1)] (by norm_num) (by decide +kernel)
    (by
      intro qe h
      simp only [List.mem_cons, List.not_mem_nil, or_false] at h
      rcases h with rfl | rfl | rfl
      · exact prime_2
      · exact prime_19
      · exact prime_41927)
    (by decide +kernel) (by decide +kernel)
theorem prime_83 : Nat.Prime 83 := by norm_num
theorem prime_379 : Nat.Prime 379 := by norm_num
theorem prime_1637 : Nat.Prime 1637 := by norm_num
theorem prime_229 : Nat.Prime 229 := by norm_num
theorem prime_853 : Nat.Prime 853 := by norm_num
theorem prime_639533339 : Nat.Prime 639533339 :=
  pratt 639533339 2 [(2, 1), (229, 1), (853, 1), (1637, 1)] (by norm_num) (by decide +kernel)
    (by
      intro qe h
      simp only [List.mem_cons, List.not_mem_nil, or_false] at h
      rcases h with rfl | rfl | rfl | rfl
      · exact prime_2
      · exact prime_229
      · exact prime_853
      · exact prime_1637)
    (by decide +kernel) (by decide +kernel)
theorem prime_65865678001877903 : Nat.Prime 65865678001877903 :=
  pratt 65865678001877903 5 [(2, 1), (83, 1), (379, 1), (1637, 1), (639533339, 1)] (by norm_num) (by decide +kernel)
    (by
      intro qe h
      simp only [List.mem_cons, List.not_mem_nil, or_false] at h
      rcases h with rfl | rfl | rfl | rfl | rfl
      · exact prime_2
      · exact prime_83
      · exact prime_379
      · exact prime_1637
      · exact prime_639533339)
    (by decide +kernel) (by decide +kernel)
theorem prime_13818364434197438864469338081 : Nat.Prime 13818364434197438864469338081 :=
  pratt 13818364434197438864469338081 3 [(2, 5), (5, 1), (823, 1), (1593227, 1), (65865678001877903, 1)] (by norm_num) (by decide +kernel)
    (by
      intro qe h
      simp only [List.mem_cons, List.not_mem_nil, or_false] at h
      rcases h with rfl | rfl | rfl | rfl | rfl
      · exact prime_2
      · exact prime_5
      · exact prime_823
      · exact prime_1593227
      · exact prime_65865678001877903)
    (by decide +kernel) (by decide +kernel)
theorem prime_21888242871839275222246405745257275088548364400416034343698204186575808495617 : Nat.Prime 21888242871839275222246405745257275088548364400416034343698204186575808495617 :=
  pratt 21888242871839275222246405745257275088548364400416034343698204186575808495617 5 [(2, 28), (3, 2), (13, 1), (29, 1), (983, 1), (11003, 1), (237073, 1), (405928799, 1), (1670836401704629, 1), (13818364434197438864469338081, 1)] (by norm_num) (by decide +kernel)
    (by
      intro qe h
      simp only [List.mem_cons, List.not_mem_nil, or_false] at h
      rcases h with rfl | rfl | rfl | rfl | rfl | rfl | rfl | rfl | rfl | rfl
      · exact prime_2
      · exact prime_3
      · exact prime_13
      · exact prime_29
      · exact prime_983
      · exact prime_11003
      · exact prime_237073
      · exact prime_405928799
      · exact prime_1670836401704629
      · exact prime_13818364434197438864469338081)
    (by decide +kernel) (by decide +kernel)
theorem prime_10177 : Nat.Prime 10177 := by norm_num
theorem prime_47 : Nat.Prime 47 := by norm_num
theorem prime_1607 : Nat.Prime 1607 := by norm_num
theorem prime_906349 : Nat.Prime 906349 :=
  pratt 906349 2 [(2, 2), (3, 1), (47, 1), (1607, 1)] (by norm_num) (by decide +kernel)
    (by
      intro qe h
      simp only [List.mem_cons, List.not_mem_nil, or_false] at h
      rcases h with rfl | rfl | rfl | rfl
      · exact prime_2
      · exact prime_3
      · exact prime_47
      · exact prime_1607)
    (by decide +kernel) (by decide +kernel)
theorem prime_79 : Nat.Prime 79 := by norm_num
theorem prime_2508409 : Nat.Prime 2508409 :=
  pratt 2508409 11 [(2, 3), (3, 4), (7, 2), (79, 1)] (by norm_num) (by decide +kernel)
    (by
      intro qe h
      simp only [List.mem_cons, List.not_mem_nil, or_false] at h
      rcases h with rfl | rfl | rfl | rfl
      · exact prime_2
      · exact prime_3
      · exact prime_7
      · exact prime_79)
    (by decide +kernel) (by decide +kernel)
theorem prime_20921 : Nat.Prime 20921 := by norm_num
theorem prime_125527 : Nat.Prime 125527 :=
  pratt 125527 5 [(2, 1), (3, 1), (20921, 1)] (by norm_num) (by decide +kernel)
    (by
      intro qe h
      simp only [List.mem_cons, List.not_mem_nil, or_false] at h
      rcases h with rfl | rfl | rfl
      · exact prime_2
      · exact prime_3
      · exact prime_20921)
    (by decide +kernel) (by decide +kernel)
theorem prime_47737 : Nat.Prime 47737 := by norm_num
theorem prime_859267 : Nat.Prime 859267 :=
  pratt 859267 2 [(2, 1), (3, 2), (47737, 1)] (by norm_num) (by decide +kernel)
    (by
      intro qe h
      simp only [List.mem_cons, List.not_mem_nil, or_false] at h
      rcases h with rfl | rfl | rfl
      · exact prime_2
      · exact prime_3
      · exact prime_47737)
    (by decide +kernel) (by decide +kernel)
theorem prime_23 : Nat.Prime 23 := by norm_num
theorem prime_18329 : Nat.Prime 18329 := by norm_num
theorem prime_2529403 : Nat.Prime 2529403 :=
  pratt 2529403 2 [(2, 1), (3, 1), (23, 1), (18329, 1)] (by norm_num) (by decide +kernel)
    (by
      intro qe h
      simp only [List.mem_cons, List.not_mem_nil, or_false] at h
      rcases h with rfl | rfl | rfl | rfl
      · exact prime_2
      · exact prime_3
      · exact prime_23
      · exact prime_18329)
    (by decide +kernel) (by decide +kernel)
theorem prime_43 : Nat.Prime 43 := by norm_num
theorem prime_97 : Nat.Prime 97 := by norm_num
theorem prime_609743 : Nat.Prime 609743 :=
  pratt 609743 5 [(2, 1), (7, 1), (97, 1), (449, 1)] (by norm_num) (by decide +kernel)
    (by
      intro qe h
      simp only [List.mem_cons, List.not_mem_nil, or_false] at h
      rcases h with rfl | rfl | rfl | rfl
      · exact prime_2
      · exact prime_7
      · exact prime_97
      · exact prime_449)
    (by decide +kernel) (by decide +kernel)
theorem prime_52437899 : Nat.Prime 52437899 :=
  pratt 52437899 2 [(2, 1), (43, 1), (609743, 1)] (by norm_num) (by decide +kernel)
    (by
      intro qe h
      simp only [List.mem_cons, List.not_mem_nil, or_false] at h
      rcases h with rfl | rfl | rfl
      · exact prime_2
      · exact prime_43
      · exact prime_609743)
    (by decide +kernel) (by decide +kernel)
theorem prime_359 : Nat.Prime 359 := by norm_num
theorem prime_110573 : Nat.Prime 110573 :=
  pratt 110573 3 [(2, 2), (7, 1), (11, 1), (359, 1)] (by norm_num) (by decide +kernel)
    (by
      intro qe h
      simp only [List.mem_cons, List.not_mem_nil, or_false] at h
      rcases h with rfl | rfl | rfl | rfl
      · exact prime_2
      · exact prime_7
      · exact prime_11
      · exact prime_359)
    (by decide +kernel) (by decide +kernel)
theorem prime_2653753 : Nat.Prime 2653753 :=
  pratt 2653753 5 [(2, 3), (3, 1), (110573, 1)] (by norm_num) (by decide +kernel)
    (by
      intro qe h
      simp only [List.mem_cons, List.not_mem_nil, or_false] at h
      rcases h with rfl | rfl | rfl
      · exact prime_2
      · exact prime_3
      · exact prime_110573)
    (by decide +kernel) (by decide +kernel)
theorem prime_63690073 : Nat.Prime 63690073 :=
  pratt 63690073 7 [(2, 3), (3, 1), (2653753, 1)] (by norm_num) (by decide +kernel)
    (by
      intro qe h
      simp only [List.mem_cons, List.not_mem_nil, or_false] at h
      rcases h with rfl | rfl | rfl
      · exact prime_2
      · exact prime_3
      · exact prime_2653753)
    (by decide +kernel) (by decide +kernel)
theorem prime_254760293 : Nat.Prime 254760293 :=
  pratt 254760293 2 [(2, 2), (63690073, 1)] (by norm_num) (by decide +kernel)
    (by
      intro qe h
      simp only [List.mem_cons, List.not_mem_nil, or_false] at h
      rcases h with rfl | rfl
      · exact prime_2
      · exact prime_63690073)
    (by decide +kernel) (by decide +kernel)
theorem prime_52435875175126190479447740508185965837690552500527637822603658699938581184513 : Nat.Prime 52435875175126190479447740508185965837690552500527637822603658699938581184513 :=
  pratt 52435875175126190479447740508185965837690552500527637822603658699938581184513 7 [(2, 32), (3, 1), (11, 1), (19, 1), (10177, 1), (125527, 1), (859267, 1), (906349, 2), (2508409, 1), (2529403, 1), (52437899, 1), (254760293, 2)] (by norm_num) (by decide +kernel)
    (by
      intro qe h
      simp only [List.mem_cons, List.not_mem_nil, or_false] at h
      rcases h with rfl | rfl | rfl | rfl | rfl | rfl | rfl | rfl | rfl | rfl | rfl | rfl
      · exact prime_2
      · exact prime_3
      · exact prime_11
      · exact prime_19
      · exact prime_10177
      · exact prime_125527
      · exact prime_859267
      · exact prime_906349
      · exact prime_2508409
      · exact prime_2529403
      · exact prime_52437899
      · exact prime_254760293)
    (by decide +kernel) (by decide +kernel)
theorem prime_34123 : Nat.Prime 34123 := by norm_num
theorem prime_409477 : Nat.Prime 409477 :=
  pratt 409477 2 [(2, 2), (3, 1), (34123, 1)] (by norm_num) (by decide +kernel)
    (by
      intro qe h
      simp only [List.mem_cons, List.not_mem_nil, or_false] at h
      rcases h with rfl | rfl | rfl
      · exact prime_2
      · exact prime_3
      · exact prime_34123)
    (by decide +kernel) (by decide +kernel)
theorem prime_14741173 : Nat.Prime 14741173 :=
  pratt 14741173 2 [(2, 2), (3, 2), (409477, 1)] (by norm_num) (by decide +kernel)
    (by
      intro qe h
      simp only [List.mem_cons, List.not_mem_nil, or_false] at h
      rcases h with rfl | rfl | rfl
      · exact prime_2
      · exact prime_3
      · exact prime_409477)
    (by decide +kernel) (by decide +kernel)
theorem prime_58964693 : Nat.Prime 58964693 :=
  pratt 58964693 2 [(2, 2), (14741173, 1)] (by norm_num) (by decide +kernel)
    (by
      intro qe h
      simp only [List.mem_cons, List.not_mem_nil, or_false] at h
      rcases h with rfl | rfl
      · exact prime_2
      · exact prime_14741173)
    (by decide +kernel) (by decide +kernel)
theorem prime_30703 : Nat.Prime 30703 := by norm_num
theorem prime_82163 : Nat.Prime 82163 := by norm_num
theorem prime_17231 : Nat.Prime 17231 := by norm_num
theorem prime_137849 : Nat.Prime 137849 :=
  pratt 137849 3 [(2, 3), (17231, 1)] (by norm_num) (by decide +kernel)
    (by
      intro qe h
      simp only [List.mem_cons, List.not_mem_nil, or_false] at h
      rcases h with rfl | rfl
      · exact prime_2
      · exact prime_17231)
    (by decide +kernel) (by decide +kernel)
theorem prime_22111 : Nat.Prime 22111 := by norm_num
theorem prime_132667 : Nat.Prime 132667 :=
  pratt 132667 5 [(2, 1), (3, 1), (22111, 1)] (by norm_num) (by decide +kernel)
    (by
      intro qe h
      simp only [List.mem_cons, List.not_mem_nil, or_false] at h
      rcases h with rfl | rfl | rfl
      · exact prime_2
      · exact prime_3
      · exact prime_22111)
    (by decide +kernel) (by decide +kernel)
theorem prime_3044861653679985063343 : Nat.Prime 3044861653679985063343 :=
  pratt 3044861653679985063343 5 [(2, 1), (3, 1), (11, 1), (30703, 1), (82163, 1), (132667, 1), (137849, 1)] (by norm_num) (by decide +kernel)
    (by
      intro qe h
      simp only [List.mem_cons, List.not_mem_nil, or_false] at h
      rcases h with rfl | rfl | rfl | rfl | rfl | rfl | rfl
      · exact prime_2
      · exact prime_3
      · exact prime_11
      · exact prime_30703
      · exact prime_82163
      · exact prime_132667
      · exact prime_137849)
    (by decide +kernel) (by decide +kernel)
theorem prime_198211423230930754013084525763697 : Nat.Prime 198211423230930754013084525763697 :=
  pratt 198211423230930754013084525763697 5 [(2, 4), (3, 1), (23, 1), (58964693, 1), (3044861653679985063343, 1)] (by norm_num) (by decide +kernel)
    (by
      intro qe h
      simp only [List.mem_cons, List.not_mem_nil, or_false] at h
      rcases h with rfl | rfl | rfl | rfl | rfl
      · exact prime_2
      · exact prime_3
      · exact prime_23
      · exact prime_58964693
      · exact prime_3044861653679985063343)
    (by decide +kernel) (by decide +kernel)
theorem prime_269 : Nat.Prime 269 := by norm_num
theorem prime_73 : Nat.Prime 73 := by norm_num
theorem prime_307 : Nat.Prime 307 := by norm_num
theorem prime_5879 : Nat.Prime 5879 := by norm_num
theorem prime_292386187 : Nat.Prime 292386187 :=
  pratt 292386187 2 [(2, 1), (3, 4), (307, 1), (5879, 1)] (by norm_num) (by decide +kernel)
    (by
      intro qe h
      simp only [List.mem_cons, List.not_mem_nil, or_false] at h
      rcases h with rfl | rfl | rfl | rfl
      · exact prime_2
      · exact prime_3
      · exact prime_307
      · exact prime_5879)
    (by decide +kernel) (by decide +kernel)
theorem prime_213441916511 : Nat.Prime 213441916511 :=
  pratt 213441916511 13 [(2, 1), (5, 1), (73, 1), (292386187, 1)] (by norm_num) (by decide +kernel)
    (by
      intro qe h
      simp only [List.mem_cons, List.not_mem_nil, or_false] at h
      rcases h with rfl | rfl | rfl | rfl
      · exact prime_2
      · exact prime_5
      · exact prime_73
      · exact prime_292386187)
    (by decide +kernel) (by decide +kernel)
theorem prime_1361 : Nat.Prime 1361 := by norm_num
theorem prime_2851 : Nat.Prime 2851 := by norm_num
theorem prime_41 : Nat.Prime 41 := by norm_num
theorem prime_2551 : Nat.Prime 2551 := by norm_num
theorem prime_1224481 : Nat.Prime 1224481 :=
  pratt 1224481 13 [(2, 5), (3, 1), (5, 1), (2551, 1)] (by norm_num) (by decide +kernel)
    (by
      intro qe h
      simp only [List.mem_cons, List.not_mem_nil, or_false] at h
      rcases h with rfl | rfl | rfl | rfl
      · exact prime_2
      · exact prime_3
      · exact prime_5
      · exact prime_2551)
    (by decide +kernel) (by decide +kernel)
theorem prime_3797 : Nat.Prime 3797 := by norm_num
theorem prime_531581 : Nat.Prime 531581 :=
  pratt 531581 2 [(2, 2), (5, 1), (7, 1), (3797, 1)] (by norm_num) (by decide +kernel)
    (by
      intro qe h
      simp only [List.mem_cons, List.not_mem_nil, or_false] at h
      rcases h with rfl | rfl | rfl | rfl
      · exact prime_2
      · exact prime_5
      · exact prime_7
      · exact prime_3797)
    (by decide +kernel) (by decide +kernel)
theorem prime_1257559732178653 : Nat.Prime 1257559732178653 :=
  pratt 1257559732178653 2 [(2, 2), (3, 1), (7, 1), (23, 1), (531581, 1), (1224481, 1)] (by norm_num) (by decide +kernel)
    (by
      intro qe h
      simp only [List.mem_cons, List.not_mem_nil, or_false] at h
      rcases h with rfl | rfl | rfl | rfl | rfl | rfl
      · exact prime_2
      · exact prime_3
      · exact prime_7
      · exact prime_23
      · exact prime_531581
      · exact prime_1224481)
    (by decide +kernel) (by decide +kernel)
theorem prime_4434155615661930479 : Nat.Prime 4434155615661930479 :=
  pratt 4434155615661930479 17 [(2, 1), (41, 1), (43, 1), (1257559732178653, 1)] (by norm_num) (by decide +kernel)
    (by
      intro qe h
      simp only [List.mem_cons, List.not_mem_nil, or_false] at h
      rcases h with rfl | rfl | rfl | rfl
      · exact prime_2
      · exact prime_41
      · exact prime_43
      · exact prime_1257559732178653)
    (by decide +kernel) (by decide +kernel)
theorem prime_172054593956031949258510691 : Nat.Prime 172054593956031949258510691 :=
  pratt 172054593956031949258510691 2 [(2, 1), (5, 1), (1361, 1), (2851, 1), (4434155615661930479, 1)] (by norm_num) (by decide +kernel)
    (by
      intro qe h
      simp only [List.mem_cons, List.not_mem_nil, or_false] at h
      rcases h with rfl | rfl | rfl | rfl | rfl
      · exact prime_2
      · exact prime_5
      · exact prime_1361
      · exact prime_2851
      · exact prime_4434155615661930479)
    (by decide +kernel) (by decide +kernel)
theorem prime_19757330305831588566944191468367130476339 : Nat.Prime 19757330305831588566944191468367130476339 :=
  pratt 19757330305831588566944191468367130476339 2 [(2, 1), (269, 1), (213441916511, 1), (172054593956031949258510691, 1)] (by norm_num) (by decide +kernel)
    (by
      intro qe h
      simp only [List.mem_cons, List.not_mem_nil, or_false] at h
      rcases h with rfl | rfl | rfl | rfl
      · exact prime_2
      · exact prime_269
      · exact prime_213441916511
      · exact prime_172054593956031949258510691)
    (by decide +kernel) (by decide +kernel)
theorem prime_276602624281642239937218680557139826668747 : Nat.Prime 276602624281642239937218680557139826668747 :=
  pratt 276602624281642239937218680557139826668747 2 [(2, 1), (7, 1), (19757330305831588566944191468367130476339, 1)] (by norm_num) (by decide +kernel)
    (by
      intro qe h
      simp only [List.mem_cons, List.not_mem_nil, or_false] at h
      rcases h with rfl | rfl | rfl
      · exact prime_2
      · exact prime_7
      · exact prime_19757330305831588566944191468367130476339)
    (by decide +kernel) (by decide +kernel)
theorem prime_7237005577332262213973186563042994240857116359379907606001950938285454250989 : Nat.Prime 7237005577332262213973186563042994240857116359379907606001950938285454250989 :=
  pratt 7237005577332262213973186563042994240857116359379907606001950938285454250989 2 [(2, 2), (3, 1), (11, 1), (198211423230930754013084525763697, 1), (276602624281642239937218680557139826668747, 1)] (by norm_num) (by decide +kernel)
    (by
      intro qe h
      simp only [List.mem_cons, List.not_mem_nil, or_false] at h
      rcases h with rfl | rfl | rfl | rfl | rfl
      · exact prime_2
      · exact prime_3
      · exact prime_11
      · exact prime_198211423230930754013084525763697
      · exact prime_276602624281642239937218680557139826668747)
    (by decide +kernel) (by decide +kernel)


theorem bn254_r_prime : bn254_r.Prime := prime_21888242871839275222246405745257275088548364400416034343698204186575808495617
theorem bls12_381_r_prime : bls12_381_r.Prime := prime_52435875175126190479447740508185965837690552500527637822603658699938581184513
theorem curve25519_l_prime : curve25519_l.Prime := prime_7237005577332262213973186563042994240857116359379907606001950938285454250989

end Pysnark.Spec
