import PysnarkModel.Spec.SoundProg
/-!
# C14 at program level: a reference interpreter on exact rationals, and the fragment

Core Lean only (`Rat` is core), executable, evaluable by `decide +kernel`.

* `FxV`: what a register holds in the reference: a plain Python `int`, a plain float literal (the
  exact dyadic rational), the Python integer of an integer secret / of a boolean secret, or — for a
  fixed-point secret — THE REPRESENTED RATIONAL (not its scaled representation).
* `fxStep` / `fxRun`: the instruction language of `Model/Prog.lean` interpreted on these values at
  resolution `r` with the semantics of the statement of C14: `+`, `-`, unary `-`, `· int` exact;
  fixed-point × fixed-point (or float) and every quotient floored to the grid `2^-r`
  (`⌊a·b·2^r⌋/2^r`, `⌊a/b·2^r⌋/2^r`); `//` and `%` are Python's on the represented rationals;
  comparisons are those of the rationals; `val()` returns the rational; a float operand is first
  converted as `add_scaling` does (`int(f·2^r)`: truncation toward zero); `x << n` multiplies the
  represented number by `2^n`, `x >> n` divides it by `2^n` flooring to the grid (the library shifts
  the representation); a zero divisor and a negative shift count yield the marker `raises`.
* `fxRel r`: the register relation (decidable): a fixed-point register's representation equals
  (reference rational)·2^r; integer and boolean registers carry the reference integer; floats the
  reference rational; containers element-wise.
* `FxExcl`, `Instr.fxExcl`, `FxpFragment`: the decidable fragment (a replay of `run`), every
  exclusion named with its reason.
-/
namespace Pysnark

/-- reference values -/
inductive FxV
  | none
  /-- a plain Python `int` -/
  | int (v : Int)
  /-- a plain Python float: the exact (dyadic) rational -/
  | flt (q : Rat)
  /-- an integer secret (`LinComb`): its Python integer -/
  | sint (v : Int)
  /-- a boolean secret (`LinCombBool`): 0 or 1 -/
  | sbool (v : Int)
  /-- a fixed-point secret (`LinCombFxp`): the represented rational, a multiple of `2^-r` -/
  | fx (q : Rat)
  | list (xs : List FxV)
  | tuple (xs : List FxV)
deriving Repr

/-- result of a reference operation -/
inductive FxRes (α : Type)
  | val (a : α)
  /-- the library has to raise here (zero divisor, inexact integer division, a value that is not a
  boolean where one is declared, an operand that is not a number) -/
  | raises
  /-- outside the statement of C14 (excluded from `FxpFragment` by name) -/
  | unspec
deriving Repr

/-! ## rounding -/

/-- `int(q)`: truncation toward zero -/
def fxTrunc (q : Rat) : Int := if 0 ≤ q then q.floor else -((-q).floor)

/-- `add_scaling` of a float `q` at resolution `r`, as the represented number: `int(q·2^r)/2^r` -/
def fxOfFlt (r : Nat) (q : Rat) : Rat := (fxTrunc (q * 2 ^ r) : Rat) / 2 ^ r

/-- floor to the grid `2^-r`: `⌊q·2^r⌋/2^r` -/
def fxFloor (r : Nat) (q : Rat) : Rat := ((q * 2 ^ r).floor : Rat) / 2 ^ r

/-! ## operand views -/

def FxV.isFx : FxV → Bool | .fx _ => true | _ => false

/-- the Python integer of an integer-kind operand (plain int, integer secret, boolean secret) -/
def FxV.int? : FxV → Option Int
  | .int v | .sint v | .sbool v => some v
  | _ => Option.none

def FxV.isPlainInt : FxV → Bool | .int _ => true | _ => false

/-- the number an operand stands for next to a fixed-point operand (`_ensurefxp`): integers as they
are, a float through `add_scaling` -/
def FxV.num? (r : Nat) : FxV → Option Rat
  | .int v | .sint v | .sbool v => some (v : Rat)
  | .flt q => some (fxOfFlt r q)
  | .fx q => some q
  | _ => Option.none

/-- comparison as 0/1 -/
def fxCmpQ (op : Cmp) (a b : Rat) : Int :=
  match op with
  | .lt => if a < b then 1 else 0
  | .le => if a ≤ b then 1 else 0
  | .eq => if a = b then 1 else 0
  | .ne => if a = b then 0 else 1
  | .gt => if b < a then 1 else 0
  | .ge => if b ≤ a then 1 else 0

def fxCmpZ (op : Cmp) (a b : Int) : Int :=
  match op with
  | .lt => if a < b then 1 else 0
  | .le => if a ≤ b then 1 else 0
  | .eq => if a = b then 1 else 0
  | .ne => if a = b then 0 else 1
  | .gt => if b < a then 1 else 0
  | .ge => if b ≤ a then 1 else 0

/-! ## binary operators -/

/-- arithmetic and comparisons with at least one fixed-point operand, on the numbers `a`, `b` the
operands stand for; `ia`/`ib`: the operand is of integer kind (multiplication is then exact) -/
def fxArithQ (r : Nat) (op : BinOp) (ia ib : Bool) (a b : Rat) : FxRes FxV :=
  match op with
  | .add => .val (.fx (a + b))
  | .sub => .val (.fx (a - b))
  | .mul => if ia || ib then .val (.fx (a * b)) else .val (.fx (fxFloor r (a * b)))
  | .truediv => if b = 0 then .raises else .val (.fx (fxFloor r (a / b)))
  | .floordiv => if b = 0 then .raises else .val (.fx ((a / b).floor : Rat))
  | .mod => if b = 0 then .raises else .val (.fx (a - b * ((a / b).floor : Rat)))
  | .divmod =>
    if b = 0 then .raises
    else .val (.tuple [.fx ((a / b).floor : Rat), .fx (a - b * ((a / b).floor : Rat))])
  | .lt => .val (.sbool (fxCmpQ .lt a b))
  | .le => .val (.sbool (fxCmpQ .le a b))
  | .eq => .val (.sbool (fxCmpQ .eq a b))
  | .ne => .val (.sbool (fxCmpQ .ne a b))
  | .gt => .val (.sbool (fxCmpQ .gt a b))
  | .ge => .val (.sbool (fxCmpQ .ge a b))
  | _ => .unspec

/-- at least one operand is fixed-point -/
def fxBinFx (r : Nat) (op : BinOp) (wa wb : FxV) : FxRes FxV :=
  match op with
  | .lshift =>
    match wa, wb with
    | .fx q, .int n => if n < 0 then .raises else .val (.fx (q * 2 ^ n.toNat))
    | _, _ => .unspec
  | .rshift =>
    match wa, wb with
    | .fx q, .int n => if n < 0 then .raises else .val (.fx (fxFloor r (q / 2 ^ n.toNat)))
    | _, _ => .unspec
  | _ =>
    match wa.num? r, wb.num? r with
    | some a, some b => fxArithQ r op wa.int?.isSome wb.int?.isSome a b
    | _, _ => .raises

/-- the result of integer arithmetic is a secret unless both operands are plain ints -/
def fxMkInt (wa wb : FxV) (v : Int) : FxV :=
  if wa.isPlainInt && wb.isPlainInt then .int v else .sint v

/-- both operands of integer kind -/
def fxBinInt (op : BinOp) (wa wb : FxV) : FxRes FxV :=
  match wa.int?, wb.int? with
  | some a, some b =>
    match op with
    | .add => .val (fxMkInt wa wb (a + b))
    | .sub => .val (fxMkInt wa wb (a - b))
    | .mul => .val (fxMkInt wa wb (a * b))
    | _ =>
      if wa.isPlainInt && wb.isPlainInt then .unspec else
      match op with
      | .truediv => if b = 0 then .raises else if Int.fmod a b ≠ 0 then .raises else .val (.sint (Int.fdiv a b))
      | .floordiv => if b = 0 then .raises else .val (.sint (Int.fdiv a b))
      | .mod => if b = 0 then .raises else .val (.sint (Int.fmod a b))
      | .divmod => if b = 0 then .raises else .val (.tuple [.sint (Int.fdiv a b), .sint (Int.fmod a b)])
      | .lt => .val (.sbool (fxCmpZ .lt a b))
      | .le => .val (.sbool (fxCmpZ .le a b))
      | .eq => .val (.sbool (fxCmpZ .eq a b))
      | .ne => .val (.sbool (fxCmpZ .ne a b))
      | .gt => .val (.sbool (fxCmpZ .gt a b))
      | .ge => .val (.sbool (fxCmpZ .ge a b))
      | _ => .unspec
  | _, _ => .unspec

def fxBin (r : Nat) (op : BinOp) (wa wb : FxV) : FxRes FxV :=
  if wa.isFx || wb.isFx then fxBinFx r op wa wb else fxBinInt op wa wb

/-! ## unary operators, constructors, methods, selection -/

def fxUn (op : Un) (w : FxV) : FxRes FxV :=
  match op, w with
  | .neg, .int v => .val (.int (-v))
  | .neg, .flt q => .val (.flt (-q))
  | .neg, .sint v => .val (.sint (-v))
  | .neg, .sbool v => .val (.sint (-v))
  | .neg, .fx q => .val (.fx (-q))
  | .pos, .sint v => .val (.sint v)
  | .pos, .sbool v => .val (.sbool v)
  | .pos, .fx q => .val (.fx q)
  | .abs, .sint v => .val (.sint (if v < 0 then -v else v))
  | .abs, .fx q => .val (.fx (if q < 0 then -q else q))
  | _, _ => .unspec

def fxIsBool (v : Int) : Bool := v == 0 || v == 1

/-- `PrivVal(v)`, `PubValBool(v)`, `PrivValFxp(v)`, … -/
def fxMk (r : Nat) (k : Kind) (w : FxV) : FxRes FxV :=
  match k, w with
  | .priv, .int c | .pub, .int c | .const, .int c => .val (.sint c)
  | .privb, .int c | .pubb, .int c => if fxIsBool c then .val (.sbool c) else .raises
  | .privx, .int c | .pubx, .int c => .val (.fx (c : Rat))
  | .privx, .flt q | .pubx, .flt q => .val (.fx (fxOfFlt r q))
  | _, _ => .raises

/-- `LinCombBool(x)` -/
def fxWrapb : FxV → FxRes FxV
  | .sint v => if fxIsBool v then .val (.sbool v) else .raises
  | _ => .raises

/-- `LinCombFxp(x)` -/
def fxWrapx : FxV → FxRes FxV
  | .sint v => .val (.fx (v : Rat))
  | _ => .raises

/-- `x.val()`, `x.check_zero()`, `x.check_nonzero()`, `x.check_positive()` -/
def fxCall (m : Meth) (w : FxV) : FxRes FxV :=
  match m, w with
  | .val, .sint v | .val, .sbool v => .val (.int v)
  | .val, .fx q => .val (.flt q)
  | .checkZero, .sint v | .checkZero, .sbool v => .val (.sbool (if v = 0 then 1 else 0))
  | .checkZero, .fx q => .val (.sbool (if q = 0 then 1 else 0))
  | .checkNonzero, .sint v => .val (.sbool (if v = 0 then 0 else 1))
  | .checkNonzero, .fx q => .val (.sbool (if q = 0 then 0 else 1))
  | .checkPositive, .sint v | .checkPositive, .sbool v => .val (.sbool (if 0 ≤ v then 1 else 0))
  | .checkPositive, .fx q => .val (.sbool (if 0 ≤ q then 1 else 0))
  | _, _ => .unspec

/-- `truev is falsev` for two separately created plain values (CPython's cached small ints) -/
def fxSmallSame : FxV → FxV → Bool
  | .int a, .int b => a == b && -5 ≤ a && a ≤ 256
  | .none, .none => true
  | _, _ => false

def FxV.isSBool : FxV → Bool | .sbool _ => true | _ => false

/-- selection by a boolean secret of value `c` between two numbers: the result is a fixed-point
value as soon as one branch is (the other branch is converted); a boolean secret when both branches
are boolean secrets; else an integer secret -/
def fxSel (r : Nat) (c : Int) (t f : FxV) : FxRes FxV :=
  if t.isFx || f.isFx then
    match t.num? r, f.num? r with
    | some a, some b => .val (.fx (if c = 1 then a else b))
    | _, _ => .unspec
  else
    match t.int?, f.int? with
    | some a, some b =>
      if t.isSBool && f.isSBool then .val (.sbool (if c = 1 then a else b))
      else .val (.sint (if c = 1 then a else b))
    | _, _ => .unspec

/-- `if_then_else(c, t, f)`; `same` = the two branches are the same register -/
def fxIte (r : Nat) (same : Bool) (c t f : FxV) : FxRes FxV :=
  if same || fxSmallSame t f then .val t else
  match c with
  | .int v => if v != 0 && v != 1 then .raises else .val (if v != 0 then t else f)
  | .sbool v => fxSel r v t f
  | _ => .raises

/-! ## literals -/
mutual
/-- a plain literal as a reference value (`m/2^e` for the float literal `flt m e`) -/
def fxOfVal : Val → FxV
  | .none => .none
  | .int c => .int c
  | .flt m e => .flt ((m : Rat) / 2 ^ e)
  | .lc x => .sint x.value
  | .lcb x => .sbool x.value
  | .fxp x => .sint x.value
  | .list xs => .list (fxOfValL xs)
  | .tuple xs => .tuple (fxOfValL xs)
def fxOfValL : List Val → List FxV
  | [] => []
  | x :: xs => fxOfVal x :: fxOfValL xs
end

/-! ## the interpreter -/

def fxGet (regs : List FxV) (i : Nat) : FxRes FxV :=
  match regs[i]? with
  | some v => .val v
  | Option.none => .unspec

def fxGets (regs : List FxV) : List Nat → FxRes (List FxV)
  | [] => .val []
  | i :: is =>
    match fxGet regs i, fxGets regs is with
    | .val v, .val vs => .val (v :: vs)
    | _, _ => .unspec

/-- one instruction at resolution `r`: the new register value, the resolution and the register
file afterwards -/
def fxStep (r : Nat) (regs : List FxV) : Instr → FxRes (FxV × Nat × List FxV)
  | .lit v => .val (fxOfVal v, r, regs)
  | .mk k a =>
    match fxGet regs a with
    | .val w => match fxMk r k w with
      | .val v => .val (v, r, regs) | .raises => .raises | .unspec => .unspec
    | _ => .unspec
  | .wrapb a =>
    match fxGet regs a with
    | .val w => match fxWrapb w with
      | .val v => .val (v, r, regs) | .raises => .raises | .unspec => .unspec
    | _ => .unspec
  | .wrapx a =>
    match fxGet regs a with
    | .val w => match fxWrapx w with
      | .val v => .val (v, r, regs) | .raises => .raises | .unspec => .unspec
    | _ => .unspec
  | .bin op a b =>
    match fxGet regs a, fxGet regs b with
    | .val wa, .val wb => match fxBin r op wa wb with
      | .val v => .val (v, r, regs) | .raises => .raises | .unspec => .unspec
    | _, _ => .unspec
  | .un op a =>
    match fxGet regs a with
    | .val w => match fxUn op w with
      | .val v => .val (v, r, regs) | .raises => .raises | .unspec => .unspec
    | _ => .unspec
  | .call m self _ =>
    match fxGet regs self with
    | .val w => match fxCall m w with
      | .val v => .val (v, r, regs) | .raises => .raises | .unspec => .unspec
    | _ => .unspec
  | .ite c t f =>
    match fxGet regs c, fxGet regs t, fxGet regs f with
    | .val wc, .val wt, .val wf => match fxIte r (t == f) wc wt wf with
      | .val v => .val (v, r, regs) | .raises => .raises | .unspec => .unspec
    | _, _, _ => .unspec
  | .list xs | .arr xs =>
    match fxGets regs xs with
    | .val vs => .val (.list vs, r, regs)
    | _ => .unspec
  | .idx a i =>
    match fxGet regs a with
    | .val (.list xs) | .val (.tuple xs) =>
      match pyIndex xs.length i with
      | some k => match xs[k]? with | some x => .val (x, r, regs) | Option.none => .raises
      | Option.none => .raises
    | _ => .unspec
  | .aget a i =>
    match fxGet regs a, fxGet regs i with
    | .val (.list xs), .val (.int j) =>
      match pyIndex xs.length j with
      | some k => match xs[k]? with | some x => .val (x, r, regs) | Option.none => .raises
      | Option.none => .raises
    | _, _ => .unspec
  | .aset a i v =>
    match fxGet regs a, fxGet regs i, fxGet regs v with
    | .val (.list xs), .val (.int j), .val w =>
      match pyIndex xs.length j with
      | some k => .val (.none, r, regs.set a (.list (xs.set k w)))
      | Option.none => .raises
    | _, _, _ => .unspec
  | .setBl _ => .val (.none, r, regs)
  | .setRes n => .val (.none, n, regs)
  | .genter _ | .gleave | .setIgn _ => .unspec

/-- the reference run from resolution `r`: the final register file -/
def fxRunAux : List Instr → Nat → List FxV → FxRes (List FxV)
  | [], _, regs => .val regs
  | i :: is, r, regs =>
    match fxStep r regs i with
    | .val (v, r', regs') => fxRunAux is r' (regs' ++ [v])
    | .raises => .raises
    | .unspec => .unspec

/-- **the reference run** of `prog` at initial resolution `res` -/
def fxRun (res : Nat) (prog : List Instr) : FxRes (List FxV) := fxRunAux prog res []

/-! ## the register relation -/
mutual
/-- **the register relation at resolution `r`** -/
def fxRel (r : Nat) : Val → FxV → Bool
  | .none, .none => true
  | .int c, .int d => c == d
  | .flt m e, .flt q => ((m : Rat) / 2 ^ e) == q
  | .lc x, .sint v => x.value == v
  | .lcb x, .sbool v => x.value == v && fxIsBool v
  | .fxp x, .fx q => (x.value : Rat) == q * 2 ^ r
  | .list xs, .list ws => fxRelL r xs ws
  | .tuple xs, .tuple ws => fxRelL r xs ws
  | _, _ => false
def fxRelL (r : Nat) : List Val → List FxV → Bool
  | [], [] => true
  | x :: xs, w :: ws => fxRel r x w && fxRelL r xs ws
  | _, _ => false
end

/-! ## the fragment -/

/-- why an instruction — together with the kinds of the operands it meets at run time — is outside
the fragment of `C14_program` -/
inductive FxExcl
  /-- `guarded` regions: values inside a false guard are dummies; the subject of C07 -/
  | guardRegion
  /-- `set ign`: with error checking off the hints of failing operations are arbitrary -/
  | ignoreErrors
  /-- `set res` while a register holds a fixed-point value: the library does not rescale existing
  values, so the number such a value stands for changes (the statement fixes one resolution) -/
  | resAfterFxp
  /-- a literal containing a secret: not a value the API can produce -/
  | secretLiteral
  /-- RECORDED DEVIATION, finding C05-secret-exponent-mod-p: a secret shift count goes through
  `2 ** secret`, reduced modulo the field prime -/
  | secretShift
  /-- `LinCombFxp ** n`: not in the statement of C14; the value is reduced modulo the field prime -/
  | fxpPow
  /-- an operand that is not a number (None, container), or a float next to integers only: the
  library raises (or Python's own float arithmetic applies) -/
  | operandKind
  /-- `/`, `//`, `%`, `divmod`, comparisons with a boolean secret and no fixed-point operand: the
  `LinCombBool` operator table, subject of C05 -/
  | boolOperand
  /-- `**`, `<<`, `>>`, `&`, `|`, `^` (no fixed-point operand involved, or bitwise on a fixed-point
  operand: TypeError): integer bit operations, subject of C05/C16 -/
  | integerBitOp
  /-- `~x` (finding C05-invert), `abs` of a boolean -/
  | unaryOther
  /-- methods other than `val`, `check_zero`, `check_nonzero`, `check_positive` (assertions and
  bit decomposition return nothing / bits: subject of C03, C16), or an explicit width argument -/
  | otherMethod
  /-- selection between containers (element-wise recursion: subject of C09), or with a branch that
  is not a number -/
  | containerSelect
  /-- `Array` access with a secret index: subject of C15 -/
  | secretIndex
deriving DecidableEq, Repr

def Val.fxIsLcb : Val → Bool | .lcb _ => true | _ => false
/-- int, integer secret, boolean secret -/
def Val.fxIntK : Val → Bool | .int _ | .lc _ | .lcb _ => true | _ => false
/-- a number `_ensurefxp` accepts -/
def Val.fxNumK : Val → Bool | .int _ | .flt _ _ | .lc _ | .lcb _ | .fxp _ => true | _ => false

mutual
def Val.fxHasFxp : Val → Bool
  | .fxp _ => true
  | .list xs | .tuple xs => Val.fxHasFxpL xs
  | _ => false
def Val.fxHasFxpL : List Val → Bool
  | [] => false
  | x :: xs => x.fxHasFxp || Val.fxHasFxpL xs
end

/-- exclusions of a binary operator applied to the run-time values `a`, `b` -/
def fxExclBin (op : BinOp) (a b : Val) : Option FxExcl :=
  if a.isFxp || b.isFxp then
    match op with
    | .add | .sub | .mul | .truediv | .floordiv | .mod | .divmod | .lt | .le | .ge | .gt | .eq | .ne =>
      if a.fxNumK && b.fxNumK then none else some .operandKind
    | .lshift =>
      match a, b with
      | .fxp _, .int _ => none
      | .fxp _, .lc _ => some .secretShift
      | _, _ => some .operandKind
    | .rshift =>
      match a, b with
      | .fxp _, .int _ => none
      | .fxp _, .lc _ => some .secretShift
      | _, _ => some .operandKind
    | .pow => some .fxpPow
    | .band | .bxor | .bor => some .integerBitOp
  else if a.fxIntK && b.fxIntK then
    match op with
    | .add | .sub | .mul => none
    | .truediv | .floordiv | .mod | .divmod | .lt | .le | .eq | .ne | .gt | .ge =>
      if a.fxIsLcb || b.fxIsLcb then some .boolOperand else none
    | .pow | .lshift | .rshift | .band | .bxor | .bor => some .integerBitOp
  else some .operandKind

def fxExclUn (op : Un) (a : Val) : Option FxExcl :=
  match op with
  | .neg | .pos => none
  | .abs => if a.fxIsLcb then some .unaryOther else none
  | .invert => some .unaryOther

def fxExclCall (m : Meth) (args : List Val) : Option FxExcl :=
  match m with
  | .val | .checkZero | .checkNonzero => none
  | .checkPositive => if args.isEmpty then none else some .otherMethod
  | _ => some .otherMethod

def fxExclIte (c t f : Val) : Option FxExcl :=
  match c with
  | .lcb _ =>
    if (t.isFxp || f.isFxp) then (if t.fxNumK && f.fxNumK then none else some .containerSelect)
    else if t.fxIntK && f.fxIntK then none else some .containerSelect
  | _ => none

/-- **the exclusion table**: `none` = the instruction is in the fragment when it meets the register
file `regs` in state `s` -/
def Instr.fxExcl (s : St) (regs : List Val) : Instr → Option FxExcl
  | .lit v => if v.plain then none else some .secretLiteral
  | .bin op a b =>
    match getReg regs a s, getReg regs b s with
    | .ok (x, _), .ok (y, _) => fxExclBin op x y
    | _, _ => none
  | .un op a =>
    match getReg regs a s with
    | .ok (x, _) => fxExclUn op x
    | _ => none
  | .call m _ args =>
    match getRegs regs args s with
    | .ok (as, _) => fxExclCall m as
    | _ => none
  | .ite c t f =>
    match getReg regs c s, getReg regs t s, getReg regs f s with
    | .ok (x, _), .ok (y, _), .ok (z, _) => if t == f then none else fxExclIte x y z
    | _, _, _ => none
  | .aget _ i | .aset _ i _ =>
    match getReg regs i s with
    | .ok (.int _, _) => none
    | .ok (_, _) => some .secretIndex
    | _ => none
  | .genter _ | .gleave => some .guardRegion
  | .setIgn _ => some .ignoreErrors
  | .setRes _ => if Val.fxHasFxpL regs then some .resAfterFxp else none
  | _ => none

/-- replay of `runAux`: no executed instruction is excluded -/
def fxFragAux : List Instr → List Val → List GuardBak → St → Bool
  | [], _, _, _ => true
  | i :: is, regs, frames, s =>
    (i.fxExcl s regs).isNone &&
    match step regs frames i s with
    | .ok ((v, regs', frames'), s') => fxFragAux is (regs' ++ [v]) frames' s'
    | .error _ => true

/-- **the fragment of `C14_program`**: decidable; see `Instr.fxExcl` for the table and `FxExcl` for
the reasons -/
def FxpFragment (s0 : St) (prog : List Instr) : Prop := fxFragAux prog [] [] s0 = true

instance (s0 : St) (prog : List Instr) : Decidable (FxpFragment s0 prog) :=
  inferInstanceAs (Decidable (_ = true))

/-- diagnostic twin of `fxFragAux`: index and reason of the first excluded instruction -/
def fxFirstExcl : List Instr → Nat → List Val → List GuardBak → St → Option (Nat × FxExcl)
  | [], _, _, _, _ => none
  | i :: is, k, regs, frames, s =>
    match i.fxExcl s regs with
    | some e => some (k, e)
    | none =>
      match step regs frames i s with
      | .ok ((v, regs', frames'), s') => fxFirstExcl is (k+1) (regs' ++ [v]) frames' s'
      | .error _ => none

end Pysnark
