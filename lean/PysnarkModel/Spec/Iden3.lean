/-!
# Decoders for the iden3 binary formats `.wtns` and `.r1cs`

Written from the format description (iden3 `binfileutils` container: 4-byte magic, `u32` version,
`u32` number of sections, then sections `u32 id, u64 size, size bytes of content`; all integers
little-endian), independently of the writer model.

* `.wtns` (version 2, two sections): section 1 = `u32 n8`, prime (`n8` bytes), `u32 nWitness`;
  section 2 = `nWitness` field elements of `n8` bytes.
* `.r1cs` (version 1, three sections): section 1 = `u32 n8`, prime (`n8` bytes), `u32 nWires`,
  `u32 nPubOut`, `u32 nPubIn`, `u32 nPrvIn`, `u64 nLabels`, `u32 mConstraints`;
  section 2 = `mConstraints` constraints, each three linear combinations
  `u32 nTerms, nTerms × (u32 wireId, n8-byte coefficient)`;
  section 3 = wire-to-label map, `nWires` entries of `u64`.

The decoders are strict: they check magic, version, number of sections, the section ids in the
order 1,2(,3), that every declared section size is exactly the size of the section content, that
declared counts agree with the content, that wire ids are `< nWires`, that every input element is a
byte, and that the input is fully consumed.
-/
namespace Pysnark.Iden3

/-- little-endian value of a byte list -/
def leNat : List Nat → Nat
  | [] => 0
  | b :: bs => b + 256 * leNat bs

/-- a parser consumes a prefix of the input and returns the remaining input -/
abbrev Parser (α : Type) := List Nat → Option (α × List Nat)

/-- exactly `n` bytes -/
def takeBytes (n : Nat) : Parser (List Nat) := fun bs =>
  if n ≤ bs.length then some (bs.take n, bs.drop n) else none

/-- an `n`-byte little-endian unsigned integer -/
def readNat (n : Nat) : Parser Nat := fun bs =>
  match takeBytes n bs with
  | some (x, r) => some (leNat x, r)
  | none => none

/-- an `n`-byte little-endian unsigned integer that must equal `v` -/
def expectNat (n v : Nat) : Parser Unit := fun bs =>
  match readNat n bs with
  | some (x, r) => if x = v then some ((), r) else none
  | none => none

/-- the given literal bytes -/
def expectBytes (m : List Nat) : Parser Unit := fun bs =>
  match takeBytes m.length bs with
  | some (x, r) => if x = m then some ((), r) else none
  | none => none

/-- `count` repetitions of `p` -/
def readMany {α : Type} (p : Parser α) : Nat → Parser (List α)
  | 0 => fun bs => some ([], bs)
  | n + 1 => fun bs =>
    match p bs with
    | some (a, r) =>
      match readMany p n r with
      | some (as, r') => some (a :: as, r')
      | none => none
    | none => none

/-- a section with the expected id: returns its content (exactly the declared size) -/
def readSection (id : Nat) : Parser (List Nat) := fun bs =>
  match expectNat 4 id bs with
  | some (_, r) =>
    match readNat 8 r with
    | some (size, r') => takeBytes size r'
    | none => none
  | none => none

/-- run a parser on a complete section content: the content must be consumed entirely -/
def parseAll {α : Type} (p : Parser α) (bs : List Nat) : Option α :=
  match p bs with
  | some (a, []) => some a
  | _ => none

/-! ## `.wtns` -/

structure WtnsFile where
  fieldSize : Nat
  prime : Nat
  nWitness : Nat
  values : List Nat
deriving Repr, DecidableEq

def magicWtns : List Nat := [0x77, 0x74, 0x6e, 0x73]

/-- header section: field size, prime, number of witness values -/
def wtnsHeader : Parser (Nat × Nat × Nat) := fun bs =>
  match readNat 4 bs with
  | some (n8, r) =>
    match readNat n8 r with
    | some (q, r) =>
      match readNat 4 r with
      | some (nw, r) => some ((n8, q, nw), r)
      | none => none
    | none => none
  | none => none

def decodeWtns (bs : List Nat) : Option WtnsFile :=
  if bs.all (· < 256) then
    match expectBytes magicWtns bs with
    | some (_, r) =>
      match expectNat 4 2 r with          -- version
      | some (_, r) =>
        match expectNat 4 2 r with        -- number of sections
        | some (_, r) =>
          match readSection 1 r with
          | some (s1, r) =>
            match readSection 2 r with
            | some (s2, []) =>
              match parseAll wtnsHeader s1 with
              | some (n8, q, nw) =>
                match parseAll (readMany (readNat n8) nw) s2 with
                | some vals => some ⟨n8, q, nw, vals⟩
                | none => none
              | none => none
            | _ => none
          | none => none
        | none => none
      | none => none
    | none => none
  else none

/-! ## `.r1cs` -/

/-- a decoded linear combination: `(wire index, coefficient)` terms in file order -/
abbrev DLC := List (Nat × Nat)

structure R1csFile where
  fieldSize : Nat
  prime : Nat
  nWires : Nat
  nPubOut : Nat
  nPubIn : Nat
  nPrvIn : Nat
  nLabels : Nat
  nConstraints : Nat
  constraints : List (DLC × DLC × DLC)
  labels : List Nat
deriving Repr, DecidableEq

structure R1csHeader where
  fieldSize : Nat
  prime : Nat
  nWires : Nat
  nPubOut : Nat
  nPubIn : Nat
  nPrvIn : Nat
  nLabels : Nat
  nConstraints : Nat
deriving Repr, DecidableEq

def magicR1cs : List Nat := [0x72, 0x31, 0x63, 0x73]

def r1csHeader : Parser R1csHeader := fun bs =>
  match readNat 4 bs with
  | some (n8, r) =>
    match readNat n8 r with
    | some (q, r) =>
      match readNat 4 r with
      | some (nWires, r) =>
        match readNat 4 r with
        | some (nPubOut, r) =>
          match readNat 4 r with
          | some (nPubIn, r) =>
            match readNat 4 r with
            | some (nPrvIn, r) =>
              match readNat 8 r with
              | some (nLabels, r) =>
                match readNat 4 r with
                | some (m, r) => some (⟨n8, q, nWires, nPubOut, nPubIn, nPrvIn, nLabels, m⟩, r)
                | none => none
              | none => none
            | none => none
          | none => none
        | none => none
      | none => none
    | none => none
  | none => none

/-- one term: wire id (must be an existing wire) and coefficient -/
def readTerm (n8 nWires : Nat) : Parser (Nat × Nat) := fun bs =>
  match readNat 4 bs with
  | some (w, r) =>
    if w < nWires then
      match readNat n8 r with
      | some (c, r) => some ((w, c), r)
      | none => none
    else none
  | none => none

/-- one linear combination: term count, then the terms -/
def readLC (n8 nWires : Nat) : Parser DLC := fun bs =>
  match readNat 4 bs with
  | some (nTerms, r) => readMany (readTerm n8 nWires) nTerms r
  | none => none

/-- one constraint `A * B = C` -/
def readConstraint (n8 nWires : Nat) : Parser (DLC × DLC × DLC) := fun bs =>
  match readLC n8 nWires bs with
  | some (a, r) =>
    match readLC n8 nWires r with
    | some (b, r) =>
      match readLC n8 nWires r with
      | some (c, r) => some ((a, b, c), r)
      | none => none
    | none => none
  | none => none

def decodeR1cs (bs : List Nat) : Option R1csFile :=
  if bs.all (· < 256) then
    match expectBytes magicR1cs bs with
    | some (_, r) =>
      match expectNat 4 1 r with          -- version
      | some (_, r) =>
        match expectNat 4 3 r with        -- number of sections
        | some (_, r) =>
          match readSection 1 r with
          | some (s1, r) =>
            match readSection 2 r with
            | some (s2, r) =>
              match readSection 3 r with
              | some (s3, []) =>
                match parseAll r1csHeader s1 with
                | some h =>
                  match parseAll (readMany (readConstraint h.fieldSize h.nWires) h.nConstraints) s2 with
                  | some cons =>
                    match parseAll (readMany (readNat 8) h.nWires) s3 with
                    | some labels =>
                      some ⟨h.fieldSize, h.prime, h.nWires, h.nPubOut, h.nPubIn, h.nPrvIn,
                            h.nLabels, h.nConstraints, cons, labels⟩
                    | none => none
                  | none => none
                | none => none
              | _ => none
            | none => none
          | none => none
        | none => none
      | none => none
    | none => none
  else none

/-! ## Meaning of the decoded files -/

/-- value of a decoded linear combination on a decoded witness: `Σ coeff * wit[wire]` -/
def evalDecoded (l : DLC) (w : List Nat) : Int :=
  (l.map fun ic => (ic.2 : Int) * ((w.getD ic.1 0 : Nat) : Int)).sum

/-- the witness `w` satisfies the constraint `A * B = C` modulo the prime `q` -/
def satDecoded (q : Nat) (w : List Nat) (c : DLC × DLC × DLC) : Prop :=
  (evalDecoded c.1 w * evalDecoded c.2.1 w) % (q : Int) = evalDecoded c.2.2 w % (q : Int)

instance (q : Nat) (w : List Nat) (c : DLC × DLC × DLC) : Decidable (satDecoded q w c) := by
  unfold satDecoded; infer_instance

end Pysnark.Iden3
