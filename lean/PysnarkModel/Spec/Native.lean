import PysnarkModel.Model.Branching
import PysnarkModel.Spec.R1CS
/-!
# Reference semantics for C09: the same structured program with native Python control flow

Plain Python on plain values: `if/elif/else`, `for lv in range(bound)`,
`k = 0; while c and k < mx: body; k += 1; if brk: break`, `x = t if c else f`, `x[i][j] = e`.

Values.  Python `int`s (and `bool`s, which are the ints 0 and 1) are `NLeaf.int`; the numbers that
stand for fixed-point values are exact dyadic rationals, kept as multiples of `2^-r` (`NLeaf.fx m`
is `m / 2^r`, `r` the resolution); lists are Python lists with value semantics for the variable that
holds them (`PTree.node`).  Arithmetic is exact: `int ∘ int` is an `int`, anything involving a
rational is a rational (`+`, `-`, and `*` when the product is again a multiple of `2^-r`);
comparisons compare the numbers and give 0/1; `not`, `and`, `or` are Python's on truth values.

A run ends with the final variables, or stops with `name` (a variable, input, loop variable or list
element read before it exists: `NameError`/`KeyError`/`IndexError`), `type` (a list where a number
is needed, a bound that is not an integer), `inexact` (a product or an initial value that is not a
multiple of `2^-r`), or `uncapped`: a `for` loop was reached whose bound is outside `0 … max`, the
precondition under which the library's `_range(bound, max=…)` stands for `range(bound)`.
-/
namespace Pysnark

inductive NLeaf
  | int (n : Int)
  /-- the rational `m / 2^r` -/
  | fx (m : Int)
deriving DecidableEq, Repr

/-- native values -/
abbrev NVal := PTree NLeaf

/-- the number in units of `2^-r` -/
def NLeaf.norm (r : Nat) : NLeaf → Int
  | .int n => n * 2 ^ r
  | .fx m => m

/-- native variables -/
abbrev NEnv := List (Nat × NVal)

namespace NEnv
def get? : NEnv → Nat → Option NVal
  | [], _ => none
  | (y, v) :: t, x => if y = x then some v else get? t x

def set : NEnv → Nat → NVal → NEnv
  | [], x, v => [(x, v)]
  | (y, w) :: t, x, v => if y = x then (y, v) :: t else (y, w) :: set t x v
end NEnv

/-- what the native program reads besides its variables -/
structure NCtx where
  /-- the resolution `r` -/
  res : Nat
  inputs : List NLeaf
  finputs : List NLeaf := []
  lvs : List (Nat × Int) := []

/-- how a native run can stop early -/
inductive NErr
  /-- `NameError`/`KeyError`/`IndexError`: a variable, input, loop variable or element read before it exists -/
  | name
  /-- `TypeError`: a list used as a number, a number indexed, a loop bound that is not an integer -/
  | type
  /-- a value that is not a multiple of `2^-r`: outside what fixed point at this resolution represents -/
  | inexact
  /-- a `for` loop was reached whose bound is outside `0 … max`: outside the domain of the property
  ("a secret bound capped by a public maximum") -/
  | uncapped
deriving DecidableEq, Repr

abbrev NM := Except NErr

def nGet {α} (o : Option α) : NM α :=
  match o with
  | some v => .ok v
  | none => .error .name

/-- a number (not a list) -/
def nScalar : NVal → NM NLeaf
  | .leaf a => .ok a
  | .node _ => .error .type

def nAdd (r : Nat) : NLeaf → NLeaf → NLeaf
  | .int x, .int y => .int (x + y)
  | a, b => .fx (a.norm r + b.norm r)

def nSub (r : Nat) : NLeaf → NLeaf → NLeaf
  | .int x, .int y => .int (x - y)
  | a, b => .fx (a.norm r - b.norm r)

def nMul (r : Nat) : NLeaf → NLeaf → NM NLeaf
  | .int x, .int y => .ok (.int (x * y))
  | a, b =>
    let p := a.norm r * b.norm r            -- in units of `2^-2r`
    if p % 2 ^ r = 0 then .ok (.fx (p / 2 ^ r)) else .error .inexact

def cmpB : Cmp → Int → Int → Bool
  | .lt, a, b => a < b
  | .le, a, b => a ≤ b
  | .eq, a, b => a = b
  | .ne, a, b => a ≠ b
  | .gt, a, b => a > b
  | .ge, a, b => a ≥ b

def nBool (b : Bool) : NLeaf := .int (if b then 1 else 0)

/-- Python's truth value of a number -/
def NLeaf.truthy (r : Nat) (a : NLeaf) : Bool := a.norm r != 0

def nBin (f : NLeaf → NLeaf → NM NLeaf) (x y : NVal) : NM NVal := do
  let a ← nScalar x
  let b ← nScalar y
  let c ← f a b
  pure (.leaf c)

mutual
def nEvalE (ctx : NCtx) (env : NEnv) : BExpr → NM NVal
  | .var x => nGet (env.get? x)
  | .inp i => do let a ← nGet ctx.inputs[i]?; pure (.leaf a)
  | .finp i => do let a ← nGet ctx.finputs[i]?; pure (.leaf a)
  | .const c => .ok (.leaf (.int c))
  | .loopvar v => do let k ← nGet (lookupLv ctx.lvs v); pure (.leaf (.int k))
  | .add a b => do let x ← nEvalE ctx env a; let y ← nEvalE ctx env b; nBin (fun p q => .ok (nAdd ctx.res p q)) x y
  | .sub a b => do let x ← nEvalE ctx env a; let y ← nEvalE ctx env b; nBin (fun p q => .ok (nSub ctx.res p q)) x y
  | .mul a b => do let x ← nEvalE ctx env a; let y ← nEvalE ctx env b; nBin (nMul ctx.res) x y
  | .cmp op a b => do
    let x ← nEvalE ctx env a; let y ← nEvalE ctx env b
    nBin (fun p q => .ok (nBool (cmpB op (p.norm ctx.res) (q.norm ctx.res)))) x y
  | .not a => do
    let x ← nEvalE ctx env a
    let p ← nScalar x
    pure (.leaf (nBool (!p.truthy ctx.res)))
  | .and a b => do
    let x ← nEvalE ctx env a; let y ← nEvalE ctx env b      -- `&` evaluates both operands
    nBin (fun p q => .ok (if p.truthy ctx.res then q else p)) x y
  | .or a b => do
    let x ← nEvalE ctx env a; let y ← nEvalE ctx env b
    nBin (fun p q => .ok (if p.truthy ctx.res then p else q)) x y
  | .list es => do let ts ← nEvalEs ctx env es; pure (.node ts)
  | .item e i => do
    let t ← nEvalE ctx env e
    match t with
    | .node ts => nGet ts[i]?
    | .leaf _ => .error .type
def nEvalEs (ctx : NCtx) (env : NEnv) : BExprs → NM (List NVal)
  | .nil => .ok []
  | .cons e es => do
    let t ← nEvalE ctx env e
    let ts ← nEvalEs ctx env es
    pure (t :: ts)
end

/-- the truth value of a condition -/
def nEvalC (ctx : NCtx) (env : NEnv) (c : BCond) : NM Bool := do
  let v ← nEvalE ctx env c
  let p ← nScalar v
  pure (p.truthy ctx.res)

/-- `for i in range(start, start + n): e = f(i, e)` -/
def nIter : Nat → (Nat → NEnv → NM NEnv) → Nat → NEnv → NM NEnv
  | 0, _, _, e => .ok e
  | n+1, f, i, e => do
    let e ← f i e
    nIter n f (i+1) e

/-- `while cond and k < mx: body; k += 1; if brk: break` with `fuel = mx - k` rounds left -/
def nWhile (cond : NEnv → NM Bool) (body : NEnv → NM NEnv) (brk : NEnv → NM Bool) :
    Nat → NEnv → NM NEnv
  | 0, e => do let _ ← cond e; pure e          -- the test is evaluated once more, then `k < mx` fails
  | fuel+1, e => do
    let c ← cond e
    if c then do
      let e ← body e
      let b ← brk e
      if b then pure e else nWhile cond body brk fuel e
    else pure e

/-- `if brk: break` (no break condition: never) -/
def nBrk (ctx : NCtx) (brk : Option BCond) (e : NEnv) : NM Bool :=
  match brk with
  | none => .ok false
  | some b => nEvalC ctx e b

/-- the loop bound as an integer -/
def nBound (r : Nat) (v : NVal) : NM Int := do
  let p ← nScalar v
  if p.norm r % 2 ^ r = 0 then pure (p.norm r / 2 ^ r) else .error .type

mutual
def nStmt (ctx : NCtx) : BStmt → NEnv → NM NEnv
  | .assign x e, env => do
    let v ← nEvalE ctx env e
    pure (env.set x v)
  | .setitem x path e, env => do
    let v ← nEvalE ctx env e
    let old ← nGet (env.get? x)
    let new ← nGet (old.set path v)
    pure (env.set x new)
  | .sel x c t f, env => do
    let b ← nEvalC ctx env c
    let v ← if b then nEvalE ctx env t else nEvalE ctx env f
    pure (env.set x v)
  | .ite x c t f, env => do
    let b ← nEvalC ctx env c
    let v ← if b then nEvalE ctx env t else nEvalE ctx env f
    pure (env.set x v)
  | .ifs c body rest, env => do
    let b ← nEvalC ctx env c
    if b then nBlock ctx body env else nIfRest ctx rest env
  | .forr lv bound mx body, env => do
    let bv ← nEvalE ctx env bound
    let b ← nBound ctx.res bv
    if 0 ≤ b ∧ b ≤ mx then
      nIter b.toNat (fun i e => nBlock { ctx with lvs := (lv, (i : Int)) :: ctx.lvs } body e) 0 env
    else .error .uncapped
  | .whil c mx body brk, env =>
    nWhile (fun e => nEvalC ctx e c) (fun e => nBlock ctx body e) (nBrk ctx brk) mx env

def nBlock (ctx : NCtx) : BBlock → NEnv → NM NEnv
  | .nil, env => .ok env
  | .cons s rest, env => do
    let env ← nStmt ctx s env
    nBlock ctx rest env

def nIfRest (ctx : NCtx) : BIfRest → NEnv → NM NEnv
  | .endif, env => .ok env
  | .els b, env => nBlock ctx b env
  | .elif c b rest, env => do
    let t ← nEvalC ctx env c
    if t then nBlock ctx b env else nIfRest ctx rest env
end

/-! ## initial values -/

/-- the plain value behind `PrivVal(v)`, `PrivVal(v) == 1`, `PrivValFxp(m / 2^e)` -/
def nLeaf (r : Nat) : ILeaf → NM NLeaf
  | .int v => .ok (.int v)
  | .bool v => .ok (nBool (v == 1))
  | .fxp m e => if (m * 2 ^ r) % 2 ^ e = 0 then .ok (.fx (m * 2 ^ r / 2 ^ e)) else .error .inexact

mutual
def nInit (r : Nat) : IVal → NM NVal
  | .leaf a => do let b ← nLeaf r a; pure (.leaf b)
  | .node ts => do let rs ← nInitL r ts; pure (.node rs)
def nInitL (r : Nat) : List IVal → NM (List NVal)
  | [] => .ok []
  | t :: ts => do
    let v ← nInit r t
    let vs ← nInitL r ts
    pure (v :: vs)
end

def nInitVars (r : Nat) : List (Nat × IVal) → NEnv → NM NEnv
  | [], env => .ok env
  | (x, v) :: rest, env => do
    let w ← nInit r v
    nInitVars r rest (env.set x w)

def nLeaves (r : Nat) : List ILeaf → NM (List NLeaf)
  | [] => .ok []
  | a :: as => do
    let b ← nLeaf r a
    let bs ← nLeaves r as
    pure (b :: bs)

/-- the plain values the run starts from: variables, inputs (`NErr.inexact`: an initial fixed-point
value is not a multiple of `2^-r`) -/
def nativeInit (r : Nat) (init : List (Nat × IVal)) (inputs : List Int) (finputs : List (Int × Nat)) :
    NM (NEnv × NCtx) := do
  let env ← nInitVars r init []
  let inp ← nLeaves r (inputs.map ILeaf.int)
  let finp ← nLeaves r (finputs.map (fun me => ILeaf.fxp me.1 me.2))
  pure (env, { res := r, inputs := inp, finputs := finp })

/-- the native twin of `runBlockT`, at resolution `r` -/
def nativeRunT (r : Nat) (init : List (Nat × IVal)) (inputs : List Int) (finputs : List (Int × Nat)) (prog : BBlock) :
    NM NEnv := do
  let (env, nc) ← nativeInit r init inputs finputs
  nBlock nc prog env

/-- the native twin of `runBlock` (integer variables and inputs only) -/
def nativeRun (r : Nat) (init : List (Nat × Int)) (inputs : List Int) (prog : BBlock) : NM NEnv :=
  nativeRunT r (init.map (fun kv => (kv.1, PTree.leaf (ILeaf.int kv.2)))) inputs [] prog

/-! ## when a value of the library *is* a native value

Both sides are read as numbers in units of `2^-r`: a `LinComb`, a `LinCombBool` and a plain int
stand for the integer they hold, a `LinCombFxp` for `value / 2^r`; lists element-wise. -/

/-- the number a scalar of the library stands for, in units of `2^-r` -/
def SVal.den (r : Nat) : SVal → Int
  | .pub c => c * 2 ^ r
  | .sc .fxp l _ => l.value
  | .sc _ l _ => l.value * 2 ^ r

/-- numbers in units of `2^-r`, lists of them -/
abbrev DVal := PTree Int

def denT (r : Nat) (t : TVal) : DVal := t.map (SVal.den r)
def denN (r : Nat) (v : NVal) : DVal := v.map (NLeaf.norm r)

/-- a `LinCombBool` holds 0 or 1 -/
def SVal.bok : SVal → Bool
  | .sc .bool l _ => l.value == 0 || l.value == 1
  | _ => true

def TVal.bok (t : TVal) : Bool := t.all SVal.bok

mutual
/-- every leaf of a (nested) list satisfies `P` -/
def PTree.AllP {α : Type} (P : α → Prop) : PTree α → Prop
  | .leaf a => P a
  | .node ts => PTree.AllPL P ts
def PTree.AllPL {α : Type} (P : α → Prop) : List (PTree α) → Prop
  | [] => True
  | t :: ts => PTree.AllP P t ∧ PTree.AllPL P ts
end

/-- the wrapped `LinComb` of a scalar (if it is not a plain int) satisfies `P` -/
def SVal.lcP (P : LinComb → Prop) : SVal → Prop
  | .pub _ => True
  | .sc _ l _ => P l

/-- an object whose deep copy is the object itself: a `LinComb` (`LinComb.__deepcopy__` returns
`self`); `LinCombBool` and `LinCombFxp` are re-created by `copy.deepcopy` -/
def SVal.stable : SVal → Bool
  | .sc .int _ (some _) => true
  | _ => false

/-- a secret integer, or a (nested) list of secret integers -/
def TVal.stable (t : TVal) : Bool := t.all SVal.stable

def Vals.valOf (r : Nat) (vs : Vals) (x : Nat) : Option DVal := (vs.get? x).map (denT r)
def NEnv.valOf (r : Nat) (E : NEnv) (x : Nat) : Option DVal := (E.get? x).map (denN r)

def Vals.bok (vs : Vals) : Prop := ∀ kv ∈ vs, kv.2.bok = true

/-- the tracked variables are exactly the native variables and hold the same numbers (fixed point
by representation); every tracked boolean is 0 or 1 -/
structure RefV (r : Nat) (vals : Vals) (E : NEnv) : Prop where
  eq : ∀ x, vals.valOf r x = E.valOf r x
  bok : vals.bok

/-! ## kinds: which of the library's types a tracked scalar has -/

/-- the type of a scalar object: `none` for a plain int, else `LinComb` / `LinCombBool` / `LinCombFxp` -/
def SVal.kind : SVal → Option TKind
  | .pub _ => none
  | .sc k _ _ => some k

/-- the types of the scalars of a value, in its list structure -/
abbrev KTree := PTree (Option TKind)

def TVal.kinds (t : TVal) : KTree := t.map SVal.kind

/-- the types a tracked variable holds (`none`: unbound) -/
def Vals.kindOf (vs : Vals) (x : Nat) : Option KTree := (vs.get? x).map TVal.kinds

def ILeaf.kind : ILeaf → TKind
  | .int _ => .int
  | .bool _ => .bool
  | .fxp _ _ => .fxp

/-- the types an initial value is created with: `PrivVal(v)` a `LinComb`, `PrivVal(v) == 1` a
`LinCombBool`, `PrivValFxp(q)` a `LinCombFxp` -/
def IVal.kinds (v : IVal) : KTree := v.map (fun a => some a.kind)

/-- the types the initial bindings give to `x` (`ctx.x = …` in order: the last binding counts) -/
def initKinds : List (Nat × IVal) → Nat → Option KTree → Option KTree
  | [], _, acc => acc
  | (y, v) :: rest, x, acc => initKinds rest x (if y = x then some v.kinds else acc)

/-- every scalar of a value is coherent with its wire expression -/
def CohT (s : St) (t : TVal) : Prop := t.AllP (SVal.lcP (Coh s))

/-- every boolean of a value holds 0 or 1 -/
def BoolT (t : TVal) : Prop := t.bok = true

end Pysnark
