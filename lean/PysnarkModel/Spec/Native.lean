import PysnarkModel.Model.Branching
/-!
# Reference semantics for C09: the same structured program with native Python control flow

Plain Python on plain integers: `if/elif/else`, `for lv in range(bound)`,
`k = 0; while c and k < mx: body; k += 1; if brk: break`, `x = t if c else f`.
A run ends with the final variables, or stops with `name` (a variable read before it was bound: Python's
`NameError`/`KeyError`) or with `uncapped`: a `for` loop was reached whose bound is outside `0 … max`,
the precondition under which the library's `_range(bound, max=…)` stands for `range(bound)`.
-/
namespace Pysnark

/-- native variables -/
abbrev NEnv := List (Nat × Int)

namespace NEnv
def get? : NEnv → Nat → Option Int
  | [], _ => none
  | (y, v) :: t, x => if y = x then some v else get? t x

def set : NEnv → Nat → Int → NEnv
  | [], x, v => [(x, v)]
  | (y, w) :: t, x, v => if y = x then (y, v) :: t else (y, w) :: set t x v
end NEnv

/-- what the native program reads besides its variables -/
structure NCtx where
  inputs : List Int
  lvs : List (Nat × Int) := []

/-- how a native run can stop early -/
inductive NErr
  /-- `NameError`/`KeyError`/`IndexError`: a variable, input or loop variable read before it exists -/
  | name
  /-- a `for` loop was reached whose bound is outside `0 … max`: outside the domain of the property
  ("a secret bound capped by a public maximum") -/
  | uncapped
deriving DecidableEq, Repr

abbrev NM := Except NErr

def nGet (o : Option Int) : NM Int :=
  match o with
  | some v => .ok v
  | none => .error .name

def nEvalE (ctx : NCtx) (env : NEnv) : BExpr → NM Int
  | .var x => nGet (env.get? x)
  | .inp i => nGet ctx.inputs[i]?
  | .const c => .ok c
  | .loopvar v => nGet (lookupLv ctx.lvs v)
  | .add a b => do let x ← nEvalE ctx env a; let y ← nEvalE ctx env b; pure (x + y)
  | .sub a b => do let x ← nEvalE ctx env a; let y ← nEvalE ctx env b; pure (x - y)
  | .mul a b => do let x ← nEvalE ctx env a; let y ← nEvalE ctx env b; pure (x * y)

def cmpB : Cmp → Int → Int → Bool
  | .lt, a, b => a < b
  | .le, a, b => a ≤ b
  | .eq, a, b => a = b
  | .ne, a, b => a ≠ b
  | .gt, a, b => a > b
  | .ge, a, b => a ≥ b

def nEvalC (ctx : NCtx) (env : NEnv) (c : BCond) : NM Bool := do
  let x ← nEvalE ctx env c.lhs
  let y ← nEvalE ctx env c.rhs
  pure (cmpB c.op x y)

/-- `for i in range(start, start + n): e = f(i, e)` -/
def nIter : Nat → (Nat → NEnv → NM NEnv) → Nat → NEnv → NM NEnv
  | 0, _, _, e => .ok e
  | n+1, f, i, e => do
    let e ← f i e
    nIter n f (i+1) e

/-- `while cond and k < mx: body; k += 1; if brk: break` with `fuel = mx - k` rounds left -/
def nWhile (cond : NEnv → NM Bool) (body : NEnv → NM NEnv) (brk : NEnv → NM Bool) :
    Nat → NEnv → NM NEnv
  | 0, e => do let _ ← cond e; pure e          -- the test is evaluated once more, then `k < mx` fails
  | fuel+1, e => do
    let c ← cond e
    if c then do
      let e ← body e
      let b ← brk e
      if b then pure e else nWhile cond body brk fuel e
    else pure e

/-- `if brk: break` (no break condition: never) -/
def nBrk (ctx : NCtx) (brk : Option BCond) (e : NEnv) : NM Bool :=
  match brk with
  | none => .ok false
  | some b => nEvalC ctx e b

mutual
def nStmt (ctx : NCtx) : BStmt → NEnv → NM NEnv
  | .assign x e, env => do
    let v ← nEvalE ctx env e
    pure (env.set x v)
  | .ite x c t f, env => do
    let b ← nEvalC ctx env c
    let v ← if b then nEvalE ctx env t else nEvalE ctx env f
    pure (env.set x v)
  | .ifs c body rest, env => do
    let b ← nEvalC ctx env c
    if b then nBlock ctx body env else nIfRest ctx rest env
  | .forr lv bound mx body, env => do
    let b ← nEvalE ctx env bound
    if 0 ≤ b ∧ b ≤ mx then
      nIter b.toNat (fun i e => nBlock { ctx with lvs := (lv, (i : Int)) :: ctx.lvs } body e) 0 env
    else .error .uncapped
  | .whil c mx body brk, env =>
    nWhile (fun e => nEvalC ctx e c) (fun e => nBlock ctx body e) (nBrk ctx brk) mx env

def nBlock (ctx : NCtx) : BBlock → NEnv → NM NEnv
  | .nil, env => .ok env
  | .cons s rest, env => do
    let env ← nStmt ctx s env
    nBlock ctx rest env

def nIfRest (ctx : NCtx) : BIfRest → NEnv → NM NEnv
  | .endif, env => .ok env
  | .els b, env => nBlock ctx b env
  | .elif c b rest, env => do
    let t ← nEvalC ctx env c
    if t then nBlock ctx b env else nIfRest ctx rest env
end

/-- the native twin of `runBlock` -/
def nativeRun (init : List (Nat × Int)) (inputs : List Int) (prog : BBlock) : NM NEnv :=
  nBlock { inputs := inputs } prog (init.foldl (fun e kv => e.set kv.1 kv.2) [])

end Pysnark
