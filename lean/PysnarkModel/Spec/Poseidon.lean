import PysnarkModel.Gen.Poseidon
/-!
# Plain Poseidon permutation and sponge over `Nat` modulo `p`

Written from the algorithm description, not from `poseidon_hash.py`:

* state of `t` field elements; `R_F` full rounds and `R_P` partial rounds, ordered
  `R_F/2` full, `R_P` partial, `R_F/2` full; round `r` (counted over all rounds) uses row `r` of
  the round-constant table;
* a round: add the round constants, apply the S-box `x ↦ x^a` (to every element in a full round,
  to element 0 only in a partial round), multiply the state by the MDS matrix;
* sponge with rate `t-1` and capacity 1: the capacity element is index 0, a block is added into
  the indices `1..t-1`, the state is permuted after every block, the output is `state[1:]`;
* padding: append `1`, then zeros up to the next multiple of the rate (always at least one element
  is appended).

Core Lean only; structural recursion and `List` combinators only, so the kernel can evaluate it.
-/
namespace Pysnark.Spec.Poseidon
open Pysnark.Gen

/-- `x^n mod p` by repeated multiplication -/
def powMod (p x : Nat) : Nat → Nat
  | 0 => 1 % p
  | n + 1 => powMod p x n * x % p

/-- add the round constants -/
def addConsts (p : Nat) (st rc : List Nat) : List Nat :=
  List.zipWith (fun x c => (x + c) % p) st rc

/-- S-box on every element -/
def sboxFull (p a : Nat) (st : List Nat) : List Nat := st.map (fun x => powMod p x a)

/-- S-box on element 0 only -/
def sboxPartial (p a : Nat) : List Nat → List Nat
  | [] => []
  | x :: xs => powMod p x a :: xs

/-- inner product of a matrix row with the state -/
def dot (p : Nat) (row st : List Nat) : Nat :=
  (List.zipWith (fun c x => c * x) row st).foldr (fun y acc => (y + acc) % p) 0

/-- multiply by the MDS matrix -/
def mds (p : Nat) (m : List (List Nat)) (st : List Nat) : List Nat := m.map (fun row => dot p row st)

def fullRound (P : PoseidonParams) (p : Nat) (st : List Nat) (r : Nat) : List Nat :=
  mds p P.matrix (sboxFull p P.a (addConsts p st (P.roundConstants.getD r [])))

def partialRound (P : PoseidonParams) (p : Nat) (st : List Nat) (r : Nat) : List Nat :=
  mds p P.matrix (sboxPartial p P.a (addConsts p st (P.roundConstants.getD r [])))

/-- the Poseidon permutation -/
def permute (P : PoseidonParams) (p : Nat) (st : List Nat) : List Nat :=
  let h := P.rF / 2
  let st := (List.range h).foldl (fullRound P p) st
  let st := (List.range P.rP).foldl (fun st i => partialRound P p st (h + i)) st
  (List.range h).foldl (fun st i => fullRound P p st (h + P.rP + i)) st

/-- padding: append `1`, then zeros up to a multiple of `rate`; at least one element appended -/
def pad (rate : Nat) (xs : List Nat) : List Nat :=
  xs ++ 1 :: List.replicate (rate - 1 - xs.length % rate) 0

/-- add a block into the rate part (indices `1..`) of the state -/
def absorb (p : Nat) : List Nat → List Nat → List Nat
  | [], _ => []
  | c :: rest, block => c :: List.zipWith (fun x b => (x + b) % p) rest block

/-- absorb `n` blocks of `rate` elements, permuting after each -/
def absorbAll (P : PoseidonParams) (p rate : Nat) : Nat → List Nat → List Nat → List Nat
  | 0, st, _ => st
  | n + 1, st, xs => absorbAll P p rate n (permute P p (absorb p st (xs.take rate))) (xs.drop rate)

/-- the sponge hash: rate `t-1`, capacity element at index 0, output = the rate part -/
def hash (P : PoseidonParams) (p : Nat) (xs : List Nat) : List Nat :=
  let rate := P.t - 1
  let padded := pad rate (xs.map (· % p))
  (absorbAll P p rate (padded.length / rate) (List.replicate P.t 0) padded).drop 1

end Pysnark.Spec.Poseidon
