import PysnarkModel.Spec.SoundProg
/-!
# Plain-Python reference interpreter of the instruction language (C05, program level)

Core Lean only, executable (`decide +kernel` runs it).

`pyRun bl prog` interprets the instruction list of `Model/Prog.lean` on PLAIN Python values: the
constructors `PrivVal`, `PubVal`, `ConstVal`, `PrivValBool`, `PubValBool`, `LinCombBool(..)` are
the identity on integers (booleans are the integers 0/1, tagged `bool` so that `~b` can be read as
the documented logical NOT and the tag follows the library's typing: comparisons and `&,|,^` with a
boolean operand are boolean, every other arithmetic result is an integer).  The integer semantics
are those of `Model/PyInt.lean`: `Int.fdiv`/`Int.fmod` for `//`, `%`; `x * 2^n` and `Int.shiftRight`
for `<<`, `>>`; two's-complement `&`, `|`, `^` (`Py.land/lor/lxor`); `x ^ n`; comparisons as 0/1;
`natAbs`; selection; bit lists for `to_bits`/`from_bits`; `val()` is the identity; lists, tuples and
arrays with Python list semantics (negative indices count from the end).

`Except`: `.error .raises` where plain Python (or the documented contract of a library function on
plain values) raises: zero divisor, inexact `/`, negative shift count, negative exponent (Python
returns a float or raises: no integer result), index out of range, `PrivValBool(v)` with
`v ∉ {0,1}`, `if_then_else` with an integer condition outside {0,1}, `to_bits` of a value that does
not fit the width.  `.error .outside`: the instruction is not in the reference language
(fixed point is C14's subject, guarded regions, `set ign`, operands that are not numbers).
The assertion methods return `None` and never raise here (they are C03's subject).
-/
namespace Pysnark

/-- plain Python values; `bool v` is a Python-level boolean written as the integer 0/1 -/
inductive PyVal
  | none
  | int (v : Int)
  | bool (v : Int)
  | list (xs : List PyVal)
  | tuple (xs : List PyVal)
deriving Repr

mutual
/-- structural equality (executable by the kernel) -/
def PyVal.eqb : PyVal → PyVal → Bool
  | .none, .none => true
  | .int a, .int b => a == b
  | .bool a, .bool b => a == b
  | .list xs, .list ys => PyVal.eqbL xs ys
  | .tuple xs, .tuple ys => PyVal.eqbL xs ys
  | _, _ => false
def PyVal.eqbL : List PyVal → List PyVal → Bool
  | [], [] => true
  | x :: xs, y :: ys => PyVal.eqb x y && PyVal.eqbL xs ys
  | _, _ => false
end

inductive PyStop
  /-- plain Python raises here -/
  | raises
  /-- outside the reference language -/
  | outside
deriving Repr, DecidableEq

abbrev PyM (α : Type) := Except PyStop α

def PyVal.num? : PyVal → Option Int
  | .int v => some v
  | .bool v => some v
  | _ => Option.none

def PyVal.isBool : PyVal → Bool
  | .bool _ => true
  | _ => false

/-- comparisons as 0/1 -/
def pyCmp : Cmp → Int → Int → Int
  | .lt, a, b => if a < b then 1 else 0
  | .le, a, b => if a ≤ b then 1 else 0
  | .eq, a, b => if a = b then 1 else 0
  | .ne, a, b => if a ≠ b then 1 else 0
  | .gt, a, b => if a > b then 1 else 0
  | .ge, a, b => if a ≥ b then 1 else 0

def pyTag (b : Bool) (v : Int) : PyVal := if b then .bool v else .int v

/-- `x op y` on two Python integers; `tb`: one operand is a boolean (the library's boolean type
absorbs in `&`, `|`, `^`) -/
def pyBinInt (op : BinOp) (tb : Bool) (x y : Int) : PyM PyVal :=
  match op with
  | .add => .ok (.int (x + y))
  | .sub => .ok (.int (x - y))
  | .mul => .ok (.int (x * y))
  | .truediv =>
    if y = 0 then .error .raises
    else if Int.fmod x y ≠ 0 then .error .raises
    else .ok (.int (Int.fdiv x y))
  | .floordiv => if y = 0 then .error .raises else .ok (.int (Int.fdiv x y))
  | .mod => if y = 0 then .error .raises else .ok (.int (Int.fmod x y))
  | .divmod =>
    if y = 0 then .error .raises else .ok (.tuple [.int (Int.fdiv x y), .int (Int.fmod x y)])
  | .pow => if y < 0 then .error .raises else .ok (.int (x ^ y.toNat))
  | .lshift => if y < 0 then .error .raises else .ok (.int (x * 2 ^ y.toNat))
  | .rshift => if y < 0 then .error .raises else .ok (.int (x >>> y.toNat))
  | .band => .ok (pyTag tb (Py.land x y))
  | .bxor => .ok (pyTag tb (Py.lxor x y))
  | .bor => .ok (pyTag tb (Py.lor x y))
  | .lt => .ok (.bool (pyCmp .lt x y))
  | .le => .ok (.bool (pyCmp .le x y))
  | .eq => .ok (.bool (pyCmp .eq x y))
  | .ne => .ok (.bool (pyCmp .ne x y))
  | .gt => .ok (.bool (pyCmp .gt x y))
  | .ge => .ok (.bool (pyCmp .ge x y))

def pyBin (op : BinOp) (a b : PyVal) : PyM PyVal :=
  match a.num?, b.num? with
  | some x, some y => pyBinInt op (a.isBool || b.isBool) x y
  | _, _ => .error .outside

/-- unary operators; `~` on a boolean is the documented logical NOT -/
def pyUn (op : Un) (a : PyVal) : PyM PyVal :=
  match op, a with
  | .neg, .int x => .ok (.int (-x))
  | .neg, .bool x => .ok (.int (-x))
  | .pos, .int x => .ok (.int x)
  | .pos, .bool x => .ok (.bool x)
  | .abs, .int x => .ok (.int (x.natAbs : Int))
  | .abs, .bool x => .ok (.int (x.natAbs : Int))
  | .invert, .int x => .ok (.int (-x - 1))
  | .invert, .bool x => .ok (.bool (1 - x))
  | _, _ => .error .outside

/-- the constructors are the identity on integers; the boolean ones accept 0/1 only -/
def pyMk (k : Kind) (v : PyVal) : PyM PyVal :=
  match k, v with
  | .priv, .int c => .ok (.int c)
  | .pub, .int c => .ok (.int c)
  | .const, .int c => .ok (.int c)
  | .privb, .int c => if c = 0 ∨ c = 1 then .ok (.bool c) else .error .raises
  | .pubb, .int c => if c = 0 ∨ c = 1 then .ok (.bool c) else .error .raises
  | .privx, _ => .error .outside
  | .pubx, _ => .error .outside
  | _, _ => .error .raises

/-- `LinCombBool(x)` on a plain value -/
def pyWrapb (v : PyVal) : PyM PyVal :=
  match v.num? with
  | some c => if c = 0 ∨ c = 1 then .ok (.bool c) else .error .raises
  | Option.none => .error .outside

def pyNums : List PyVal → Option (List Int)
  | [] => some []
  | v :: vs =>
    match v.num?, pyNums vs with
    | some x, some xs => some (x :: xs)
    | _, _ => Option.none

/-- `sum(b_i << (i + k))` -/
def pyBitsVal : List Int → Nat → Int
  | [], _ => 0
  | b :: bs, k => b * 2 ^ k + pyBitsVal bs (k + 1)

/-- the width argument of `to_bits(n)` / `check_positive(n)`: absent or `None` = the bit length -/
def pyWidth (bl : Nat) : List PyVal → Option Nat
  | [] => some bl
  | [.none] => some bl
  | [.int n] => if 0 ≤ n then some n.toNat else Option.none
  | _ => Option.none

def pyCall (bl : Nat) (m : Meth) (self : PyVal) (args : List PyVal) : PyM PyVal :=
  match m with
  | .val =>
    match self.num? with
    | some x => .ok (.int x)
    | Option.none => .error .outside
  | .toBits =>
    match self.num?, pyWidth bl args with
    | some x, some n =>
      if 0 ≤ x ∧ x < 2 ^ n then .ok (.list ((Py.bitsOf x n).map PyVal.bool)) else .error .raises
    | _, _ => .error .outside
  | .checkPositive =>
    match self.num? with
    | some x => .ok (.bool (if x ≥ 0 then 1 else 0))
    | Option.none => .error .outside
  | .checkZero =>
    match self.num? with
    | some x => .ok (.bool (if x = 0 then 1 else 0))
    | Option.none => .error .outside
  | .checkNonzero =>
    match self.num? with
    | some x => .ok (.bool (if x = 0 then 0 else 1))
    | Option.none => .error .outside
  | .ifElse =>
    -- `elseval + self * (ifval - elseval)` (runtime.py l.712), on plain integers
    match self.num?, args with
    | some c, [t, f] =>
      match t.num?, f.num? with
      | some x, some y => .ok (.int (y + c * (x - y)))
      | _, _ => .error .outside
    | _, _ => .error .outside
  | .fromBits =>
    match self with
    | .list xs =>
      match pyNums xs with
      | some bs => .ok (.int (pyBitsVal bs 0))
      | Option.none => .error .outside
    | _ => .error .outside
  | _ => .ok .none        -- the assertion methods: `None`

/-- `truev is falsev` on two separately created plain values can only hold for equal ints / `None` -/
def pySameObj : PyVal → PyVal → Bool
  | .int a, .int b => a == b
  | .none, .none => true
  | _, _ => false

/-- `if_then_else(cond, truev, falsev)`; `same` = the two branches are the same register.  With a
secret (boolean) condition the result is the pick: a boolean when both branches are booleans (a
selection between two booleans is a boolean), else an integer-typed secret (retagged `int`).
Scalar branches; selection between lists under a secret condition is outside: see `PyExcl`. -/
def pyIte (same : Bool) (c t f : PyVal) : PyM PyVal :=
  if same || pySameObj t f then .ok t else
  match c with
  | .int c => if c = 0 then .ok f else if c = 1 then .ok t else .error .raises
  | .bool c =>
    match t.num?, f.num? with
    | some x, some y => .ok (pyTag (t.isBool && f.isBool) (if c = 0 then y else x))
    | _, _ => .error .outside
  | _ => .error .outside

mutual
/-- a plain literal (no secrets, no floats) -/
def pyLit : Val → Option PyVal
  | .none => some .none
  | .int c => some (.int c)
  | .list xs => (pyLitL xs).map PyVal.list
  | .tuple xs => (pyLitL xs).map PyVal.tuple
  | _ => Option.none
def pyLitL : List Val → Option (List PyVal)
  | [] => some []
  | x :: xs =>
    match pyLit x, pyLitL xs with
    | some y, some ys => some (y :: ys)
    | _, _ => Option.none
end

def pyGet (regs : List PyVal) (i : Nat) : PyM PyVal :=
  match regs[i]? with
  | some v => .ok v
  | Option.none => .error .outside

def pyGets (regs : List PyVal) : List Nat → PyM (List PyVal)
  | [] => .ok []
  | i :: is =>
    match pyGet regs i, pyGets regs is with
    | .ok v, .ok vs => .ok (v :: vs)
    | .error e, _ => .error e
    | _, .error e => .error e

/-- Python indexing of a sequence -/
def pySeqIdx (xs : List PyVal) (i : Int) : PyM PyVal :=
  match pyIndex xs.length i with
  | some k =>
    match xs[k]? with
    | some x => .ok x
    | Option.none => .error .raises
  | Option.none => .error .raises

/-- one instruction on plain values: the new register, the register file, the bit length -/
def pyStep (bl : Nat) (regs : List PyVal) (i : Instr) : PyM (PyVal × List PyVal × Nat) :=
  match i with
  | .lit v =>
    match pyLit v with
    | some w => .ok (w, regs, bl)
    | Option.none => .error .outside
  | .mk k a =>
    match pyGet regs a with
    | .ok v => match pyMk k v with | .ok r => .ok (r, regs, bl) | .error e => .error e
    | .error e => .error e
  | .wrapb a =>
    match pyGet regs a with
    | .ok v => match pyWrapb v with | .ok r => .ok (r, regs, bl) | .error e => .error e
    | .error e => .error e
  | .wrapx _ => .error .outside
  | .bin op a b =>
    match pyGet regs a, pyGet regs b with
    | .ok x, .ok y => match pyBin op x y with | .ok r => .ok (r, regs, bl) | .error e => .error e
    | .error e, _ => .error e
    | _, .error e => .error e
  | .un op a =>
    match pyGet regs a with
    | .ok x => match pyUn op x with | .ok r => .ok (r, regs, bl) | .error e => .error e
    | .error e => .error e
  | .call m self args =>
    match pyGet regs self, pyGets regs args with
    | .ok x, .ok as => match pyCall bl m x as with | .ok r => .ok (r, regs, bl) | .error e => .error e
    | .error e, _ => .error e
    | _, .error e => .error e
  | .ite c t f =>
    match pyGet regs c, pyGet regs t, pyGet regs f with
    | .ok cv, .ok tv, .ok fv =>
      match pyIte (t == f) cv tv fv with | .ok r => .ok (r, regs, bl) | .error e => .error e
    | .error e, _, _ => .error e
    | _, .error e, _ => .error e
    | _, _, .error e => .error e
  | .list xs =>
    match pyGets regs xs with
    | .ok vs => .ok (.list vs, regs, bl)
    | .error e => .error e
  | .arr xs =>
    match pyGets regs xs with
    | .ok vs => .ok (.list vs, regs, bl)
    | .error e => .error e
  | .idx a i =>
    match pyGet regs a with
    | .ok (.list xs) => match pySeqIdx xs i with | .ok r => .ok (r, regs, bl) | .error e => .error e
    | .ok (.tuple xs) => match pySeqIdx xs i with | .ok r => .ok (r, regs, bl) | .error e => .error e
    | .ok _ => .error .outside
    | .error e => .error e
  | .aget a i =>
    match pyGet regs a, pyGet regs i with
    | .ok (.list xs), .ok iv =>
      match iv.num? with
      | some k => match pySeqIdx xs k with | .ok r => .ok (r, regs, bl) | .error e => .error e
      | Option.none => .error .outside
    | .ok _, .ok _ => .error .outside
    | .error e, _ => .error e
    | _, .error e => .error e
  | .aset a i v =>
    match pyGet regs a, pyGet regs i, pyGet regs v with
    | .ok (.list xs), .ok iv, .ok vv =>
      match iv.num? with
      | some k =>
        match pyIndex xs.length k with
        | some j => .ok (.none, regs.set a (.list (xs.set j vv)), bl)
        | Option.none => .error .raises
      | Option.none => .error .outside
    | .ok _, .ok _, .ok _ => .error .outside
    | .error e, _, _ => .error e
    | _, .error e, _ => .error e
    | _, _, .error e => .error e
  | .genter _ => .error .outside
  | .gleave => .error .outside
  | .setBl n => .ok (.none, regs, n)
  | .setRes _ => .ok (.none, regs, bl)
  | .setIgn _ => .error .outside

/-- the reference run: registers and bit length at the end, or the stop reason with the index of
the instruction -/
def pyRunAux : List Instr → Nat → Nat → List PyVal → Except (PyStop × Nat) (List PyVal × Nat)
  | [], _, bl, regs => .ok (regs, bl)
  | i :: is, k, bl, regs =>
    match pyStep bl regs i with
    | .ok (v, regs', bl') => pyRunAux is (k + 1) bl' (regs' ++ [v])
    | .error e => .error (e, k)

/-- **the reference run** of `prog` with initial bit length `bl`: the registers -/
def pyRun (bl : Nat) (prog : List Instr) : Except (PyStop × Nat) (List PyVal) :=
  match pyRunAux prog 0 bl [] with
  | .ok (regs, _) => .ok regs
  | .error e => .error e

/-! ## the relation between a traced value and a plain value -/

mutual
/-- same shape; a plain int is itself; a secret integer is its `.value`; a secret boolean is its
`.value`, which is 0 or 1, tagged `bool` -/
def valRef : Val → PyVal → Bool
  | .none, .none => true
  | .int c, .int v => c == v
  | .lc x, .int v => x.value == v
  | .lcb x, .bool v => x.value == v && (v == 0 || v == 1)
  | .list xs, .list ys => valRefL xs ys
  | .tuple xs, .tuple ys => valRefL xs ys
  | _, _ => false
def valRefL : List Val → List PyVal → Bool
  | [], [] => true
  | x :: xs, y :: ys => valRef x y && valRefL xs ys
  | _, _ => false
end

def ValRef (v : Val) (w : PyVal) : Prop := valRef v w = true
def ValRefL (vs : List Val) (ws : List PyVal) : Prop := valRefL vs ws = true

instance (v : Val) (w : PyVal) : Decidable (ValRef v w) := inferInstanceAs (Decidable (_ = true))
instance (vs : List Val) (ws : List PyVal) : Decidable (ValRefL vs ws) :=
  inferInstanceAs (Decidable (_ = true))

/-! ## the fragment of `C05_program` -/

/-- why an instruction (with the operand kinds and values it meets at run time) is outside the
fragment in which the traced value equals the plain-Python value -/
inductive PyExcl
  /-- fixed-point values and float literals: C14's subject -/
  | fixedPoint
  /-- a literal that contains a `LinComb`: not a value the API can produce -/
  | secretLiteral
  /-- `guarded` regions: code under a false guard is inert (its values are dummies, C07), not
  "computing Python's value"; regions are left out altogether -/
  | guardRegion
  /-- `set ign`: the property is about runs in which error checking is on -/
  | ignoreErrors
  /-- RECORDED DEVIATION C05-invert: `~x` on a secret integer is `2^bitlength - 1 - x` -/
  | invertSecretInt
  /-- RECORDED DEVIATION C05-bool-pow: `LinCombBool ** e` ignores the exponent -/
  | boolPow
  /-- RECORDED DEVIATION C05-bool-bitwise-const: `LinCombBool &,|,^` with a plain operand other
  than the ints 0/1 uses its truth value -/
  | boolBitwiseConst
  /-- RECORDED DEVIATION C05-secret-exponent-mod-p: `x ** e`, `x << e`, `x >> e` with a secret `e`
  compute the power reduced modulo the field prime; excluded exactly when the Python power
  (`x ^ e`, for the shifts `2 ^ e`) is not in `[0, p)` -/
  | secretExponentWraps
  /-- selection between lists / tuples under a SECRET condition: the library merges the branches
  element-wise (and refuses, `ValueError`, two lists of different lengths: no element-wise merge
  exists), the plain pick returns one of the two objects; not composed -/
  | selectLists
  /-- array access through a SECRET index is composed for arrays of plain / secret integers (the
  value lemmas of C15); boolean or nested elements are left out -/
  | secretIndexElems
deriving DecidableEq, Repr

/-- the other operand of `LinCombBool &,|,^`: a secret, or the int 0 / 1 -/
def boolOther : Val → Bool
  | .lc _ => true
  | .lcb _ => true
  | .int c => c == 0 || c == 1
  | _ => false

/-- the Python power `x ^ e` is not a canonical field element, i.e. not in `[0, p)`: the traced
result (reduced mod `p`) differs from it.  The first test only avoids evaluating astronomically
large powers (`|x| ≥ 2` and `e > log2 |p| + 1` give `|x ^ e| ≥ 2^e > |p|`, outside `[0, p)` whatever
the sign); `powWraps_eq` (Lemmas/PyRunOps2.lean) shows that it does not change the value. -/
def powWraps (p x e : Int) : Bool :=
  if 2 ≤ x.natAbs ∧ p.natAbs.log2 + 1 < e.toNat then true
  else !(decide (0 ≤ x ^ e.toNat) && decide (x ^ e.toNat < p))

def Val.isSeq : Val → Bool
  | .list _ => true
  | .tuple _ => true
  | _ => false

/-- a plain or secret integer -/
def Val.isIntLike : Val → Bool
  | .int _ => true
  | .lc _ => true
  | _ => false

def pyExclBin (p : Int) (op : BinOp) (a b : Val) : Option PyExcl :=
  match op with
  | .pow =>
    match a, b with
    | .lcb _, _ => some .boolPow
    | .lc x, .lc e => if powWraps p x.value e.value then some .secretExponentWraps else Option.none
    | .int c, .lc e => if powWraps p c e.value then some .secretExponentWraps else Option.none
    | _, _ => Option.none
  | .lshift =>
    match b with
    | .lc e => if powWraps p 2 e.value then some .secretExponentWraps else Option.none
    | _ => Option.none
  | .rshift =>
    match b with
    | .lc e => if powWraps p 2 e.value then some .secretExponentWraps else Option.none
    | _ => Option.none
  | .band | .bxor | .bor =>
    match a, b with
    | .lcb _, o => if boolOther o then Option.none else some .boolBitwiseConst
    | o, .lcb _ => if boolOther o then Option.none else some .boolBitwiseConst
    | _, _ => Option.none
  | _ => Option.none

/-- **the exclusion table** of `C05_program`: `none` = in the fragment -/
def Instr.pyExcl (s : St) (regs : List Val) : Instr → Option PyExcl
  | .lit v => if (pyLit v).isSome then Option.none else if v.plain then some .fixedPoint else some .secretLiteral
  | .mk .privx _ => some .fixedPoint
  | .mk .pubx _ => some .fixedPoint
  | .wrapx _ => some .fixedPoint
  | .bin op a b =>
    match regs[a]?, regs[b]? with
    | some x, some y => pyExclBin s.p op x y
    | _, _ => Option.none
  | .un .invert a =>
    match regs[a]? with
    | some (.lc _) => some .invertSecretInt
    | _ => Option.none
  | .ite c t f =>
    match regs[c]?, regs[t]?, regs[f]? with
    | some (.lcb _), some tv, some fv =>
      if !(t == f) && (tv.isSeq || fv.isSeq) then some .selectLists else Option.none
    | _, _, _ => Option.none
  | .aget a i =>
    match regs[a]?, regs[i]? with
    | some (.list xs), some (.lc _) => if xs.all Val.isIntLike then Option.none else some .secretIndexElems
    | _, _ => Option.none
  | .aset a i v =>
    match regs[a]?, regs[i]?, regs[v]? with
    | some (.list xs), some (.lc _), some vv =>
      if xs.all Val.isIntLike && vv.isIntLike then Option.none else some .secretIndexElems
    | _, _, _ => Option.none
  | .genter _ => some .guardRegion
  | .gleave => some .guardRegion
  | .setIgn _ => some .ignoreErrors
  | _ => Option.none

/-- replay of `runAux`: no executed instruction (including the one that raises, if any) is excluded -/
def pyFragAux : List Instr → List Val → List GuardBak → St → Bool
  | [], _, _, _ => true
  | i :: is, regs, frames, s =>
    (i.pyExcl s regs).isNone &&
    match step regs frames i s with
    | .ok ((v, regs', frames'), s') => pyFragAux is (regs' ++ [v]) frames' s'
    | .error _ => true

/-- **the fragment of `C05_program`**: decidable; see `Instr.pyExcl` and `PyExcl` -/
def PyFragment (s0 : St) (prog : List Instr) : Prop := pyFragAux prog [] [] s0 = true

instance (s0 : St) (prog : List Instr) : Decidable (PyFragment s0 prog) :=
  inferInstanceAs (Decidable (_ = true))

/-- diagnostic twin: index and reason of the first excluded instruction -/
def pyFirstExcl : List Instr → Nat → List Val → List GuardBak → St → Option (Nat × PyExcl)
  | [], _, _, _, _ => Option.none
  | i :: is, k, regs, frames, s =>
    match i.pyExcl s regs with
    | some e => some (k, e)
    | Option.none =>
      match step regs frames i s with
      | .ok ((v, regs', frames'), s') => pyFirstExcl is (k+1) (regs' ++ [v]) frames' s'
      | .error _ => Option.none

/-! ## `C05_program_total`: operand kinds the API supports, and the documented domain -/

/-- scalar kinds: plain int, secret integer, secret boolean -/
def Val.isSc : Val → Bool
  | .int _ => true
  | .lc _ => true
  | .lcb _ => true
  | _ => false

def Val.isLcb : Val → Bool
  | .lcb _ => true
  | _ => false

/-- a secret integer or secret boolean -/
def Val.isSecretSc : Val → Bool
  | .lc _ => true
  | .lcb _ => true
  | _ => false

/-- why an instruction (with the operand KINDS it meets) is outside the coverage of
`C05_program_total`.  One reason is left: a secret exponent / shift count, array access through a
secret index and the assertion methods are covered (their side conditions are in `InDomain`). -/
inductive PyGap
  /-- the API raises by type dispatch alone on these operand kinds (TypeError / RuntimeError /
  AttributeError), or the instruction is not an operation on secret values (both operands plain
  ints; the model reports it as not covered) -/
  | kinds
deriving DecidableEq, Repr

def pyGapBin (op : BinOp) (a b : Val) : Option PyGap :=
  match op with
  | .add | .sub | .mul => if a.isSc && b.isSc then Option.none else some .kinds
  | .truediv | .floordiv | .mod | .divmod =>
    match a, b with
    | .lc _, .int _ => Option.none
    | .lc _, .lc _ => Option.none
    | .int _, .lc _ => Option.none
    | _, _ => some .kinds
  | .pow | .lshift | .rshift =>
    match a, b with
    | .lc _, .int _ => Option.none
    | .lc _, .lc _ => Option.none
    | .int _, .lc _ => Option.none
    | _, _ => some .kinds
  | .band | .bxor | .bor =>
    match a, b with
    | .lc _, .int _ => Option.none
    | .int _, .lc _ => Option.none
    | .lc _, .lc _ => Option.none
    | .lcb _, .lcb _ => Option.none
    | .lcb _, .int _ => Option.none
    | .lcb _, .lc _ => Option.none
    | .lc _, .lcb _ => if op == .band then Option.none else some .kinds
    | .int _, .lcb _ => if op == .band then Option.none else some .kinds
    | _, _ => some .kinds
  | .lt | .le | .eq | .ne | .gt | .ge =>
    if a.isSc && b.isSc && !(a.isInt && b.isInt) then Option.none else some .kinds

def pyGapUn (op : Un) (a : Val) : Option PyGap :=
  match op, a with
  | .neg, .int _ => Option.none
  | .neg, .lc _ => Option.none
  | .neg, .lcb _ => Option.none
  | .pos, .lc _ => Option.none
  | .pos, .lcb _ => Option.none
  | .abs, .lc _ => Option.none
  | .abs, .lcb _ => Option.none
  | .invert, .lcb _ => Option.none
  | _, _ => some .kinds

/-- the width argument is absent, `None`, or a plain int -/
def pyWidthArgs : List Val → Bool
  | [] => true
  | [.none] => true
  | [.int _] => true
  | _ => false

def pyGapCall (m : Meth) (self : Val) (args : List Val) : Option PyGap :=
  match m with
  | .val => if self.isSecretSc then Option.none else some .kinds
  | .toBits =>
    match self with
    | .lc _ => if pyWidthArgs args then Option.none else some .kinds
    | _ => some .kinds
  | .checkPositive =>
    match self with
    | .lc _ => if pyWidthArgs args then Option.none else some .kinds
    | .lcb _ => if args.isEmpty then Option.none else some .kinds
    | _ => some .kinds
  | .checkZero => if self.isSecretSc then Option.none else some .kinds
  | .checkNonzero =>
    match self with
    | .lc _ => Option.none
    | _ => some .kinds
  | .ifElse =>
    match args with
    | [t, f] => if self.isSecretSc && t.isSc && f.isSc then Option.none else some .kinds
    | _ => some .kinds
  | .fromBits =>
    match self with
    | .list xs => if xs.all Val.isSecretSc then Option.none else some .kinds
    | _ => some .kinds
  | .assertPositive =>
    match self with
    | .lc _ => if pyWidthArgs args then Option.none else some .kinds
    | .lcb _ => if args.isEmpty then Option.none else some .kinds
    | _ => some .kinds
  | .assertZero | .assertNonzero => if self.isSecretSc then Option.none else some .kinds
  | .assertLt | .assertLe | .assertEq | .assertNe | .assertGt | .assertGe =>
    -- `LinComb.assert_*(o)`: `o` a plain or secret integer (`_ensurelc`);
    -- `LinCombBool.assert_*(o)`: `o` any scalar (`_ensurebool`; its value must be 0/1: `InDomain`)
    match self, args with
    | .lc _, [o] => if o.isIntLike then Option.none else some .kinds
    | .lcb _, [o] => if o.isSc then Option.none else some .kinds
    | _, _ => some .kinds
  | .assertRange =>
    match self, args with
    | .lc _, [lo, hi] => if lo.isIntLike && hi.isIntLike then Option.none else some .kinds
    | _, _ => some .kinds

/-- the registers `is` of the register file -/
def pyArgs (regs : List Val) : List Nat → Option (List Val)
  | [] => some []
  | i :: is =>
    match regs[i]?, pyArgs regs is with
    | some v, some vs => some (v :: vs)
    | _, _ => Option.none

/-- **the coverage table** of `C05_program_total`: `none` = covered -/
def Instr.pyGap (regs : List Val) : Instr → Option PyGap
  | .lit _ => Option.none
  | .mk _ a =>
    match regs[a]? with
    | some (.int _) => Option.none
    | _ => some .kinds
  | .wrapb a =>
    match regs[a]? with
    | some (.lc _) => Option.none
    | _ => some .kinds
  | .wrapx _ => some .kinds
  | .bin op a b =>
    match regs[a]?, regs[b]? with
    | some x, some y => pyGapBin op x y
    | _, _ => some .kinds
  | .un op a =>
    match regs[a]? with
    | some x => pyGapUn op x
    | Option.none => some .kinds
  | .call m self args =>
    match regs[self]?, pyArgs regs args with
    | some x, some as => pyGapCall m x as
    | _, _ => some .kinds
  | .ite c t f =>
    match regs[c]?, regs[t]?, regs[f]? with
    | some (.int _), some _, some _ => Option.none
    | some (.lcb _), some tv, some fv =>
      if t == f || (tv.isSc && fv.isSc) then Option.none else some .kinds
    | some _, some _, some _ => if t == f then Option.none else some .kinds
    | _, _, _ => some .kinds
  | .list _ => Option.none
  | .arr _ => Option.none
  | .idx a _ =>
    match regs[a]? with
    | some (.list _) => Option.none
    | some (.tuple _) => Option.none
    | _ => some .kinds
  | .aget a i =>
    match regs[a]?, regs[i]? with
    | some (.list _), some (.int _) => Option.none
    | some (.list _), some (.lc _) => Option.none
    | _, _ => some .kinds
  | .aset a i v =>
    match regs[a]?, regs[i]?, regs[v]? with
    | some (.list _), some (.int _), some _ => Option.none
    | some (.list _), some (.lc _), some _ => Option.none
    | _, _, _ => some .kinds
  | .genter _ => some .kinds
  | .gleave => some .kinds
  | .setBl _ => Option.none
  | .setRes _ => Option.none
  | .setIgn _ => some .kinds

/-- replay of `runAux`: every executed instruction (including the one that raises, if any) is
covered -/
def pySupAux : List Instr → List Val → List GuardBak → St → Bool
  | [], _, _, _ => true
  | i :: is, regs, frames, s =>
    (i.pyGap regs).isNone &&
    match step regs frames i s with
    | .ok ((v, regs', frames'), s') => pySupAux is (regs' ++ [v]) frames' s'
    | .error _ => true

/-- **supported operand kinds** along the run of `prog` from `s0`: decidable; see `Instr.pyGap` -/
def PySupported (s0 : St) (prog : List Instr) : Prop := pySupAux prog [] [] s0 = true

instance (s0 : St) (prog : List Instr) : Decidable (PySupported s0 prog) :=
  inferInstanceAs (Decidable (_ = true))

/-- `0 ≤ x < 2^bl`: what `to_bits` accepts -/
def inBits (bl : Nat) (x : Int) : Bool := decide (0 ≤ x) && decide (x < 2 ^ bl)
/-- `|d| < 2^bl`: what `check_positive` accepts -/
def fitsAbs (bl : Nat) (d : Int) : Bool := decide (Py.bitLength d ≤ bl)
/-- `d` is zero or invertible modulo `p`: what `check_zero` accepts -/
def nzModP (p d : Int) : Bool := decide (d = 0) || decide (d % p ≠ 0)
def is01 (x : Int) : Bool := decide (x = 0) || decide (x = 1)

/-- **the documented domain of a binary operator** on the reference values `x`, `y` (`ba`, `bb`:
the operand is a boolean; `sb`: the right operand is a SECRET integer), bit length `bl`, modulus `p`.
These are the exact bounds the per-operator totality lemmas need:
* comparisons: the difference the gadget range-checks fits: `|y-x-1|` (`<`), `|y-x|` (`<=`),
  `|x-y-1|` (`>`), `|x-y|` (`>=`) below `2^bl`; `==`, `!=`: `x-y` is zero or non-zero mod `p`;
  a boolean operand coerces the other one, which must be 0/1;
* `//`, `%`, `divmod`: `0 < y ≤ 2^bl` (a NEGATIVE divisor raises: recorded deviation C05-neg-divisor;
  a zero divisor raises in Python too);
* `/`: `y` not a multiple of `p` (`y ≠ 0` and exactness are already needed by the reference);
* `**`: public exponent at most 300 (bound of the model); SECRET exponent in `[0, 2^bl)` (it is
  bit-decomposed at the current bit length; the squares and products are reduced mod `p`, no bound);
* `<<`: public count at most 4096 (bound of the model); SECRET count in `[0, 2^bl)`;
* `>>`: public count: `0 ≤ x < 2^bl`; SECRET count `y`: `0 ≤ y ≤ bl` (the gadget floor-divides by the
  secret `2^y`, a divisor that must lie in `(0, 2^bl]` as for `//`; no bound on `x`);
* `&`, `|`, `^`: both operands in `[0, 2^bl)`, 0/1 next to a boolean. -/
def pyDomBin (p : Int) (bl : Nat) (op : BinOp) (ba bb sb : Bool) (x y : Int) : Bool :=
  match op with
  | .add | .sub | .mul => true
  | .truediv => decide (y % p ≠ 0)
  | .floordiv | .mod | .divmod => decide (0 < y) && decide (y ≤ 2 ^ bl)
  | .pow => if sb then inBits bl y else decide (y ≤ 300)
  | .lshift => if sb then inBits bl y else decide (y ≤ 4096)
  | .rshift => if sb then decide (0 ≤ y) && decide (y ≤ bl) else inBits bl x
  | .band | .bxor | .bor => inBits bl x && inBits bl y && (!ba || is01 y) && (!bb || is01 x)
  | .lt => fitsAbs bl (y - x - 1) && (!ba || is01 y) && (!bb || is01 x)
  | .le => fitsAbs bl (y - x) && (!ba || is01 y) && (!bb || is01 x)
  | .gt => fitsAbs bl (x - y - 1) && (!ba || is01 y) && (!bb || is01 x)
  | .ge => fitsAbs bl (x - y) && (!ba || is01 y) && (!bb || is01 x)
  | .eq | .ne => nzModP p (x - y) && (!ba || is01 y) && (!bb || is01 x)

/-- `x.assert_lt(y)`, …: the asserted relation HOLDS on the reference values, and the difference
the gadget range-checks fits the bit length exactly as for the comparison operator (`assert_ne`:
the difference is invertible modulo `p`) -/
def pyDomAssertCmp (p : Int) (bl : Nat) (m : Meth) (x y : Int) : Bool :=
  match m with
  | .assertLt => decide (x < y) && fitsAbs bl (y - x - 1)
  | .assertLe => decide (x ≤ y) && fitsAbs bl (y - x)
  | .assertGt => decide (y < x) && fitsAbs bl (x - y - 1)
  | .assertGe => decide (y ≤ x) && fitsAbs bl (x - y)
  | .assertEq => decide (x = y)
  | .assertNe => decide (x ≠ y) && decide ((x - y) % p ≠ 0)
  | _ => true

/-- **the documented domain of a method call**.  The assertion methods: the asserted relation holds
(an assertion whose relation is false raises by design: C03) and the range-checked differences fit:
`assert_zero`: `x = 0`; `assert_nonzero`: `x` non-zero modulo `p`; `assert_positive(n)`:
`0 ≤ x < 2^n`, `n ≤ 4096`; `assert_lt/le/gt/ge/eq/ne(y)`: `pyDomAssertCmp`, and `y` is 0/1 when
`x` is a boolean; `assert_range(lo, hi)`: `lo ≤ x < hi` with `x - lo` and `hi - x - 1` below `2^bl`. -/
def pyDomCall (p : Int) (bl : Nat) (m : Meth) (self : PyVal) (args : List PyVal) : Bool :=
  match m with
  | .toBits =>
    match pyWidth bl args with
    | some n => decide (n ≤ 4096)
    | Option.none => false
  | .checkPositive =>
    match self.num?, pyWidth bl args with
    | some x, some n => decide (n ≤ 4096) && fitsAbs n x
    | _, _ => false
  | .checkZero | .checkNonzero =>
    match self.num? with
    | some x => nzModP p x
    | Option.none => false
  | .assertPositive =>
    match self.num?, pyWidth bl args with
    | some x, some n => decide (n ≤ 4096) && inBits n x
    | _, _ => false
  | .assertZero =>
    match self.num? with
    | some x => decide (x = 0)
    | Option.none => false
  | .assertNonzero =>
    match self.num? with
    | some x => decide (x ≠ 0) && decide (x % p ≠ 0)
    | Option.none => false
  | .assertLt | .assertLe | .assertEq | .assertNe | .assertGt | .assertGe =>
    match self.num?, args with
    | some x, [o] =>
      match o.num? with
      | some y => pyDomAssertCmp p bl m x y && (!self.isBool || is01 y)
      | Option.none => false
    | _, _ => false
  | .assertRange =>
    match self.num?, args with
    | some x, [lo, hi] =>
      match lo.num?, hi.num? with
      | some l, some h =>
        decide (l ≤ x) && decide (x < h) && fitsAbs bl (x - l) && fitsAbs bl (h - x - 1)
      | _, _ => false
    | _, _ => false
  | .val | .ifElse | .fromBits => true

/-- register `i` of the traced run holds a SECRET integer -/
def secretAt (kinds : List Val) (i : Nat) : Bool :=
  match kinds[i]? with
  | some (.lc _) => true
  | _ => false

/-- array access `a[i]` through a SECRET index: `0 ≤ i < len(a)` (a negative secret index raises;
a public one counts from the end, as in Python) and `len(a) ≤ p` (the one-hot selectors are zero
tests of `i - k`, `0 ≤ k < len(a)`: no non-zero multiple of `p` among them) -/
def pyDomIdx (p : Int) (regs : List PyVal) (a i : Nat) : Bool :=
  match regs[a]?, regs[i]? with
  | some (.list xs), some pi =>
    match pi.num? with
    | some k => decide (0 ≤ k) && decide (k < xs.length) && decide ((xs.length : Int) ≤ p)
    | Option.none => false
  | _, _ => false

/-- **the documented domain of one instruction** on the reference registers `regs`; `kinds`: the
registers of the traced run, looked at only for "is this operand a secret integer" (`secretAt`) -/
def pyDom (p : Int) (bl : Nat) (regs : List PyVal) (kinds : List Val) : Instr → Bool
  | .bin op a b =>
    match regs[a]?, regs[b]? with
    | some pa, some pb =>
      match pa.num?, pb.num? with
      | some x, some y => pyDomBin p bl op pa.isBool pb.isBool (secretAt kinds b) x y
      | _, _ => false
    | _, _ => false
  | .un .abs a =>
    match regs[a]? with
    | some pa =>
      match pa.num? with
      | some x => fitsAbs bl x
      | Option.none => false
    | Option.none => false
  | .call m self args =>
    match regs[self]?, pyGets regs args with
    | some ps, .ok pas => pyDomCall p bl m ps pas
    | _, _ => false
  | .ite c t f =>
    -- a condition outside {0,1} raises unless the two branches are the same register
    match regs[c]? with
    | some pc =>
      (t == f) || (match pc.num? with | some x => is01 x | Option.none => false)
    | Option.none => false
  | .aget a i => !secretAt kinds i || pyDomIdx p regs a i
  | .aset a i _ => !secretAt kinds i || pyDomIdx p regs a i
  | _ => true

/-- replay of the REFERENCE run next to the traced run (the latter only supplies the operand kinds):
every instruction both execute is inside the documented domain -/
def pyDomAux (p : Int) : List Instr → Nat → List PyVal → List Val → List GuardBak → St → Bool
  | [], _, _, _, _, _ => true
  | i :: is, bl, pregs, regs, frames, s =>
    pyDom p bl pregs regs i &&
    match pyStep bl pregs i, step regs frames i s with
    | .ok (v, pregs', bl'), .ok ((w, regs', frames'), s') =>
      pyDomAux p is bl' (pregs' ++ [v]) (regs' ++ [w]) frames' s'
    | _, _ => true

/-- **the documented domain** of the run of `prog` from `s0`: decidable; see `pyDomBin`,
`pyDomCall`, `pyDomIdx`.  The conditions are on the REFERENCE values (modulus and initial bit length
are those of `s0`); the traced run is replayed next to it only to tell a secret exponent / shift
count / index from a public one. -/
def InDomain (s0 : St) (prog : List Instr) : Prop := pyDomAux s0.p prog s0.bitlength [] [] [] s0 = true

instance (s0 : St) (prog : List Instr) : Decidable (InDomain s0 prog) :=
  inferInstanceAs (Decidable (_ = true))

end Pysnark
