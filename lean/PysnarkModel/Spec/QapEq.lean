/-!
# The qaptools equation grammar and its meaning (reference semantics for C12)

The text files written by `pysnark/qaptools/backend.py` are sequences of lines; a line is a
sequence of blank-separated tokens.  This file fixes the token alphabet and says what an equation
line *means* over the values of the wire file and the I/O file.  It shares nothing with the
emitters of `Model/Qaptools.lean` except the token type.

Grammar (one line):
* `A * B = C .`   product equation, `A`, `B`, `C` linear combinations `c1 w1 c2 w2 …`
  (an empty linear combination is printed as an empty token);
* `* = L`         linear equation `L = 0`;
* `[function] …`, `[ioblock] …`, `[glue] …`, `[external] …`  directives (no meaning as equations).

A wire is written `ctx/name`; in a per-function file the context is stripped and the bare `name`
refers to the context of the call the file is read for.  `ctx/one` is the built-in constant one.
-/
namespace Pysnark.QapEq

/-- a token of a line: the model keeps tokens structured, rendering is `Tok.render` -/
inductive Tok where
  /-- an integer literal (a coefficient) -/
  | num (c : Int)
  /-- a wire `ctx/loc` -/
  | wire (ctx loc : String)
  /-- any other token without `/` (`*`, `=`, `.`, `[function]`, names, the empty token) -/
  | sym (s : String)
  /-- a wire name with its context stripped (per-function files) -/
  | loc (l : String)
deriving DecidableEq, Repr

abbrev Line := List Tok
abbrev WireName := String × String
/-- a linear combination as a term list `(coefficient, wire)` -/
abbrev Terms := List (Int × WireName)
/-- an assignment of values to wire names; `none` = the name occurs in neither file -/
abbrev Asg := WireName → Option Int

def Tok.render : Tok → String
  | .num c => toString c
  | .wire x l => x ++ "/" ++ l
  | .sym s => s
  | .loc l => l

def Line.render (l : Line) : String := " ".intercalate (l.map Tok.render)

/-- first match in an association list -/
def lookupW (w : WireName) : List (WireName × Int) → Option Int
  | [] => none
  | (k, v) :: r => if k = w then some v else lookupW w r

/-- the assignment defined by a wire file and an I/O file (each a list `name: value`);
`ctx/one` is the built-in constant -/
def asgOf (wires ios : List (WireName × Int)) : Asg :=
  fun w => if w.2 = "one" then some 1 else lookupW w (wires ++ ios)

/-- `c1 w1 c2 w2 …`; empty tokens are skipped; a bare name refers to context `here` -/
def parseLC (here : String) : List Tok → Option Terms
  | [] => some []
  | .sym s :: r => if s = "" then parseLC here r else none
  | .num c :: .wire x l :: r => (parseLC here r).map ((c, (x, l)) :: ·)
  | .num c :: .loc l :: r => (parseLC here r).map ((c, (here, l)) :: ·)
  | _ => none

/-- `Σ c·a(w)`, `none` if a wire has no value -/
def evalLC (a : Asg) : Terms → Option Int
  | [] => some 0
  | (c, w) :: r =>
    match a w, evalLC a r with
    | some v, some s => some (c * v + s)
    | _, _ => none

/-- split at the first occurrence of the token `t` -/
def splitAt (t : Tok) : List Tok → Option (List Tok × List Tok)
  | [] => none
  | x :: r => if x = t then some ([], r) else (splitAt t r).map fun (a, b) => (x :: a, b)

inductive Stmt where
  | mul (a b c : Terms)
  | lin (l : Terms)
  | directive
deriving DecidableEq, Repr

def isDirective (s : String) : Bool :=
  s = "[function]" || s = "[ioblock]" || s = "[glue]" || s = "[external]"

/-- drop a trailing `.`; `none` if the line does not end with it -/
def dropDot : List Tok → Option (List Tok)
  | [] => none
  | [t] => if t = .sym "." then some [] else none
  | t :: r => (dropDot r).map (t :: ·)

def parseLine (here : String) (l : Line) : Option Stmt :=
  match l with
  | .sym s :: r =>
    if s = "*" then
      match r with
      | .sym e :: rest => if e = "=" then (parseLC here rest).map .lin else parseMul l
      | _ => parseMul l
    else if isDirective s then some .directive
    else parseMul l
  | _ => parseMul l
where
  parseMul (l : Line) : Option Stmt :=
    match splitAt (.sym "*") l with
    | none => none
    | some (a, r) =>
      match splitAt (.sym "=") r with
      | none => none
      | some (b, r2) =>
        match dropDot r2 with
        | none => none
        | some c =>
          match parseLC here a, parseLC here b, parseLC here c with
          | some a, some b, some c => some (.mul a b c)
          | _, _, _ => none

/-- the meaning of a statement modulo `p` under an assignment; `none` if a wire has no value -/
def Stmt.holds (p : Int) (a : Asg) : Stmt → Option Bool
  | .directive => some true
  | .lin l => (evalLC a l).map fun v => decide (v % p = 0)
  | .mul x y z =>
    match evalLC a x, evalLC a y, evalLC a z with
    | some u, some v, some w => some (decide ((u * v) % p = w % p))
    | _, _, _ => none

/-- line `l` is well formed, all its wires have values, and it is true modulo `p`
(directive lines are true) -/
def holds (p : Int) (a : Asg) (here : String) (l : Line) : Bool :=
  match parseLine here l with
  | some st => st.holds p a == some true
  | none => false

/-- the line is an equation (not a directive) -/
def isEquation : Line → Bool
  | .sym s :: _ => !isDirective s
  | _ => true

/-- contexts of the wires occurring in a line, in order -/
def ctxsOf : Line → List String
  | [] => []
  | .wire x _ :: r => x :: ctxsOf r
  | _ :: r => ctxsOf r

/-- strip the context of every wire -/
def stripCtx (l : Line) : Line :=
  l.map fun t => match t with
    | .wire _ n => .loc n
    | t => t

/-- the context a line belongs to: that of its last wire (`none` for a line without wires) -/
def lineKey (l : Line) : Option String := (ctxsOf l).getLast?

/-- all wires of the line live in one context -/
def oneCtx (l : Line) : Prop := ∀ c ∈ ctxsOf l, some c = lineKey l

/-- the equations of context `k` among the lines `D` (a line = its tokens after `strip`), with the
context stripped, in file order -/
def tracedEqs (D : List Line) (k : Option String) : List Line :=
  D.filterMap fun t => if isEquation t && !t.isEmpty && decide (lineKey t = k) then some (stripCtx t) else none

end Pysnark.QapEq

/-!
# The text of the equation file

What is on disk is text: a line is its tokens joined by single blanks (`Line.render`, the way Python's
`print(a, b, …)` writes them).  `QapText.parseLine` reads a line of `pysnark_eqs` back the way
`qapsplit.py` does: `split(" ")`; the first token decides the kind of line; in a linear combination tokens
alternate between a decimal integer and a wire name; a name is cut at its FIRST `/` into context and local
part (`str.partition("/")`).  It is written from the grammar at the head of this file and shares nothing
with the emitters.
-/
namespace Pysnark.QapText
open Pysnark.QapEq

/-- the text of a line -/
def render (l : Line) : String := Line.render l

/-- `str.split(" ")` -/
def splitBlank : List Char → List (List Char)
  | [] => [[]]
  | c :: r =>
    if c = ' ' then [] :: splitBlank r
    else
      match splitBlank r with
      | w :: ws => (c :: w) :: ws
      | [] => [[c]]

/-- a non-empty string of decimal digits -/
def readNat (w : List Char) : Option Nat :=
  if w ≠ [] ∧ w.all Char.isDigit = true then some (Nat.ofDigitChars 10 w 0) else none

/-- a decimal integer with an optional minus sign -/
def readInt : List Char → Option Int
  | '-' :: r => (readNat r).map fun n => -(n : Int)
  | w => (readNat w).map Int.ofNat

/-- `str.partition("/")`: `none` if there is no `/` -/
def cutSlash : List Char → Option (List Char × List Char)
  | [] => none
  | c :: r => if c = '/' then some ([], r) else (cutSlash r).map fun ab => (c :: ab.1, ab.2)

/-- a wire name `ctx/local`; a name without `/` is kept as a symbol; the empty token is the empty symbol -/
def readName (w : List Char) : Tok :=
  if w = [] then .sym ""
  else
    match cutSlash w with
    | some (c, l) => .wire (String.ofList c) (String.ofList l)
    | none => .sym (String.ofList w)

/-- `c1 w1 c2 w2 …` with empty tokens allowed in front of a term -/
def readLC : List (List Char) → Option (List Tok)
  | [] => some []
  | [] :: r => (readLC r).map (.sym "" :: ·)
  | [_] => none
  | c :: n :: r =>
    match readInt c with
    | some k => (readLC r).map fun t => .num k :: readName n :: t
    | none => none

/-- cut a token list at the first token equal to `k` -/
def cutTok (k : List Char) : List (List Char) → Option (List (List Char) × List (List Char))
  | [] => none
  | w :: r => if w = k then some ([], r) else (cutTok k r).map fun ab => (w :: ab.1, ab.2)

/-- drop a final token `.` -/
def dropDotTok : List (List Char) → Option (List (List Char))
  | [] => none
  | [w] => if w = ['.'] then some [] else none
  | w :: r => (dropDotTok r).map (w :: ·)

def symOf (w : List Char) : Tok := .sym (String.ofList w)

/-- `A * B = C .` -/
def readMul (ws : List (List Char)) : Option Line :=
  match cutTok ['*'] ws with
  | none => none
  | some (a, r1) =>
    match cutTok ['='] r1 with
    | none => none
    | some (b, r2) =>
      match dropDotTok r2 with
      | none => none
      | some c =>
        match readLC a, readLC b, readLC c with
        | some a, some b, some c => some (a ++ [.sym "*"] ++ b ++ [.sym "="] ++ c ++ [.sym "."])
        | _, _, _ => none

def readToks (ws : List (List Char)) : Option Line :=
  match ws with
  | [] => some []
  | w :: r =>
    if w = "[function]".toList then some (.sym "[function]" :: r.map symOf)
    else if w = "[glue]".toList then some (.sym "[glue]" :: r.map symOf)
    else if w = "[external]".toList then some (.sym "[external]" :: r.map symOf)
    else if w = "[ioblock]".toList then
      match r with
      | c :: bn :: names => some (.sym "[ioblock]" :: symOf c :: symOf bn :: names.map readName)
      | _ => none
    else if w = ['*'] then
      match r with
      | e :: lc => if e = ['='] then (readLC lc).map fun t => .sym "*" :: .sym "=" :: t else readMul ws
      | [] => none
    else readMul ws

/-- a line of the equation file, from its text -/
def parseLine (s : String) : Option Line := readToks (splitBlank s.toList)

end Pysnark.QapText
