import PysnarkModel.Model.Prog
/-!
# Specification vocabulary: R1CS satisfaction, coherence, the tracer invariant

Plain definitions (no Mathlib) shared by the property files.
-/
namespace Pysnark

/-- constraint `A * B = C` holds modulo `p` under assignment `w` -/
def Sat (p : Int) (w : Wire → Int) (c : Constraint) : Prop :=
  (LC.eval w c.1 * LC.eval w c.2.1 - LC.eval w c.2.2) % p = 0

/-- the wire has been allocated in state `s` -/
def Wire.allocated (s : St) : Wire → Prop
  | .one => True
  | .pub i => i < s.pub.length
  | .priv i => i < s.priv.length

/-- every key of the linear combination is allocated -/
def Scoped (s : St) (l : LC) : Prop := ∀ k ∈ l.keys, k.allocated s

/-- well-formed (dict invariant) and well-scoped -/
def LCok (s : St) (l : LC) : Prop := l.WF ∧ Scoped s l

/-- **C04's relation**: the Python-visible value is congruent, modulo the field prime, to the
wire expression evaluated on the recorded witness. -/
def Coh (s : St) (x : LinComb) : Prop := (x.value - LC.eval s.assign x.lc) % s.p = 0

def Good (s : St) (x : LinComb) : Prop := LCok s x.lc ∧ Coh s x

/-- every secret inside a dynamically typed value is `Good` -/
def GoodV (s : St) : Val → Prop
  | .lc x | .lcb x | .fxp x => Good s x
  | .list xs | .tuple xs => ∀ v ∈ xs, GoodV s v
  | _ => True

/-- state extension: more wires, more constraints, same field -/
structure St.le (s s' : St) : Prop where
  pub : s.pub <+: s'.pub
  priv : s.priv <+: s'.priv
  cons : s.cons <+: s'.cons
  p : s'.p = s.p

/-- the part of the state that gadgets never change -/
structure Frame (s s' : St) : Prop where
  guard : s'.guard = s.guard
  ign : s'.ignoreErrors = s.ignoreErrors
  one : s'.one = s.one
  bl : s'.bitlength = s.bitlength
  res : s'.resolution = s.resolution

/-- **The tracer invariant.**  `sat` is C01's conclusion; `ign` says that error suppression is
on exactly inside a false guard (i.e. the user has not switched error checking off). -/
structure Inv (s : St) : Prop where
  sat : ∀ c ∈ s.cons, Sat s.p s.assign c
  consOk : ∀ c ∈ s.cons, LCok s c.1 ∧ LCok s c.2.1 ∧ LCok s c.2.2
  oneNone : s.guard = none → s.one = oneSafe
  oneSome : ∀ g, s.guard = some g → s.one = g
  guardGood : ∀ g, s.guard = some g → Good s g ∧ (g.value = 0 ∨ g.value = 1)
  ign : s.ignoreErrors = true ↔ ∃ g, s.guard = some g ∧ g.value = 0

/-- The guard part of `Inv` for a frame saved by `add_guard` (what `restore_guard` will put back):
`ONE` is the saved guard (or `ONE_SAFE`), the saved guard is coherent and 0/1-valued, and error
suppression was on exactly when the saved guard was 0.  Monotone along state extension. -/
structure BakOk (s : St) (b : GuardBak) : Prop where
  oneNone : b.guard = none → b.one = oneSafe
  oneSome : ∀ g, b.guard = some g → b.one = g
  guardGood : ∀ g, b.guard = some g → Good s g ∧ (g.value = 0 ∨ g.value = 1)
  ign : b.ignoreErrors = true ↔ ∃ g, b.guard = some g ∧ g.value = 0

/-- The part of the invariant that survives user-selected ignore-errors mode (`set ign`): the
objects the tracer itself keeps alive (`LinComb.ONE`, the guard) are coherent.  Enough for C04. -/
structure Wk (s : St) : Prop where
  one : Good s s.one
  guard : ∀ g, s.guard = some g → Good s g

/-- `Wk` for a saved frame -/
structure BakWk (s : St) (b : GuardBak) : Prop where
  one : Good s b.one
  guard : ∀ g, b.guard = some g → Good s g

end Pysnark

namespace Pysnark

/-! ## the fragment of the program language for which the invariant is proved -/
def Instr.isSetIgn : Instr → Bool | .setIgn _ => true | _ => false
def Instr.isGenter : Instr → Bool | .genter _ => true | _ => false
def Instr.isTruediv : Instr → Bool | .bin .truediv _ _ => true | _ => false

/-- guarded regions are not nested (second argument: currently inside a region) -/
def guardsFlat : List Instr → Bool → Bool
  | [], _ => true
  | .genter _ :: is, inG => !inG && guardsFlat is true
  | .gleave :: is, inG => inG && guardsFlat is false
  | _ :: is, inG => guardsFlat is inG

/-- The fragment for which the invariant was proved FIRST (kept because lemmas of other properties
are stated over it).  It is no longer a limit of C01/C04: `run_inv_full` (Lemmas/InvRun.lean)
proves the invariant for every program without `set ign`, at any nesting depth of guarded regions
and with `/` anywhere (the effective guard `outer & inner` of a nested region is analysed in
Lemmas/InvNest.lean; the error-suppressed arm of `LinComb / int` is coherent since the repair
recorded as C04-div-const).  `set ign`: C01 is about runs in which the user has not switched error
checking off; coherence (C04) holds in that mode as well (`run_coh`, Lemmas/CohRun.lean). -/
def Fragment (prog : List Instr) : Prop :=
  (∀ i ∈ prog, i.isSetIgn = false) ∧ guardsFlat prog false = true ∧
  ((∃ i ∈ prog, i.isGenter = true) → ∀ i ∈ prog, i.isTruediv = false)

/-- the only restriction of C01: the user does not switch error checking off -/
def NoSetIgn (prog : List Instr) : Prop := ∀ i ∈ prog, i.isSetIgn = false

/-- the initial tracer state for modulus `p` -/
def St.init (p : Int) (bl res : Nat) : St := { p := p, bitlength := bl, resolution := res }

end Pysnark
