import PysnarkModel.Model.Prog
/-!
# Specification vocabulary: R1CS satisfaction, coherence, the tracer invariant

Plain definitions (no Mathlib) shared by the property files.
-/
namespace Pysnark

/-- constraint `A * B = C` holds modulo `p` under assignment `w` -/
def Sat (p : Int) (w : Wire → Int) (c : Constraint) : Prop :=
  (LC.eval w c.1 * LC.eval w c.2.1 - LC.eval w c.2.2) % p = 0

/-- the wire has been allocated in state `s` -/
def Wire.allocated (s : St) : Wire → Prop
  | .one => True
  | .pub i => i < s.pub.length
  | .priv i => i < s.priv.length

/-- every key of the linear combination is allocated -/
def Scoped (s : St) (l : LC) : Prop := ∀ k ∈ l.keys, k.allocated s

/-- well-formed (dict invariant) and well-scoped -/
def LCok (s : St) (l : LC) : Prop := l.WF ∧ Scoped s l

/-- **C04's relation**: the Python-visible value is congruent, modulo the field prime, to the
wire expression evaluated on the recorded witness. -/
def Coh (s : St) (x : LinComb) : Prop := (x.value - LC.eval s.assign x.lc) % s.p = 0

def Good (s : St) (x : LinComb) : Prop := LCok s x.lc ∧ Coh s x

/-- every secret inside a dynamically typed value is `Good` -/
def GoodV (s : St) : Val → Prop
  | .lc x | .lcb x | .fxp x => Good s x
  | .list xs | .tuple xs => ∀ v ∈ xs, GoodV s v
  | _ => True

/-- state extension: more wires, more constraints, same field -/
structure St.le (s s' : St) : Prop where
  pub : s.pub <+: s'.pub
  priv : s.priv <+: s'.priv
  cons : s.cons <+: s'.cons
  p : s'.p = s.p

/-- the part of the state that gadgets never change -/
structure Frame (s s' : St) : Prop where
  guard : s'.guard = s.guard
  ign : s'.ignoreErrors = s.ignoreErrors
  one : s'.one = s.one
  bl : s'.bitlength = s.bitlength
  res : s'.resolution = s.resolution

/-- **The tracer invariant.**  `sat` is C01's conclusion; `ign` says that error suppression is
on exactly inside a false guard (i.e. the user has not switched error checking off). -/
structure Inv (s : St) : Prop where
  sat : ∀ c ∈ s.cons, Sat s.p s.assign c
  consOk : ∀ c ∈ s.cons, LCok s c.1 ∧ LCok s c.2.1 ∧ LCok s c.2.2
  oneNone : s.guard = none → s.one = oneSafe
  oneSome : ∀ g, s.guard = some g → s.one = g
  guardGood : ∀ g, s.guard = some g → Good s g ∧ (g.value = 0 ∨ g.value = 1)
  ign : s.ignoreErrors = true ↔ ∃ g, s.guard = some g ∧ g.value = 0

end Pysnark

namespace Pysnark

/-! ## the fragment of the program language for which the invariant is proved -/
def Instr.isSetIgn : Instr → Bool | .setIgn _ => true | _ => false
def Instr.isGenter : Instr → Bool | .genter _ => true | _ => false
def Instr.isTruediv : Instr → Bool | .bin .truediv _ _ => true | _ => false

/-- guarded regions are not nested (second argument: currently inside a region) -/
def guardsFlat : List Instr → Bool → Bool
  | [], _ => true
  | .genter _ :: is, inG => !inG && guardsFlat is true
  | .gleave :: is, inG => inG && guardsFlat is false
  | _ :: is, inG => guardsFlat is inG

/-- *Excluded, and why.*  `set ign`: the property is about runs in which the user has not switched
error checking off.  Nested guarded regions: the effective guard `outer & inner` is computed by the
bitwise-AND gadget, whose value analysis is not done yet (composition missing, not known false).
`/` inside a program that also has a guarded region: under a false guard `LinComb / int` on a
non-multiple returns value 0 with wire expression `x·c⁻¹` (finding C04-div-const). -/
def Fragment (prog : List Instr) : Prop :=
  (∀ i ∈ prog, i.isSetIgn = false) ∧ guardsFlat prog false = true ∧
  ((∃ i ∈ prog, i.isGenter = true) → ∀ i ∈ prog, i.isTruediv = false)

/-- the initial tracer state for modulus `p` -/
def St.init (p : Int) (bl res : Nat) : St := { p := p, bitlength := bl, resolution := res }

end Pysnark
