import PysnarkModel.Model.Prog
/-!
# Specification vocabulary for C06: the shape of a run, and when two runs are "the same program
on different values"
-/
namespace Pysnark

/-- everything C06 says must not depend on the values processed: number and kind of variables,
the constraints with their coefficients, the wire expressions of guard and `ONE`, configuration.
(Witness values, Python-level values and the error-suppression flag are NOT part of it.) -/
structure Shape where
  npub : Nat
  npriv : Nat
  cons : List Constraint
  guard : Option LC
  one : LC
  bitlength : Nat
  resolution : Nat
  p : Int
deriving DecidableEq

def St.shape (s : St) : Shape :=
  ⟨s.pub.length, s.priv.length, s.cons, s.guard.map (·.lc), s.one.lc, s.bitlength, s.resolution, s.p⟩

/-- pointwise relation of two lists of equal length (core Lean has no `Forall2`) -/
inductive Forall2 {α β : Type} (R : α → β → Prop) : List α → List β → Prop
  | nil : Forall2 R [] []
  | cons {a b l1 l2} : R a b → Forall2 R l1 l2 → Forall2 R (a :: l1) (b :: l2)

/-- two values of the same shape: same constructors, equal plain values, equal wire expressions
(the Python-level values of secrets may differ) -/
inductive ValRel : Val → Val → Prop
  | none : ValRel .none .none
  | int (a : Int) : ValRel (.int a) (.int a)
  | flt (m : Int) (e : Nat) : ValRel (.flt m e) (.flt m e)
  | lc {x y : LinComb} : x.lc = y.lc → ValRel (.lc x) (.lc y)
  | lcb {x y : LinComb} : x.lc = y.lc → ValRel (.lcb x) (.lcb y)
  | fxp {x y : LinComb} : x.lc = y.lc → ValRel (.fxp x) (.fxp y)
  | list {xs ys : List Val} : Forall2 ValRel xs ys → ValRel (.list xs) (.list ys)
  | tuple {xs ys : List Val} : Forall2 ValRel xs ys → ValRel (.tuple xs) (.tuple ys)

/-- plain (non-secret, non-container) values: what an input literal or a revealed value is -/
def Val.isPlain : Val → Bool
  | .int _ | .flt _ _ => true
  | _ => false

/-- registers whose *values* may differ between the two runs: input literals, and values revealed
by `val()` -/
def Instr.isFree : Instr → Bool
  | .lit (.int _) | .lit (.flt _ _) => true
  | .call .val _ _ => true
  | _ => false

/-- the registers an instruction reads -/
def Instr.reads : Instr → List Nat
  | .lit _ => []
  | .mk _ a | .wrapb a | .wrapx a | .un _ a | .idx a _ | .genter a => [a]
  | .bin _ a b | .aget a b => [a, b]
  | .call _ self args => self :: args
  | .ite c t f | .aset c t f => [c, t, f]
  | .list xs | .arr xs => xs
  | .gleave | .setBl _ | .setRes _ | .setIgn _ => []

/-- `PrivVal(x)`, `PubVal(x)`, … : the argument only becomes a witness value.  `ConstVal(x)` is
NOT one of them: its argument is a coefficient of the circuit. -/
def Instr.isMk : Instr → Bool
  | .mk .const _ => false
  | .mk _ _ => true
  | _ => false

/-- instruction pairs of "the same program": identical, or two input literals of the same kind -/
def InstrRel (i j : Instr) : Prop :=
  i = j ∨ (∃ a b, i = .lit (.int a) ∧ j = .lit (.int b)) ∨ (∃ m e m' e', i = .lit (.flt m e) ∧ j = .lit (.flt m' e'))

/-- free registers (input literals, revealed values) are used only to create witnesses
(`PrivVal(x)`, `PubVal(x)`, …): a revealed or input value fed back as a *public* operand (shift
count, exponent, width, index, selector) makes the circuit depend on it by design. -/
def FreeOnlyMk (prog : List Instr) : Prop :=
  ∀ (k j : Nat) (ik ij : Instr), prog[k]? = some ik → ik.isFree = true → prog[j]? = some ij → k ∈ ij.reads → ij.isMk = true

def ProgRel (p1 p2 : List Instr) : Prop :=
  Forall2 InstrRel p1 p2 ∧ FreeOnlyMk p1 ∧ FreeOnlyMk p2

/-- register relation: same shape, or a free register holding plain values in both runs -/
def RegRel (i : Instr) (v1 v2 : Val) : Prop :=
  ValRel v1 v2 ∨ (i.isFree = true ∧ v1.isPlain = true ∧ v2.isPlain = true)

end Pysnark
