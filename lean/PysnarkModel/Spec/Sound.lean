import PysnarkModel.Spec.R1CS
/-!
# Specification vocabulary for C02/C03: the adversarial prover

Soundness quantifies over ALL assignments `w` to the wires (not only the recorded one): whatever
the prover puts on the auxiliary wires an operation introduced, if the constraints the operation
emitted hold under `w`, then the result's wire expression evaluates to the value determined by the
operands' wire expressions under the same `w`.
-/
namespace Pysnark

/-- the constraints added between two states -/
def newCons (s s' : St) : List Constraint := s'.cons.drop s.cons.length

/-- all constraints added between `s` and `s'` hold under the assignment `w` (modulo `p`) -/
def NewSat (s s' : St) (w : Wire → Int) : Prop := ∀ c ∈ newCons s s', Sat s.p w c

/-- congruence modulo the state's prime -/
def EqMod (p : Int) (a b : Int) : Prop := (a - b) % p = 0

end Pysnark
