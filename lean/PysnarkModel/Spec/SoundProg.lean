import PysnarkModel.Spec.Sound
/-!
# Specification vocabulary for the program-level soundness theorems (C02_determined, C03_program)

Plain executable definitions (no Mathlib), so that `decide +kernel` can evaluate them on concrete
programs.

* `Excl`: the reasons for which an instruction — together with the kinds (and, in two places, the
  values) of the operands it meets at run time — is outside the sound fragment.
* `Instr.excl`: the exclusion table.  Python is dynamically typed: whether `x & y` is the sound
  bit-decomposition gadget or the unconstrained `x & <int>` is decided by the run-time type of `y`,
  so the table is indexed by the operand kinds found in the registers.
* `SoundFragment s0 prog`: no executed instruction of the run of `prog` from `s0` is excluded
  (a decidable replay of `run`).
* `inputWires s0 prog`: the wires allocated directly by the `mk` instructions (`PrivVal(..)`,
  `PubVal(..)`, …) of the run: the inputs on which the adversarial assignment must agree with the
  recorded one.  Every other wire belongs to the prover.
* `DetV`: what "determined" means for a register value.
* `Claim`, `claimsOf`: the relation each executed assertion instruction claims, over the wire
  expressions of its operands (C03).
-/
namespace Pysnark

/-- why an instruction is outside the fragment of `C02_determined` -/
inductive Excl
  /-- `guarded` regions: soundness under a guard is the subject of C07; not yet composed -/
  | guardRegion
  /-- `set ign`: the property is about runs in which error checking is on -/
  | ignoreErrors
  /-- a literal that contains a `LinComb`: an arbitrary (value, wire expression) pair is not a value
  the API can produce -/
  | secretLiteral
  /-- UNSOUND, finding C02-divmod-quotient: `//`, `%`, `divmod` never range-check the quotient -/
  | divmodQuotient
  /-- UNSOUND, same finding: fixed-point `*`, `/`, `**` rescale through `//` -/
  | fxpRescale
  /-- UNSOUND, same finding: `x >> secret` is `x // 2**secret` -/
  | secretShift
  /-- UNSOUND, finding C02-bitwise-const: `&`, `|`, `^` with a public int return a fresh
  unconstrained witness -/
  | bitwiseConst
  /-- UNSOUND, finding C02-truediv-zero-mod-p: `a / b` for a secret `b` whose integer value is a
  nonzero multiple of the modulus passes the Python-level check (`b != 0`) and emits `b·r = a`
  with `b ≡ 0`: the quotient wire is free -/
  | zeroDivisorModP
  /-- an explicit width `n` (`to_bits(n)`, `check_positive(n)`, `set bitlength n`) with
  `2^(n+1) > p`: range representatives are no longer unique -/
  | widthTooLarge
deriving DecidableEq, Repr

mutual
/-- no `LinComb` inside (a plain Python literal); structural recursion, so that the kernel can
evaluate it -/
def Val.plain : Val → Bool
  | .lc _ | .lcb _ | .fxp _ => false
  | .list xs | .tuple xs => Val.plainL xs
  | _ => true
def Val.plainL : List Val → Bool
  | [] => true
  | x :: xs => x.plain && Val.plainL xs
end

def Val.isLc : Val → Bool | .lc _ => true | _ => false
def Val.isFxp : Val → Bool | .fxp _ => true | _ => false
def Val.isFlt : Val → Bool | .flt _ _ => true | _ => false
def Val.isInt : Val → Bool | .int _ => true | _ => false

/-- the secret divisor of `a / b`, if any (`LinComb / LinComb` and `int / LinComb`) -/
def zeroDivisor (p : Int) : Val → Bool
  | .lc y => y.value % p == 0
  | _ => false

/-- exponents 0 and 1 of a fixed-point power need no rescaling -/
def smallExp : Val → Bool
  | .int n => n ≤ 1
  | _ => false

/-- exclusions of a binary operator applied to the run-time values `a`, `b` -/
def exclBin (p : Int) (op : BinOp) (a b : Val) : Option Excl :=
  match op with
  | .add | .sub | .lt | .le | .eq | .ne | .gt | .ge => none
  | .mul =>
    if (a.isFxp && (b.isFxp || b.isFlt)) || (a.isFlt && b.isFxp) then some .fxpRescale else none
  | .truediv =>
    if a.isFxp || b.isFxp then some .fxpRescale
    else if zeroDivisor p b then some .zeroDivisorModP else none
  | .floordiv | .mod | .divmod => some .divmodQuotient
  | .pow => if a.isFxp && !smallExp b then some .fxpRescale else none
  | .lshift => none
  | .rshift => if b.isLc then some .secretShift else none
  | .band | .bxor | .bor =>
    if (a.isLc && b.isInt) || (a.isInt && b.isLc) then some .bitwiseConst else none

/-- the explicit width argument of `to_bits(n)` / `check_positive(n)` -/
def widthArg : List Val → Option Nat
  | [.int n] => some n.toNat
  | _ => none

/-- exclusions of a method call -/
def exclCall (p : Int) (m : Meth) (args : List Val) : Option Excl :=
  match m with
  | .toBits | .checkPositive =>
    match widthArg args with
    | some n => if (2 : Int) ^ (n + 1) ≤ p then none else some .widthTooLarge
    | none => none
  | _ => none

/-- **the exclusion table**: `none` = the instruction is in the fragment when it meets the
register file `regs` in state `s` -/
def Instr.excl (s : St) (regs : List Val) : Instr → Option Excl
  | .lit v => if v.plain then none else some .secretLiteral
  | .bin op a b =>
    match getReg regs a s, getReg regs b s with
    | .ok (x, _), .ok (y, _) => exclBin s.p op x y
    | _, _ => none
  | .call m _ args =>
    match getRegs regs args s with
    | .ok (as, _) => exclCall s.p m as
    | _ => none
  | .genter _ | .gleave => some .guardRegion
  | .setIgn _ => some .ignoreErrors
  | .setBl n => if (2 : Int) ^ (n + 1) ≤ s.p then none else some .widthTooLarge
  | _ => none

/-- replay of `runAux`: no executed instruction is excluded -/
def soundAux : List Instr → List Val → List GuardBak → St → Bool
  | [], _, _, _ => true
  | i :: is, regs, frames, s =>
    (i.excl s regs).isNone &&
    match step regs frames i s with
    | .ok ((v, regs', frames'), s') => soundAux is (regs' ++ [v]) frames' s'
    | .error _ => true

/-- **the sound fragment**: decidable; see `Instr.excl` for the table and `Excl` for the reasons -/
def SoundFragment (s0 : St) (prog : List Instr) : Prop := soundAux prog [] [] s0 = true

instance (s0 : St) (prog : List Instr) : Decidable (SoundFragment s0 prog) :=
  inferInstanceAs (Decidable (_ = true))

/-- diagnostic twin of `soundAux`: index and reason of the first excluded instruction -/
def firstExcl : List Instr → Nat → List Val → List GuardBak → St → Option (Nat × Excl)
  | [], _, _, _, _ => none
  | i :: is, k, regs, frames, s =>
    match i.excl s regs with
    | some e => some (k, e)
    | none =>
      match step regs frames i s with
      | .ok ((v, regs', frames'), s') => firstExcl is (k+1) (regs' ++ [v]) frames' s'
      | .error _ => none

/-- the wire a constructor instruction allocates in state `s` -/
def mkWire (s : St) : Kind → Option Wire
  | .priv | .privb | .privx => some (.priv s.priv.length)
  | .pub | .pubb | .pubx => some (.pub s.pub.length)
  | .const => none

def Instr.inputWire (s : St) : Instr → Option Wire
  | .mk k _ => mkWire s k
  | _ => none

/-- replay of `runAux` collecting the input wires -/
def inputsAux : List Instr → List Val → List GuardBak → St → List Wire
  | [], _, _, _ => []
  | i :: is, regs, frames, s =>
    match step regs frames i s with
    | .ok ((v, regs', frames'), s') => (i.inputWire s).toList ++ inputsAux is (regs' ++ [v]) frames' s'
    | .error _ => []

/-- **the input wires** of the run of `prog` from `s0` -/
def inputWires (s0 : St) (prog : List Instr) : List Wire := inputsAux prog [] [] s0

/-- **determined**: every secret inside the value evaluates, modulo `p`, to the same field element
under the adversarial assignment `w'` and under the recorded one `A`; secrets typed boolean
evaluate to 0 or 1 under `w'` -/
def DetV (p : Int) (w' A : Wire → Int) : Val → Prop
  | .lc x | .fxp x => EqMod p (LC.eval w' x.lc) (LC.eval A x.lc)
  | .lcb x => EqMod p (LC.eval w' x.lc) (LC.eval A x.lc) ∧
      (LC.eval w' x.lc % p = 0 ∨ LC.eval w' x.lc % p = 1)
  | .list xs | .tuple xs => ∀ v ∈ xs, DetV p w' A v
  | _ => True

/-- the Python-level value is what the wire expression evaluates to under `w'` -/
def ValV (p : Int) (w' : Wire → Int) : Val → Prop
  | .lc x | .fxp x | .lcb x => EqMod p (LC.eval w' x.lc) x.value
  | .list xs | .tuple xs => ∀ v ∈ xs, ValV p w' v
  | _ => True

/-! ## C03: the relation claimed by each executed assertion / declaration -/

/-- a relation over wire expressions -/
inductive Claim
  | zero (x : LC)
  | nonzero (x : LC)
  | eq (a b : LC)
  | ne (a b : LC)
  /-- `a < b` at width `n`: `b - a - 1 ∈ [0, 2^n)` -/
  | lt (n : Nat) (a b : LC)
  /-- `a ≤ b` at width `n`: `b - a ∈ [0, 2^n)` -/
  | le (n : Nat) (a b : LC)
  /-- `x ∈ [0, 2^n)` -/
  | nonneg (n : Nat) (x : LC)
  | bool (x : LC)
deriving Repr, DecidableEq

/-- the claim holds of the values under the assignment `w`, in the field of `p` elements -/
def Claim.holds (p : Int) (w : Wire → Int) : Claim → Prop
  | .zero x => EqMod p (LC.eval w x) 0
  | .nonzero x => ¬ EqMod p (LC.eval w x) 0
  | .eq a b => EqMod p (LC.eval w a) (LC.eval w b)
  | .ne a b => ¬ EqMod p (LC.eval w a) (LC.eval w b)
  | .lt n a b => ∃ S : Nat, S < 2 ^ n ∧ EqMod p (LC.eval w b - LC.eval w a - 1) S
  | .le n a b => ∃ S : Nat, S < 2 ^ n ∧ EqMod p (LC.eval w b - LC.eval w a) S
  | .nonneg n x => ∃ S : Nat, S < 2 ^ n ∧ EqMod p (LC.eval w x) S
  | .bool x => LC.eval w x % p = 0 ∨ LC.eval w x % p = 1

/-- the coercion an assertion method applies to its argument (`_ensurelc`, `_ensurebool`,
`_ensurefxp` of the receiver's class) -/
def coerceArg (self o : Val) : M LinComb :=
  match self with
  | .lc _ => ensurelc o
  | .lcb _ => ensurebool o
  | .fxp _ => ensurefxp o
  | _ => raise .attribute

def Val.secret? : Val → Option LinComb
  | .lc x | .lcb x | .fxp x => some x
  | _ => Option.none

/-- `x.assert_lt(y)` claims `x < y`, …, `x.assert_gt(y)` claims `y < x`, … (width `n`) -/
def cmpClaim (n : Nat) (m : Meth) (x y : LC) : List Claim :=
  match m with
  | .assertLt => [.lt n x y] | .assertLe => [.le n x y] | .assertEq => [.eq x y]
  | .assertNe => [.ne x y] | .assertGt => [.lt n y x] | .assertGe => [.le n y x]
  | _ => []

/-- claims of a method call on the receiver `self` in state `s` -/
def methClaims (s : St) (m : Meth) (self : Val) (args : List Val) : List Claim :=
  match self.secret? with
  | none => []
  | some x =>
    match m with
    | .assertZero => [.zero x.lc]
    | .assertNonzero => [.nonzero x.lc]
    | .assertPositive | .toBits => [.nonneg ((widthArg args).getD s.bitlength) x.lc]
    | .assertLt | .assertLe | .assertEq | .assertNe | .assertGt | .assertGe =>
      match args with
      | [o] =>
        match coerceArg self o s with
        | .ok (y, _) => cmpClaim s.bitlength m x.lc y.lc
        | .error _ => []
      | _ => []
    | .assertRange =>
      match args with
      | [lo, hi] =>
        match coerceArg self lo s with
        | .ok (l, s1) =>
          match coerceArg self hi s1 with
          | .ok (h, _) => [.le s.bitlength l.lc x.lc, .lt s.bitlength x.lc h.lc]
          | .error _ => []
        | .error _ => []
      | _ => []
    | _ => []

/-- **the claims of one instruction** executed in state `s` on the register file `regs`: the
assertion methods, `to_bits` (declaration as `n`-bit), the boolean declarations -/
def Instr.claims (s : St) (regs : List Val) : Instr → List Claim
  | .call m self args =>
    match getReg regs self s, getRegs regs args s with
    | .ok (x, _), .ok (as, _) => methClaims s m x as
    | _, _ => []
  | .wrapb a =>
    match getReg regs a s with
    | .ok (.lc x, _) => [.bool x.lc]
    | _ => []
  | .mk .privb _ => [.bool [(Wire.priv s.priv.length, 1)]]
  | .mk .pubb _ => [.bool [(Wire.pub s.pub.length, 1)]]
  | _ => []

/-- replay of `runAux` collecting the claims of the executed instructions -/
def claimsAux : List Instr → List Val → List GuardBak → St → List Claim
  | [], _, _, _ => []
  | i :: is, regs, frames, s =>
    match step regs frames i s with
    | .ok ((v, regs', frames'), s') => i.claims s regs ++ claimsAux is (regs' ++ [v]) frames' s'
    | .error _ => []

/-- **the claims** of the run of `prog` from `s0` -/
def claimsOf (s0 : St) (prog : List Instr) : List Claim := claimsAux prog [] [] s0

end Pysnark
