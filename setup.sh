#!/bin/sh
# MANIFEST.setup_cmd: regenerate the extracted constants from /repo and build the whole Lean project, once.
# Offline; nothing is fetched (Mathlib is on the toolchain's own search path).
set -e
cd "$(dirname "$0")"
/venv/bin/python -c 'import sys; sys.path.insert(0, "."); from harness import extract; print("extraction errors:", extract.run()[2])'
cd lean
lake build PysnarkModel 2>&1 | tail -5
