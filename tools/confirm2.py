#!/venv/bin/python
"""Development aid: confirm a round-2 seeded candidate in its scratch worktree and install it under /verif/seeded/.

usage: tools/confirm2.py C07        (looks at /tmp/mut2/C07/OUT/patch{1,2}.diff, demo{1,2}.py, notes.md)
For each candidate: worktree clean -> demo exits 0; patch applied -> test-suite 75 passed, demo exits non-zero; patch undone.
Confirmed candidates are copied to /verif/seeded/<ID>-<k>/ (k continues after the existing entries) with meta.json.
"""
import json, os, re, shutil, subprocess, sys

ROOT = os.environ.get("MUT_ROOT", "/tmp/mut2")
ROUND = int(os.environ.get("MUT_ROUND", "2"))


def sh(cmd, **kw):
    return subprocess.run(cmd, shell=True, capture_output=True, text=True, **kw)


def main():
    pid = sys.argv[1]
    wt = f"{ROOT}/{pid}"; out = f"{wt}/OUT"
    head = sh(f"git -C {wt} rev-parse --short HEAD").stdout.strip()
    prop = json.load(open(f"{out}/property.json"))
    existing = sorted(d for d in os.listdir("/verif/seeded") if d.startswith(pid + "-"))
    nxt = max([int(d.split("-")[1]) for d in existing] + [0]) + 1
    for n in (1, 2, 3):
        patch = f"{out}/patch{n}.diff"; demo = f"{out}/demo{n}.py"
        if not (os.path.exists(patch) and os.path.exists(demo)):
            continue
        sh(f"git -C {wt} checkout -- . ; rm -f {wt}/circuit.r1cs {wt}/witness.wtns {wt}/*.zkif {wt}/pysnark_*")
        st = sh(f"git -C {wt} status --porcelain --untracked-files=no").stdout.strip()
        res = {"candidate": f"{pid} patch{n}", "clean": st == ""}
        env = f"PYTHONPATH={wt}"
        r0 = sh(f"cd {wt} && {env} timeout 900 /venv/bin/python OUT/demo{n}.py")
        res["demo_clean_rc"] = r0.returncode
        a = sh(f"git -C {wt} apply {patch}")
        res["applies"] = a.returncode == 0
        if a.returncode == 0:
            t = sh(f"cd {wt} && timeout 900 /venv/bin/python -m pytest -q -p no:cacheprovider test 2>&1 | grep -E 'passed|failed|error' | tail -1")
            res["tests"] = t.stdout.strip()
            r1 = sh(f"cd {wt} && {env} timeout 900 /venv/bin/python OUT/demo{n}.py")
            res["demo_patched_rc"] = r1.returncode
            res["demo_tail"] = (r1.stdout + r1.stderr)[-400:]
        sh(f"git -C {wt} checkout -- . ; rm -f {wt}/circuit.r1cs {wt}/witness.wtns {wt}/*.zkif {wt}/pysnark_*")
        ok = (res.get("applies") and res["demo_clean_rc"] == 0 and res.get("demo_patched_rc", 0) != 0
              and re.search(r"\b75 passed", res.get("tests", "")) and "failed" not in res.get("tests", ""))
        res["confirmed"] = bool(ok)
        print(json.dumps(res))
        if ok:
            d = f"/verif/seeded/{pid}-{nxt}"; nxt += 1
            os.makedirs(d, exist_ok=True)
            shutil.copy(patch, f"{d}/patch.diff"); shutil.copy(demo, f"{d}/demo.py")
            if os.path.exists(f"{out}/notes.md"):
                shutil.copy(f"{out}/notes.md", f"{d}/notes.md")
            meta = {"property": pid, "round": ROUND,
                    "written_by": f"independent sub-agent given only the property record and a scratch worktree of /repo at {head} (nothing from /verif)",
                    "base_commit": head, "what_it_needs_to_manifest": f"see notes.md (section for patch {n})", "confirmed": True,
                    "what_was_run": {"tests_with_patch (cd <worktree> && /venv/bin/python -m pytest -q -p no:cacheprovider test)": res["tests"],
                                     "demo_without_patch_rc": res["demo_clean_rc"], "demo_with_patch_rc": res["demo_patched_rc"],
                                     "demo_tail": res["demo_tail"]}}
            json.dump(meta, open(f"{d}/meta.json", "w"), indent=1)
            print("installed", d)


main()
