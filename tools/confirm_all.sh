#!/bin/sh
# development aid: confirm every seeded candidate in its scratch worktree (tests pass with the patch,
# demo exits 0 without it and non-zero with it); writes /tmp/mut/confirm.jsonl
out=/tmp/mut/confirm.jsonl; : > $out
for i in 01 02 03 04 05 06 07 08 09 10 11 12 13 14 15 16 17 18 19 20; do
  for n in 1 2 3; do
    if [ -f /tmp/mut/C$i/OUT/patch$n.diff ]; then
      /verif/tools/seedrun.py /tmp/mut/C$i/OUT $n --confirm | tr '\n' ' ' >> $out; echo >> $out
    fi
  done
done
