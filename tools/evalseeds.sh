#!/bin/sh
# development aid: tools/evalseeds.sh <tag> <seed-name>...   (runs each seed against its own property's check, records, prints one line each)
tag=$1; shift
mkdir -p /root/runlogs
for s in "$@"; do echo "$s ${s%%-*}"; done | xargs -P ${EVAL_P:-6} -L1 sh -c 'tools/seedrun2.py seeded/$0 $1 --record > /root/runlogs/'$tag'-$0.json 2>&1'
for s in "$@"; do /venv/bin/python - /root/runlogs/$tag-$s.json <<'PY'
import json,sys
try:
    j=json.loads([l for l in open(sys.argv[1]) if l.startswith('{')][-1])
    n=j['seeded']
    for k,v in j.items():
        if isinstance(v,dict): print(n,k,'rc',v['rc'],v['s'],'s',repr(v['what'])[:160], (v.get('err') or '')[-120:])
    if 'error' in j: print(n,j['error'][:200])
except Exception as e: print(sys.argv[1],'ERR',e)
PY
done
