#!/usr/bin/env python3
"""development aid: add/replace entries of known_findings.json (never used by a check)"""
import json, sys
p = "/verif/known_findings.json"
d = json.load(open(p))
new = json.load(sys.stdin)
ids = {e["id"] for e in new}
d["findings"] = [e for e in d["findings"] if e["id"] not in ids] + new
json.dump(d, open(p, "w"), indent=1)
print(len(d["findings"]), "entries")
