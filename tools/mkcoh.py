#!/usr/bin/env python3
"""development aid: (re)generate lean/PysnarkModel/Lemmas/Coh{Gadgets,Val,Run}.lean from the Inv* files.

The coherence-in-every-mode stack (C04 incl. user-selected ignore-errors mode) consists of the
compositional proofs of InvGadgets/InvVal/InvRun(second part) with the invariant `Inv` replaced by the weak
invariant `Wk`; only the lemmas with real content are written by hand (OVERRIDE below, and CohBase.lean,
which is not generated).  Run after changing InvGadgets.lean / InvVal.lean / the step lemma of InvRun.lean:
    python3 tools/mkcoh.py && (cd lean && lake build PysnarkModel.Props.C04)
"""
import os, re
HERE = os.path.dirname(os.path.abspath(__file__))
LEM = os.path.join(os.path.dirname(HERE), "lean", "PysnarkModel", "Lemmas")


def blocks(text):
    """split a Lean file into top-level blocks (doc comment / attributes merged with their declaration)"""
    lines = text.split('\n')
    starts = [i for i, l in enumerate(lines)
              if re.match(r'^(theorem|def|macro|structure|section|end|variable|set_option|/--|/-!|-- |namespace|import|@\[)', l)]
    bl = ['\n'.join(lines[st:(starts[k + 1] if k + 1 < len(starts) else len(lines))]) for k, st in enumerate(starts)]
    merged, k = [], 0
    while k < len(bl):
        b = last = bl[k]
        while last.startswith(('/--', '@[', 'set_option', '-- ')) and k + 1 < len(bl):
            k += 1
            last = bl[k]
            b = b.rstrip('\n') + '\n' + last
        merged.append(b)
        k += 1
    return merged


def name_of(b):
    m = re.search(r'^(?:theorem|def|macro|structure)\s+("?[\w\.\'?!]+"?)', b, re.M)
    return m.group(1) if m else None


def drop_empty_sections(out):
    res = []
    for i, b in enumerate(out):
        nxt = out[i + 1] if i + 1 < len(out) else 'end'
        if b.startswith('/-! ##') and (nxt.startswith('/-! ##') or nxt.startswith('end ')):
            continue
        res.append(b)
    return res


# ------------------------------------------------------------------ CohGadgets
PURE = {'PrimeP', 'PrimeP.mono', 'invert_some', 'Inv.ign_false_of_one', 'Inv.one_value', 'Inv.isGuard_of_ign_false',
        'Inv.isGuard_false_of_ign', 'hob_ign', 'fromBitsAux_good', 'fromBits_good', 'Good.subFB', 'Good.addFB', 'bitsVal',
        'fromBitsAux_value', 'addFB_fromBits_value', 'bit_succ', 'bitsOf_succ', 'bitsVal_bitsOf', 'bitLength_le_iff',
        'natAbs_lt_pow', 'getSt_bind', "liftE_ok'", "pure_ok'", 'sat_of_good', 'fieldInverse_ok'}
OVERRIDE = {}
OVERRIDE['assertZero_spec'] = '''theorem assertZero_spec {s s' : St} {x : LinComb} {u : Unit} (hinv : Wk s) (_hx : Good s x)
    (h : assertZero x s = .ok (u, s')) : s.le s' ∧ Frame s s' ∧ Wk s' := by
  unfold assertZero at h
  split at h
  · cases h
  · exact addConstraint_spec hinv h
'''
OVERRIDE['checkPositive_spec'] = '''theorem checkPositive_spec {s s' : St} {x r : LinComb} {bits : Option Nat} (hinv : Wk s) (_hx : Good s x)
    (h : checkPositive x bits s = .ok (r, s')) : s.le s' ∧ Frame s s' ∧ Wk s' ∧ Good s' r := by
  unfold checkPositive at h
  rw [getSt_bind] at h
  obtain ⟨⟨retv, bitvs⟩, s1, h1, h⟩ := bind_ok.mp h
  obtain ⟨-, rfl⟩ := liftE_ok' h1
  dsimp only at h
  obtain ⟨ret, s2, h2, h⟩ := bind_ok.mp h
  obtain ⟨bs, s3, h3, h⟩ := bind_ok.mp h
  obtain ⟨u, s4, h4, h⟩ := bind_ok.mp h
  obtain ⟨rfl, rfl⟩ := pure_ok' h
  obtain ⟨le2, f2, inv2, g2, -, -⟩ := privValBool_spec hinv h2
  obtain ⟨le3, f3, inv3, -, -⟩ := mapM'_privValBool_spec _ _ _ _ inv2 h3
  obtain ⟨le4, f4, inv4⟩ := addConstraint_spec inv3 h4
  exact ⟨(le2.trans le3).trans le4, (f2.trans f3).trans f4, inv4, (g2.mono le3).mono le4⟩
'''
OVERRIDE["addConstraintUnsafe_spec'"] = ''
OVERRIDE['checkZero_spec'] = '''theorem checkZero_spec {s s' : St} {x r : LinComb} (hinv : Wk s) (_hP : PrimeP s) (_hx : Good s x)
    (h : checkZero x s = .ok (r, s')) : s.le s' ∧ Frame s s' ∧ Wk s' ∧ Good s' r := by
  unfold checkZero at h
  obtain ⟨ret, s1, h1, h⟩ := bind_ok.mp h
  obtain ⟨w, s2, h2, h⟩ := bind_ok.mp h
  obtain ⟨-, rfl⟩ := fieldInverse_ok h2
  obtain ⟨wit, s3, h3, h⟩ := bind_ok.mp h
  obtain ⟨u1, s4, h4, h⟩ := bind_ok.mp h
  obtain ⟨u2, s5, h5, h⟩ := bind_ok.mp h
  obtain ⟨le1, f1, inv1, g1, -⟩ := privVal_spec hinv h1
  obtain ⟨le3, f3, inv3, -, -⟩ := privVal_spec inv1 h3
  obtain ⟨le4, f4, inv4⟩ := addConstraintUnsafe_spec inv3 h4
  obtain ⟨le5, f5, inv5⟩ := addConstraintUnsafe_spec inv4 h5
  obtain ⟨le6, f6, inv6, rfl, -⟩ := mkBool_spec inv5 ((((g1.mono le3).mono le4).mono le5)) h
  exact ⟨(((le1.trans le3).trans le4).trans le5).trans le6, (((f1.trans f3).trans f4).trans f5).trans f6,
    inv6, ((((g1.mono le3).mono le4).mono le5).mono le6)⟩
'''
OVERRIDE['assertNonzero_spec'] = '''theorem assertNonzero_spec {s s' : St} {x : LinComb} {u : Unit} (hinv : Wk s) (_hP : PrimeP s)
    (_hx : Good s x) (h : assertNonzero x s = .ok (u, s')) : s.le s' ∧ Frame s s' ∧ Wk s' := by
  unfold assertNonzero at h
  rw [getSt_bind] at h
  obtain ⟨w, s1, h1, h⟩ := bind_ok.mp h
  obtain ⟨-, rfl⟩ := liftE_ok' h1
  obtain ⟨wit, s2, h2, h⟩ := bind_ok.mp h
  obtain ⟨le2, f2, inv2, -, -⟩ := privVal_spec hinv h2
  obtain ⟨le3, f3, inv3⟩ := addConstraint_spec inv2 h
  exact ⟨le2.trans le3, f2.trans f3, inv3⟩
'''
OVERRIDE["truedivLI_spec'"] = '''/-- `LinComb / int` in every mode: exact quotient on the checked arm, `value·c⁻¹ mod p` with wire
expression `lc·c⁻¹` on the error-suppressed arm (the repaired code) -/
theorem truedivLI_spec {s s' : St} {a r : LinComb} {c : Int} (hinv : Wk s) (hP : PrimeP s)
    (ha : Good s a) (h : truedivLI a c s = .ok (r, s')) :
    s.le s' ∧ Frame s s' ∧ Wk s' ∧ Good s' r := by
  unfold truedivLI at h
  split at h
  · cases h
  · split at h
    · rename_i hm
      split at h
      · rename_i i hinvert
        simp only [Except.ok.injEq, Prod.mk.injEq] at h
        obtain ⟨rfl, rfl⟩ := h
        refine ⟨St.le.refl _, Frame.refl _, hinv, ⟨(ha.mulI i).1, ?_⟩⟩
        rw [Coh.iff_dvd]
        simp only [LC.eval_scale]
        obtain ⟨k1, e1⟩ := Coh.iff_dvd.mp ha.2
        obtain ⟨k2, e2⟩ := invert_some hP hinvert
        have hm' : Int.fmod a.value c = 0 := by
          simp only [Bool.and_eq_true, beq_iff_eq] at hm
          simpa [Py.mod] using hm.2
        have e3 := Int.mul_fdiv_cancel_of_fmod_eq_zero hm'
        refine ⟨i * k1 - Py.floordiv a.value c * k2, ?_⟩
        unfold Py.floordiv
        linear_combination i * e1 - a.value.fdiv c * e2 + i * e3
      · cases h
    · split at h
      · split at h
        · rename_i i hinvert
          simp only [Except.ok.injEq, Prod.mk.injEq] at h
          obtain ⟨rfl, rfl⟩ := h
          exact ⟨St.le.refl _, Frame.refl _, hinv, ⟨(ha.mulI i).1, (ha.mulI i).reduceValue.2⟩⟩
        · cases h
      · cases h
'''
OVERRIDE['truedivLI_spec'] = ''
OVERRIDE['truedivLL_spec'] = '''theorem truedivLL_spec {s s' : St} {a b r : LinComb} (hinv : Wk s) (_ha : Good s a) (_hb : Good s b)
    (h : truedivLL a b s = .ok (r, s')) : s.le s' ∧ Frame s s' ∧ Wk s' ∧ Good s' r := by
  unfold truedivLL at h
  rw [getSt_bind] at h
  obtain ⟨q, s1, h1, h⟩ := bind_ok.mp h
  obtain ⟨-, rfl⟩ := liftE_ok' h1
  obtain ⟨res, s2, h2, h⟩ := bind_ok.mp h
  obtain ⟨u, s3, h3, h⟩ := bind_ok.mp h
  obtain ⟨rfl, rfl⟩ := pure_ok' h
  obtain ⟨le2, f2, inv2, g2, -⟩ := privVal_spec hinv h2
  obtain ⟨le3, f3, inv3⟩ := addConstraint_spec inv2 h3
  exact ⟨le2.trans le3, f2.trans f3, inv3, g2.mono le3⟩
'''
OVERRIDE['divmodLL_spec'] = '''theorem divmodLL_spec {s s' : St} {a d : LinComb} {qr : LinComb × LinComb} (hinv : Wk s)
    (_ha : Good s a) (hd : Good s d) (h : divmodLL a d s = .ok (qr, s')) :
    s.le s' ∧ Frame s s' ∧ Wk s' ∧ Good s' qr.1 ∧ Good s' qr.2 := by
  unfold divmodLL at h
  split at h
  · cases h
  · obtain ⟨quo, s1, h1, h⟩ := bind_ok.mp h
    obtain ⟨res, s2, h2, h⟩ := bind_ok.mp h
    obtain ⟨rem, s3, h3, h⟩ := bind_ok.mp h
    obtain ⟨u4, s4, h4, h⟩ := bind_ok.mp h
    obtain ⟨u5, s5, h5, h⟩ := bind_ok.mp h
    obtain ⟨u6, s6, h6, h⟩ := bind_ok.mp h
    obtain ⟨rfl, rfl⟩ := pure_ok' h
    obtain ⟨le1, f1, inv1, g1, -⟩ := privVal_spec hinv h1
    obtain ⟨le2, f2, inv2, -, -⟩ := mulLL_spec inv1 g1 (hd.mono le1) h2
    obtain ⟨le3, f3, inv3, g3, -⟩ := privVal_spec inv2 h3
    have l13 := (le1.trans le2).trans le3
    have hq3 := (g1.mono le2).mono le3
    have hd3 := hd.mono l13
    obtain ⟨le4, f4, inv4⟩ := addConstraint_spec inv3 h4
    obtain ⟨le5, f5, inv5⟩ := assertLt_spec inv4 (g3.mono le4) (hd3.mono le4) h5
    obtain ⟨le6, f6, inv6⟩ := assertPositive_spec inv5 ((g3.mono le4).mono le5) h6
    have l46 := (le4.trans le5).trans le6
    exact ⟨l13.trans l46, (((((f1.trans f2).trans f3).trans f4).trans f5).trans f6), inv6,
      hq3.mono l46, g3.mono l46⟩
'''


def subst(b):
    b = re.sub(r'\bInv\b', 'Wk', b)
    return b.replace('.oneGood', '.one')


def gadgets():
    src = open(os.path.join(LEM, 'InvGadgets.lean')).read()
    out = ['''import PysnarkModel.Lemmas.CohBase
/-!
# Coherence in every mode: the gadgets of `Model/Gadgets.lean`

GENERATED by `tools/mkcoh.py` from `InvGadgets.lean`: the invariant `Inv` is replaced by the weak
invariant `Wk` (coherence of `LinComb.ONE` and of the guard only) and the satisfaction obligations
are deleted; the lemmas with real content (`check_positive`, `check_zero`, `assert_nonzero`, `/`,
`divmod`) are written by hand in the generator.  No lemma here has a hypothesis on the error mode or
on guards: the statements hold with error checking on, under false guards at any depth, and in
user-selected ignore-errors mode.  Hypotheses `Good s x` that a lemma does not need (its result is
a fresh wire) are kept, underscored, so that all lemmas have one shape: coherent operands in,
coherent results out.
-/
namespace Pysnark
namespace W
''']
    for b in blocks(src):
        n = name_of(b)
        if n is None:
            if b.startswith(('import', 'namespace', 'end Pysnark', '/-!\n# The gadgets')):
                continue
            if b.startswith('/-!') and 'small helpers' in b:
                continue
            out.append(b.rstrip('\n') + '\n')
            continue
        if n in PURE:
            continue
        if n in OVERRIDE:
            if OVERRIDE[n]:
                out.append(OVERRIDE[n])
            continue
        out.append(subst(b).rstrip('\n') + '\n')
    out.append('end W\nend Pysnark\n')
    open(os.path.join(LEM, 'CohGadgets.lean'), 'w').write('\n'.join(drop_empty_sections(out)))


# ------------------------------------------------------------------ CohVal
def val():
    src = open(os.path.join(LEM, 'InvVal.lean')).read()

    def sub(b):
        b = subst(b)
        b = re.sub(r'\bgood\b', 'goodw', b)
        return re.sub(r'\bpure_arm\b', 'pure_armw', b)
    out = ['''import PysnarkModel.Lemmas.CohGadgets
import PysnarkModel.Lemmas.InvVal
/-!
# Coherence in every mode: operator dispatch on dynamically typed values

GENERATED by `tools/mkcoh.py` from `InvVal.lean` by replacing `Inv` with the weak invariant `Wk`;
the proofs are the compositional proofs of that file, now over the `W.*` gadget lemmas (the arm
macros and the pure helper lemmas of `InvVal.lean` are shared).  `truedivV_spec` loses its
hypothesis on the error mode (`W.truedivLI_spec` covers both arms).
-/
namespace Pysnark
namespace W

/-- closes `Good s e` for an arithmetic expression `e` over `Good` hypotheses (weak invariant) -/
macro "goodw" : tactic => `(tactic| repeat' (first
  | assumption
  | exact Good.const _ _ | exact Good.zero _ | exact Good.oneSafe _
  | apply Good.subI | apply Good.rsubI | apply Good.addI | apply Good.sub | apply Good.add
  | apply Good.neg | apply Good.mulI
  | exact Wk.one (by assumption)))

set_option hygiene false in
macro "pure_armw" : tactic => `(tactic|
  (obtain ⟨rfl, rfl⟩ := pure_ok' h
   gv
   exact ret_spec hinv (by first | trivial | goodw)))
''']
    for b in blocks(src):
        n = name_of(b)
        if n is None:
            if b.startswith('/-! ##'):
                out.append(b.rstrip('\n') + '\n')
            continue
        if n.startswith('"'):
            continue          # macros are shared
        if not re.search(r'\bInv\b|hinv|inv1', b):
            continue          # pure helpers are shared
        b = sub(b)
        if n == 'truedivV_spec':
            b = b.replace("/-- `a / b`.  `hi`: errors are not being ignored (no false guard); see `truedivLI_spec'`. -/",
                          "/-- `a / b` in every mode -/")
            b = b.replace("    (hi : s.ignoreErrors = false) (ha : GoodV s a)", "    (ha : GoodV s a)")
            b = b.replace("truedivLI_spec' hinv hP hi ha", "truedivLI_spec hinv hP ha")
        out.append(b.rstrip('\n') + '\n')
    out.append('end W\nend Pysnark\n')
    open(os.path.join(LEM, 'CohVal.lean'), 'w').write('\n'.join(drop_empty_sections(out)))


# ------------------------------------------------------------------ CohRun
RUN_HEAD = '''import PysnarkModel.Lemmas.CohVal
import PysnarkModel.Lemmas.InvRun
/-!
# Coherence in every mode: programs (`run_coh`)

Every program of the instruction language — INCLUDING `set ign` (user-selected ignore-errors
mode), guarded regions nested to any depth with arbitrary guard values, `/` anywhere — keeps every
register coherent with its wire expression on the recorded witness, whether or not the run
completes.  This is C04 at full strength.  The step lemma and the run induction are GENERATED by
`tools/mkcoh.py` from the second part of `InvRun.lean`; the guard lemmas are written by hand.
-/
namespace Pysnark
namespace W

/-- binary operators in every mode -/
theorem binopV_spec {s s' : St} {op : BinOp} {a b r : Val} (hinv : Wk s) (hP : PrimeP s)
    (ha : GoodV s a) (hb : GoodV s b)
    (h : binopV op a b s = .ok (r, s')) : s.le s' ∧ Frame s s' ∧ Wk s' ∧ GoodV s' r := by
  cases op
  case truediv => exact truedivV_spec hinv hP ha hb h
  case add => exact addV_spec hinv ha hb h
  case sub => exact subV_spec hinv ha hb h
  case mul => exact mulV_spec hinv ha hb h
  case floordiv => exact divmodV_spec hinv ha hb h
  case mod => exact divmodV_spec hinv ha hb h
  case divmod => exact divmodV_spec hinv ha hb h
  case pow => exact powV_spec hinv hP ha hb h
  case lshift => exact lshiftV_spec hinv hP ha hb h
  case rshift => exact rshiftV_spec hinv hP ha hb h
  case band => exact bwV_spec hinv ha hb h
  case bxor => exact bwV_spec hinv ha hb h
  case bor => exact bwV_spec hinv ha hb h
  case lt => exact cmpV_spec hinv hP ha hb h
  case le => exact cmpV_spec hinv hP ha hb h
  case eq => exact cmpV_spec hinv hP ha hb h
  case ne => exact cmpV_spec hinv hP ha hb h
  case gt => exact cmpV_spec hinv hP ha hb h
  case ge => exact cmpV_spec hinv hP ha hb h

/-! ## guards -/
theorem Wk.setGuard {s : St} {b : GuardBak} (hb : BakWk s b) :
    Wk { s with guard := b.guard, ignoreErrors := b.ignoreErrors, one := b.one } :=
  ⟨hb.one.mono (le_setGuard _ _ _ _), fun g hg => (hb.guard g hg).mono (le_setGuard _ _ _ _)⟩

/-- `add_guard(cond)` at any depth, in any mode, with any guard value: the new guard (`cond` or
`guard & cond`) is coherent -/
theorem addGuardCore_spec {s s' : St} {cond : Val} {bak : GuardBak} (hinv : Wk s)
    (hc : GoodV s cond) (h : addGuardCore cond s = .ok (bak, s')) :
    s.le s' ∧ Wk s' ∧ BakWk s' bak := by
  unfold addGuardCore at h
  dsimp only at h
  split at h
  · rename_i c
    gv
    split at h
    · cases h
    · cases hg : s.guard with
      | none =>
        simp only [hg] at h
        simp only [Except.ok.injEq, Prod.mk.injEq] at h
        obtain ⟨rfl, rfl⟩ := h
        have hle := le_setGuard s (some c) (s.ignoreErrors || c.value == 0) c
        have hb' : BakWk s ⟨some c, s.ignoreErrors || c.value == 0, c⟩ :=
          ⟨hc, fun g hg' => by cases hg'; exact hc⟩
        have hbak := hinv.bakWk
        rw [hg] at hbak
        exact ⟨hle, Wk.setGuard hb', hbak.mono hle⟩
      | some g =>
        simp only [hg] at h
        cases hbw : bwLV .and g (.lc c) s with
        | error e => rw [hbw] at h; cases h
        | ok r =>
          obtain ⟨v, s1⟩ := r
          rw [hbw] at h
          obtain ⟨le1, f1, inv1, g1⟩ := bwLV_spec hinv (hinv.guard g hg) (GoodV_lc.mpr hc) hbw
          split at h
          · cases h
          · rename_i g' s2 heq
            simp only [Except.ok.injEq, Prod.mk.injEq] at heq h
            obtain ⟨rfl, rfl⟩ := heq
            obtain ⟨rfl, rfl⟩ := h
            gv
            have hle := le_setGuard s1 (some g') (s1.ignoreErrors || c.value == 0) g'
            have hb' : BakWk s1 ⟨some g', s1.ignoreErrors || c.value == 0, g'⟩ :=
              ⟨g1, fun x hx => by cases hx; exact g1⟩
            have hbak := hinv.bakWk.mono le1
            rw [hg] at hbak
            exact ⟨le1.trans hle, Wk.setGuard hb', hbak.mono hle⟩
          · cases h
  · split at h
    · cases h
    · split at h
      · cases h
      · simp only [Except.ok.injEq, Prod.mk.injEq] at h
        obtain ⟨rfl, rfl⟩ := h
        exact ⟨St.le.refl _, hinv, hinv.bakWk⟩
  · cases h

theorem addGuard_spec {s s' : St} {cond : Val} {bak : GuardBak} (hinv : Wk s)
    (hc : GoodV s cond) (h : addGuard cond s = .ok (bak, s')) :
    s.le s' ∧ Wk s' ∧ BakWk s' bak :=
  addGuardCore_spec hinv (GoodV_unwrapBoolCond' hc) h

theorem restoreGuard_spec {s s' : St} {bak : GuardBak} {u : Unit} (_hinv : Wk s) (hb : BakWk s bak)
    (h : restoreGuard bak s = .ok (u, s')) : s.le s' ∧ Wk s' := by
  unfold restoreGuard at h
  simp only [Except.ok.injEq, Prod.mk.injEq] at h
  obtain ⟨-, rfl⟩ := h
  exact ⟨le_setGuard _ _ _ _, Wk.setGuard hb⟩

theorem unwind_spec : ∀ (frames : List GuardBak) (s : St), Wk s → (∀ b ∈ frames, BakWk s b) →
    s.le (unwind s frames) ∧ Wk (unwind s frames)
  | [], s, hinv, _ => ⟨St.le.refl _, hinv⟩
  | b :: rest, s, _, hb => by
    unfold unwind
    have hle := le_setGuard s b.guard b.ignoreErrors b.one
    obtain ⟨le2, inv2⟩ := unwind_spec rest _ (Wk.setGuard (hb b (List.mem_cons_self ..)))
      (fun b' hb' => (hb b' (List.mem_cons_of_mem _ hb')).mono hle)
    exact ⟨hle.trans le2, inv2⟩

/-! ## the run invariant -/
'''
RUN_TAIL = '''theorem Wk.init (p : Int) (bl res : Nat) : Wk (St.init p bl res) :=
  ⟨Good.oneSafe _, fun g hg => by simp [St.init] at hg⟩

end W

/-- **Coherence for every program, in every mode, completed or not.**  No hypothesis on the
program at all besides plain-literal-ness (`hlit`): `set ign`, nested guards with arbitrary guard
values, `/`, everything. -/
theorem run_coh (p : Nat) (hp : p.Prime) (bl res : Nat) (prog : List Instr)
    (hlit : ∀ w, Instr.lit w ∈ prog → ∀ s, GoodV s w) :
    ∀ v ∈ (run (St.init p bl res) prog).regs, GoodV (run (St.init p bl res) prog).st v := by
  unfold run
  refine (W.runAux_coh prog 0 [] [] _ ?_ hlit).2
  exact ⟨W.Wk.init _ _ _, ⟨p, hp, rfl⟩, by simp, by simp⟩

theorem run_coh_plain (p : Nat) (hp : p.Prime) (bl res : Nat) (prog : List Instr)
    (hlit : ∀ w, Instr.lit w ∈ prog → w.noSecret = true) :
    ∀ v ∈ (run (St.init p bl res) prog).regs, GoodV (run (St.init p bl res) prog).st v :=
  run_coh p hp bl res prog (fun w hw _ => GoodV_of_noSecret w (hlit w hw))

/-- the objects the tracer keeps alive are coherent at the end of every run as well -/
theorem run_wk (p : Nat) (hp : p.Prime) (bl res : Nat) (prog : List Instr)
    (hlit : ∀ w, Instr.lit w ∈ prog → ∀ s, GoodV s w) : Wk (run (St.init p bl res) prog).st := by
  unfold run
  refine (W.runAux_coh prog 0 [] [] _ ?_ hlit).1
  exact ⟨W.Wk.init _ _ _, ⟨p, hp, rfl⟩, by simp, by simp⟩

end Pysnark
'''


def run():
    src = open(os.path.join(LEM, 'InvRun.lean')).read()
    B = {name_of(b): b for b in blocks(src) if name_of(b)}

    def sub(b):
        b = subst(b)
        b = re.sub(r'\bBakOk\b', 'BakWk', b)
        b = re.sub(r'\bRInvN\b', 'RWk', b)
        for a, c in [('addGuard_inv', 'addGuard_spec'), ('restoreGuard_inv', 'restoreGuard_spec'), ('unwind_inv', 'unwind_spec'),
                     ('binopV_inv', 'binopV_spec'), ('step_inv', 'step_spec'), ('runAux_inv_any', 'runAux_coh'),
                     ('(hinv.setBl n)', '⟨hinv.one, hinv.guard⟩'), ('(hinv.setRes n)', '⟨hinv.one, hinv.guard⟩')]:
            b = b.replace(a, c)
        return b
    out = [RUN_HEAD]
    rw = sub(B['RInvN']).replace("the tracer invariant, every register coherent", "the weak invariant, every register coherent") \
        .replace("satisfying the guard part of the invariant", "coherent")
    out.append(rw.rstrip('\n') + '\n')
    for n in ['RInvN.push', "RInvN.push'"]:
        out.append(sub(B[n]).rstrip('\n') + '\n')
    st = sub(B['step_inv'])
    st = st.replace(" (hset : i.isSetIgn = false)\n", "\n")
    st = st.replace("/-- one instruction, at any guard depth -/", "/-- one instruction, at any guard depth, `set ign` included -/")
    st = st.replace('''  case setIgn b => simp [Instr.isSetIgn] at hset''', '''  case setIgn b =>
    unfold step at h; simp only at h
    obtain ⟨u, s2, h2, h⟩ := bind_ok.mp h
    step_fin
    unfold modifySt at h2
    simp only [Except.ok.injEq, Prod.mk.injEq] at h2
    obtain ⟨-, rfl⟩ := h2
    exact hR.push' ⟨List.prefix_refl _, List.prefix_refl _, List.prefix_refl _, rfl⟩ ⟨hinv.one, hinv.guard⟩
      GoodV_none''')
    assert 'case setIgn b =>\n    unfold step' in st
    out.append(st.rstrip('\n') + '\n')
    ra = sub(B['runAux_inv_any'])
    ra = ra.replace("    (∀ i ∈ is, i.isSetIgn = false) →\n", "")
    ra = ra.replace("  | [], k, regs, frames, st, hR, _, _ => by", "  | [], k, regs, frames, st, hR, _ => by")
    ra = ra.replace("  | i :: is, k, regs, frames, st, hR, hset, hlit => by", "  | i :: is, k, regs, frames, st, hR, hlit => by")
    ra = ra.replace("step_spec hR (hset i hmem) (fun w hw", "step_spec hR (fun w hw")
    ra = ra.replace("        (fun j hj => hset j (List.mem_cons_of_mem _ hj))\n", "")
    out.append(ra.rstrip('\n') + '\n')
    out.append(RUN_TAIL)
    open(os.path.join(LEM, 'CohRun.lean'), 'w').write('\n'.join(out))


if __name__ == '__main__':
    gadgets()
    val()
    run()
    print("generated CohGadgets.lean, CohVal.lean, CohRun.lean")
