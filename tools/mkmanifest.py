#!/usr/bin/env python3
"""development aid: (re)generate MANIFEST.json from the table below"""
import json
ALL = [f"C{i:02d}" for i in range(1, 21)]
LEVEL = {
 "C10": ("machine-checked round-trip theorems (encode/decode, declared sizes, canonical elements, wire-numbering bijection, satisfaction transfer) for ALL traces and ALL integer witness values/coefficients, about a Lean model of snarkjsbackend.prove() that is compared byte-for-byte with the files the real prove() writes on every run; an independent Python reader re-checks every clause on the real files", "5/C10",
         "Lean proof (induction over traces, parser round-trip lemmas) + byte-exact correspondence with the real writer + independent decoder"),
 "C13": ("machine-checked: evaluation is a homomorphism for every expression tree over both backend LC classes (dict-merge and term-list), duplicate-free invariant preserved; the five modulus literals are re-extracted from the source on every run and proved equal to the published curve orders, which are proved prime by Pratt certificates; fieldinverse proved correct for every non-multiple of the prime (negative, unreduced) via Fermat; tied to the real classes by structural comparison of random expression trees per backend", "5/C13",
         "Lean proof (induction on expression trees, Pratt certificates via lucas_primality, Fermat) + regenerated constants + differential correspondence per backend"),
}
LEVEL.update({
 "C01": ("machine-checked invariant over ALL programs of the instruction language (every operator in every operand-kind combination, assertions, selection, arrays, guarded regions with either guard value), all inputs, bitlengths and primes: every constraint emitted is satisfied by the recorded witness (C01_partial, for the fragment: guarded regions not nested, no '/' next to a guarded region); the model is tied to the code by V+S+W correspondence on generated programs and the oracle evaluates every recorded constraint of the real run", "5/C01",
         "Lean proof (invariant by induction over the program, one preservation lemma per gadget) + differential correspondence + direct constraint evaluation on the real backend"),
 "C02": ("machine-checked gadget-level soundness against ALL assignments to ALL wires, all operand values, all widths, every prime (size side condition only for uniqueness): product, booleanity, zero test, sign/range gadget and the four order comparisons, bit decomposition, selection, exact division, bitwise and/or/xor, abs; the two unsound families are proved unsound by closed counterexamples (divmod quotient, bitwise with a constant); tied by S-level correspondence; the oracle enumerates the witness space of the real constraint system over p=97", "5/C02",
         "Lean proof over ZMod p (emission lemmas + field algebra) + exhaustive small-field witness-space search on the real R1CS"),
 "C03": ("machine-checked: for every assertion kind and declaration, any assignment satisfying the emitted constraints makes the asserted relation hold (so they are unsatisfiable when it is false), the width enforced is the width requested, the run-time checks are the integer relations, accepted assertions keep the invariant; oracle: accepted-at-run-time == circuit-satisfiable on operands on both sides of every boundary (exhaustive search over p=97)", "5/C03",
         "Lean proof over ZMod p + run-time/in-circuit relation comparison by exhaustive witness search on the real R1CS"),
 "C04": ("machine-checked invariant over all programs of the fragment, all intermediate and final values (every register, containers element-wise), also under false guards: reported value congruent to the wire expression on the recorded witness; linear arithmetic coherent in every mode; oracle evaluates every secret of every register of the real run, incl. ignore-errors mode", "5/C04",
         "Lean proof (coherence invariant by induction over the program) + differential correspondence + direct evaluation on the real backend"),
 "C06": ("machine-checked relational theorem over ALL programs of the instruction language and ALL pairs of runs from shape-equal states (values, witness and error-suppression flag may differ; input literals and revealed values differ): equal shapes at the end and equal wire expressions in every register (C06, no exclusions); oracle: two real runs of the same program with re-drawn inputs / checks off on invalid inputs / flipped secret conditions must have identical shapes", "5/C06",
         "Lean proof (relational Hoare rule over the tracer monad, one lemma per function, induction over the program) + S-level correspondence + two-run shape comparison on the real code"),
 "C08": ("machine-checked over ALL histories (trees of guarded()/try/raise/operation events, any depth, any guard values and kinds): the guard triple after a history entered through guarded() equals the triple before it, on normal and exceptional exit (C08_restore); error suppression nests as a disjunction, the outermost guard is the condition; closed counterexample for bare add_guard/restore_guard pairs (block API); oracle probes the real module globals around every region and compares pairs of runs with different guard values", "5/C08",
         "Lean proof (mutual structural induction over event trees) + history correspondence + direct probing of runtime.guard/_ignore_errors/LinComb.ONE"),
})
LEVEL.update({
 "C05": ("machine-checked, for every operand value, bitlength and modulus: the value returned by each traced integer/boolean operation equals the plain-Python expression (+, -, *, exact /, //, %, divmod, ** by a constant, <<, >>, &, |, ^ on non-negative operands, all six comparisons, zero tests, abs, selection, bit decomposition) whenever it returns, with totality lemmas for the core gadgets and operator-level dispatch theorems; every recorded deviation has a closed counterexample theorem and, where general, a theorem stating what is computed instead; oracle: plain-Python reference interpreter on the real code", "5/C05",
         "Lean proof (value lemmas per gadget, bit-arithmetic inductions) + V-level correspondence + plain-Python reference oracle"),
 "C14": ("machine-checked for all operand values, resolutions and operand-type combinations: fixed-point +,-,unary -,* by integers exact on representations, products floor(a*b/2^r), quotients floor(a*2^r/b), // and % on representations, comparisons agree with the order of the represented rationals, val() = representation/2^r, constructors scale by 2^r; general theorem + closed counterexample for the recorded deviation (integer secret on the left of < against a fixed-point value); oracle: Fraction reference on the real code", "5/C14",
         "Lean proof (representation arithmetic over Int, order transfer to Q) + V-level correspondence + Fraction reference oracle"),
 "C18": ("machine-checked over ALL scripts (any number of operations, termination event at any position, any earlier caught exits): prove runs at most once and over exactly the operations before the event; with autoprove off nothing is produced and the hook never fails; artefacts emitted iff exit status 0 for the well-behaved termination events (explicit decidable predicate); closed counterexamples for the recorded deviations (raise SystemExit, builtin exit, caught exits, sys.exit(256), sys.exit(0.0)); the model of the interposer and of CPython's exit rules is validated by one fresh interpreter per script on three file-writing backends", "5/C18",
         "Lean proof (case analysis over a finite event alphabet, unbounded script) + subprocess correspondence (status, artefacts, stderr)"),
 "C19": ("machine-checked over ANY registry and configuration (pre-imported set, environment value, loadability, IPython): a pre-imported registry module wins (first in registry order), a known environment name selects exactly its module or the import error propagates, an unknown name is reported and auto-detection follows, auto-detection picks the first loadable entry and is used only when nothing known was named; instantiated to the registry and import edges re-extracted from the source on every run (distinct names/modules, documented order); closed counterexample + general theorem for pre-imported derived modules; validated by one fresh interpreter per configuration", "5/C19",
         "Lean proof (list reasoning over the registry) + regenerated registry/import edges + subprocess correspondence"),
})
NOTE = {
 "C05": "trusted: Lean kernel; value lemmas are about the hint computations of the model, tied by V-level correspondence; documented domain for totality as stated in the evidence; deviations of the pinned code are listed in known_findings.json.",
 "C14": "trusted: Lean kernel; floats are dyadic literals with exact scaling (IEEE rounding not modelled); val() is exact only below 2^53.",
 "C18": "trusted: Lean kernel; CPython shutdown rules (which exits reach sys.exit/sys.excepthook, exit status per SystemExit argument, atexit) are modelled and validated only by the subprocess correspondence; libsnark's process_snark never exercised.",
 "C19": "trusted: Lean kernel; CPython import machinery modelled (loadability as a predicate); libsnark modules never loadable here; 'complete interface' is checked by reflection in the harness only.",
 "C01": "trusted: Lean kernel; hand-written model tied by correspondence (bounded by the generator); fragment exclusions named in Spec/R1CS.lean (nested guarded regions, '/' next to a guarded region) are covered by correspondence + oracle only; user-selected ignore-errors mode is outside the property.",
 "C02": "trusted: Lean kernel; emission lemmas tie the algebra to the model's own output; unguarded states only; the oracle's field is 97 (search space only).",
 "C03": "trusted: Lean kernel; unguarded states; relation statements are in the field (integer ordering follows when operands are range-bounded).",
 "C04": "trusted: as C01; user-selected ignore-errors mode, nested regions and '/' next to a region are covered by correspondence + oracle only.",
 "C06": "trusted: Lean kernel; the theorem needs both runs to complete and free registers (input literals, revealed values) to be used only as witness constructors' arguments; ConstVal arguments are circuit constants.",
 "C08": "trusted: Lean kernel; CPython's exception propagation is modelled by the (state, raised?) pair; the block API is represented by bare add_guard/restore_guard pairs; the value of the nested guard (AND gadget) is validated by correspondence only.",
 "C10": "trusted: Lean kernel; hand-written encoder model tied by byte comparison on generated programs and directly installed extreme traces; harness/r1csread.py; snarkjs itself absent. Size predicate Trace.WF (counts < 2^32, section < 2^64, p < 2^256) is an explicit hypothesis.",
 "C13": "trusted: Lean kernel; that the three literals in Spec/Curves.lean are the published group orders; hand-written LC models tied by structural comparison (insertion order, zero coefficients) on the real classes; libsnark not loadable here: not covered; flatbuffers stand-in only lets the zkinterface modules import.",
}
REASON_PENDING = "check under construction in this framework: not claimed until its theorems build and its check is quiet on the unchanged tree"

def main():
    checks = []
    for pid, (text, ref, tech) in sorted(LEVEL.items()):
        checks.append({"property_id": pid, "quick_cmd": f"./check {pid} --tier quick", "thorough_cmd": f"./check {pid} --tier thorough",
                       "evidence_file": f"evidence/{pid}.json", "replay_cmd_template": f"./check {pid} --replay {{path}}",
                       "engine": "lean-model+harness",
                       "level_claimed": {"category": "proof", "text": text, "design_ref": ref},
                       "level_note": NOTE[pid], "technique": tech})
    m = {"version": 1, "setup_cmd": "./setup.sh",
         "hooks": {"guard": "MEILOF_PYSNARK_VERIF", "enable": "no hooks are needed: every observation point is reachable from outside (module globals, in-memory backends, files in a scratch cwd, subprocess exit status)",
                   "baseline_off_cmd": "cd /repo && /venv/bin/python -m pytest -ra -q -p no:cacheprovider --timeout=900 --continue-on-collection-errors",
                   "source_commits": [], "add_only": True},
         "engines": [{"name": "lean-model+harness", "path": "lean/ + harness/", "serves_properties": sorted(LEVEL),
                      "kind_free_text": "Lean 4 model, theorems and line-protocol driver (lean/); Python harness driving the real pysnark, generators, oracles (harness/)"}],
         "checks": checks,
         "notes": "fix: commits in /repo are listed in known_findings.json (status fixed:). See DESIGN.md.",
         "not_applicable": [{"property_id": p, "reason": REASON_PENDING} for p in ALL if p not in LEVEL]}
    json.dump(m, open("/verif/MANIFEST.json", "w"), indent=1)
    print("claimed:", sorted(LEVEL))

main()
