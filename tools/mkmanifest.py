#!/usr/bin/env python3
"""development aid: (re)generate MANIFEST.json from the table below"""
import json
ALL = [f"C{i:02d}" for i in range(1, 21)]
LEVEL = {
 "C10": ("machine-checked round-trip theorems (encode/decode, declared sizes, canonical elements, wire-numbering bijection, satisfaction transfer) for ALL traces and ALL integer witness values/coefficients, about a Lean model of snarkjsbackend.prove() that is compared byte-for-byte with the files the real prove() writes on every run; an independent Python reader re-checks every clause on the real files", "5/C10",
         "Lean proof (induction over traces, parser round-trip lemmas) + byte-exact correspondence with the real writer + independent decoder"),
 "C13": ("machine-checked: evaluation is a homomorphism for every expression tree over both backend LC classes (dict-merge and term-list), duplicate-free invariant preserved; the five modulus literals are re-extracted from the source on every run and proved equal to the published curve orders, which are proved prime by Pratt certificates; fieldinverse proved correct for every non-multiple of the prime (negative, unreduced) via Fermat; tied to the real classes by structural comparison of random expression trees per backend", "5/C13",
         "Lean proof (induction on expression trees, Pratt certificates via lucas_primality, Fermat) + regenerated constants + differential correspondence per backend"),
}
NOTE = {
 "C10": "trusted: Lean kernel; hand-written encoder model tied by byte comparison on generated programs and directly installed extreme traces; harness/r1csread.py; snarkjs itself absent. Size predicate Trace.WF (counts < 2^32, section < 2^64, p < 2^256) is an explicit hypothesis.",
 "C13": "trusted: Lean kernel; that the three literals in Spec/Curves.lean are the published group orders; hand-written LC models tied by structural comparison (insertion order, zero coefficients) on the real classes; libsnark not loadable here: not covered; flatbuffers stand-in only lets the zkinterface modules import.",
}
REASON_PENDING = "check under construction in this framework: not claimed until its theorems build and its check is quiet on the unchanged tree"

def main():
    checks = []
    for pid, (text, ref, tech) in sorted(LEVEL.items()):
        checks.append({"property_id": pid, "quick_cmd": f"./check {pid} --tier quick", "thorough_cmd": f"./check {pid} --tier thorough",
                       "evidence_file": f"evidence/{pid}.json", "replay_cmd_template": f"./check {pid} --replay {{path}}",
                       "engine": "lean-model+harness",
                       "level_claimed": {"category": "proof", "text": text, "design_ref": ref},
                       "level_note": NOTE[pid], "technique": tech})
    m = {"version": 1, "setup_cmd": "./setup.sh",
         "hooks": {"guard": "MEILOF_PYSNARK_VERIF", "enable": "no hooks are needed: every observation point is reachable from outside (module globals, in-memory backends, files in a scratch cwd, subprocess exit status)",
                   "baseline_off_cmd": "cd /repo && /venv/bin/python -m pytest -ra -q -p no:cacheprovider --timeout=900 --continue-on-collection-errors",
                   "source_commits": [], "add_only": True},
         "engines": [{"name": "lean-model+harness", "path": "lean/ + harness/", "serves_properties": sorted(LEVEL),
                      "kind_free_text": "Lean 4 model, theorems and line-protocol driver (lean/); Python harness driving the real pysnark, generators, oracles (harness/)"}],
         "checks": checks,
         "notes": "fix: commits in /repo are listed in known_findings.json (status fixed:). See DESIGN.md.",
         "not_applicable": [{"property_id": p, "reason": REASON_PENDING} for p in ALL if p not in LEVEL]}
    json.dump(m, open("/verif/MANIFEST.json", "w"), indent=1)
    print("claimed:", sorted(LEVEL))

main()
