#!/venv/bin/python
"""Development aid (not a check): apply a seeded change to /repo, run the baseline tests, the
demonstration and the named checks, and undo the change straight afterwards.

usage: tools/seedrun.py <seeded-dir-or-OUT-dir> <n> <PID> [<PID> ...] [--confirm]
"""
import os, subprocess, sys, json, time

REPO = "/repo"


def sh(cmd, **kw):
    return subprocess.run(cmd, shell=True, capture_output=True, text=True, **kw)


def main():
    args = [a for a in sys.argv[1:] if not a.startswith("--")]
    confirm = "--confirm" in sys.argv
    d, n, pids = os.path.abspath(args[0]), args[1], args[2:]
    patch = os.path.join(d, f"patch{n}.diff") if os.path.exists(os.path.join(d, f"patch{n}.diff")) else os.path.join(d, "patch.diff")
    demo = os.path.join(d, f"demo{n}.py") if os.path.exists(os.path.join(d, f"demo{n}.py")) else os.path.join(d, "demo.py")
    assert sh(f"git -C {REPO} status --porcelain --untracked-files=no").stdout.strip() == "", "repo not clean"
    res = {"patch": patch}
    env = "PYTHONPATH=/repo QAPTOOLS_BIN=/verif/harness/stubs/qaptools"
    if confirm:
        # confirmation happens in the scratch worktree the change was written in (demos name it)
        wt = os.path.dirname(os.path.abspath(d).rstrip("/")) if os.path.basename(os.path.abspath(d).rstrip("/")) == "OUT" else None
        wt = os.environ.get("SEED_WORKTREE", wt)
        assert wt and os.path.isdir(os.path.join(wt, "pysnark")), "no worktree to confirm in"
        assert sh(f"git -C {wt} status --porcelain --untracked-files=no").stdout.strip() == "", "worktree not clean"
        wenv = f"PYTHONPATH={wt}"
        r = sh(f"cd {wt} && {wenv} /venv/bin/python {demo}")
        res["demo_clean_rc"] = r.returncode
        assert sh(f"git -C {wt} apply {os.path.abspath(patch)}").returncode == 0
        try:
            t = sh(f"cd {wt} && /venv/bin/python -m pytest -q -p no:cacheprovider test 2>&1 | grep -E 'passed|failed' | tail -1")
            res["tests"] = t.stdout.strip()
            r = sh(f"cd {wt} && {wenv} /venv/bin/python {demo}")
            res["demo_patched_rc"] = r.returncode
            res["demo_tail"] = (r.stdout + r.stderr)[-300:]
        finally:
            sh(f"git -C {wt} checkout -- . ; rm -f {wt}/circuit.r1cs {wt}/witness.wtns")
    a = sh(f"git -C {REPO} apply {patch}")
    if a.returncode != 0:
        print("patch does not apply:", a.stderr); return 2
    try:
        for pid in pids:
            t0 = time.time()
            r = sh(f"cd /verif && ./check {pid}")
            lines = [l for l in r.stdout.splitlines() if l.startswith(("VIOLATION", "KNOWN"))]
            res[pid] = {"rc": r.returncode, "lines": lines[:4], "s": round(time.time() - t0, 1),
                        "err": r.stderr[-300:] if r.returncode not in (0, 1) else ""}
    finally:
        sh(f"git -C {REPO} checkout -- . && rm -f {REPO}/circuit.r1cs.tmp")
        sh("rm -rf /tmp/seedtmp")
    if "--record" in sys.argv and os.path.exists(os.path.join(d, "meta.json")):
        m = json.load(open(os.path.join(d, "meta.json")))
        for pid in pids:
            m.setdefault("detected_by", {})[pid] = {"detected": res[pid]["rc"] == 1, "lines": res[pid]["lines"][:2]}
        json.dump(m, open(os.path.join(d, "meta.json"), "w"), indent=1)
    print(json.dumps(res, indent=1))


main()
