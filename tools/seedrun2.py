#!/venv/bin/python
"""Development aid (not a check): run checks against a seeded change WITHOUT touching /repo or /verif:
a scratch worktree of /repo gets the patch, a scratch copy of /verif runs the checks with PYSNARK_REPO
pointing at it.  Several of these can run in parallel.

usage: tools/seedrun2.py <seeded/NAME> <PID> [<PID> ...] [--record] [--tier quick|thorough]
"""
import json, os, shutil, subprocess, sys, time


def sh(cmd, **kw):
    return subprocess.run(cmd, shell=True, capture_output=True, text=True, **kw)


def main():
    args = [a for a in sys.argv[1:] if not a.startswith("--")]
    tier = "quick"
    if "--tier" in sys.argv:
        tier = sys.argv[sys.argv.index("--tier") + 1]; args.remove(tier)
    d = os.path.abspath(args[0]); pids = args[1:]
    name = os.path.basename(d.rstrip("/"))
    base = f"/tmp/seedrun/{name}-{os.getpid()}"
    os.makedirs(base, exist_ok=True)
    wt = os.path.join(base, "repo"); vf = os.path.join(base, "verif")
    res = {"seeded": name}
    try:
        r = sh(f"git -C /repo worktree add --detach {wt} HEAD")
        assert r.returncode == 0, r.stderr
        a = sh(f"git -C {wt} apply {d}/patch.diff")
        if a.returncode != 0:
            a = sh(f"git -C {wt} apply --3way {d}/patch.diff")
        if a.returncode != 0:
            res["error"] = "patch does not apply: " + a.stderr[-300:]
            print(json.dumps(res)); return 2
        sh(f"cp -a /verif {vf} && rm -rf {vf}/.git {vf}/replays")
        env = dict(os.environ, PYSNARK_REPO=wt)
        for pid in pids:
            t0 = time.time()
            r = subprocess.run(["./check", pid, "--tier", tier], cwd=vf, env=env, capture_output=True, text=True)
            lines = [l for l in r.stdout.splitlines() if l.startswith(("VIOLATION", "KNOWN"))]
            what = ""
            for l in lines:
                if l.startswith("VIOLATION") and "replay=" in l:
                    rp = os.path.join(vf, l.split("replay=")[1].split()[0])
                    try:
                        j = json.load(open(rp)); what = (j.get("what") or str(j.get("theorems_or_extraction_that_no_longer_check")))[:300]
                    except Exception:
                        pass
                    break
            res[pid] = {"rc": r.returncode, "lines": lines[:4], "what": what, "s": round(time.time() - t0, 1),
                        "err": r.stderr[-400:] if r.returncode not in (0, 1) else ""}
    finally:
        sh(f"git -C /repo worktree remove --force {wt}")
        shutil.rmtree(base, ignore_errors=True)
    if "--record" in sys.argv and os.path.exists(os.path.join(d, "meta.json")):
        m = json.load(open(os.path.join(d, "meta.json")))
        for pid in pids:
            if pid in res:
                m.setdefault("detected_by", {})[pid] = {"detected": res[pid]["rc"] == 1, "lines": res[pid]["lines"][:2],
                                                         "what": res[pid]["what"], "tier": tier}
        json.dump(m, open(os.path.join(d, "meta.json"), "w"), indent=1)
    print(json.dumps(res))


main()
