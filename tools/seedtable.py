#!/usr/bin/env python3
"""development aid: regenerate the seeded-change table of DESIGN.md (between the SEEDTABLE markers) from seeded/*/meta.json"""
import json, os, re, glob
rows = []
for d in sorted(glob.glob("/verif/seeded/*/")):
    name = os.path.basename(d.rstrip("/"))
    m = json.load(open(d + "meta.json"))
    what = ""
    notes = d + "notes.md"
    n = int(name.split("-")[1])
    if os.path.exists(notes):
        txt = open(notes).read()
        k = ((n - 1) % 3 + 1) if m.get("round") != 2 else (n - 3 if n - 3 in (1, 2, 3) else n)
        if m.get("round") in (2, 3, 4, 5, 6):
            k = None
            mm = re.search(r"section for patch (\d)", m.get("what_it_needs_to_manifest", ""))
            if mm: k = int(mm.group(1))
        else:
            mm = re.search(r"section for patch (\d)", m.get("what_it_needs_to_manifest", ""))
            k = int(mm.group(1)) if mm else None
        if k:
            mm = re.search(r"^#+\s*(?:[Pp]atch|[Cc]hange)\s*%d[^\n]*" % k, txt, flags=re.M)
            if mm:
                what = re.sub(r"^#+\s*", "", mm.group(0)).strip()
    det = m.get("detected_by", {})
    cells = []
    for pid, v in sorted(det.items()):
        if v.get("detected"):
            w = (v.get("what") or "").strip()
            kind = "correspondence/proof only (no-failing-input-found)" if w in ("", "[]") and any("no-failing" in l for l in v.get("lines", [])) else ("concrete input" if w not in ("", "[]") else "reported")
            cells.append(f"{pid}: {kind}")
        elif m.get("neutralised") and pid == m.get("property"):
            cells.append(f"{pid}: reported before the repair that made this change harmless; quiet on the repaired tree (see meta.json)")
        else:
            cells.append(f"{pid}: MISSED" if pid == m.get("property") else f"{pid}: quiet (not its property)")
    rows.append(f"| {name} | {what[:110].replace('|', '/')} | {'; '.join(cells) or 'not run'} |")
table = "| seeded change | what it is (author's heading) | checks run against it |\n|---|---|---|\n" + "\n".join(rows)
s = open("/verif/DESIGN.md").read()
a, b = "<!-- SEEDTABLE-BEGIN -->", "<!-- SEEDTABLE-END -->"
if a in s:
    s = s[:s.index(a) + len(a)] + "\n" + table + "\n" + s[s.index(b):]
else:
    s += "\n### 10.4 Seeded changes and which checks catch them\n\n" + a + "\n" + table + "\n" + b + "\n"
open("/verif/DESIGN.md", "w").write(s)
print(len(rows), "rows;", sum("MISSED" in r for r in rows), "with a miss")
