#!/usr/bin/env python3
"""development aid: regenerate the per-property status table of DESIGN.md (between the STATUS markers) from
MANIFEST.json, known_findings.json, lean/PysnarkModel/Props/*.lean and evidence/*.json"""
import json, re, os
man = json.load(open("/verif/MANIFEST.json"))
kf = json.load(open("/verif/known_findings.json"))["findings"]
rows = []
for c in sorted(man["checks"], key=lambda c: c["property_id"]):
    pid = c["property_id"]
    src = open(f"/verif/lean/PysnarkModel/Props/{pid}.lean").read()
    src = re.sub(r"/-.*?-/", "", src, flags=re.S)
    names = re.findall(r"^\s*theorem\s+([A-Za-z0-9_'.]+)", src, flags=re.M)
    ex = len(re.findall(r"^\s*example\b", src, flags=re.M))
    cex = [n for n in names if "_cex" in n or n.endswith("_false")]
    partial = [n for n in names if "_partial" in n]
    main = [n for n in names if n not in cex and n not in partial][:6]
    openf = [f["id"] for f in kf if f["property"] == pid and f.get("status") == "open"]
    fixed = [f["id"] for f in kf if f["property"] == pid and str(f.get("status", "")).startswith("fixed")]
    try:
        ev = json.load(open(f"/verif/evidence/{pid}.json"))["coverage"]
        evs = f"{ev.get('discharged')}/{ev.get('obligations')} obligations; {ev.get('evaluations')} cases, {ev.get('traces_validated_against_impl')} traces validated"
    except Exception:
        evs = ""
    rows.append(f"| {pid} | {len(names)} theorems + {ex} examples; e.g. {', '.join(main)} | {', '.join(partial) or '-'} | {len(cex)} | {', '.join(openf) or '-'} | {', '.join(fixed) or '-'} | {evs} |")
table = ("| id | theorems in Props/<id>.lean | `_partial` theorems | closed counterexamples | open findings (recorded) | fixed findings | last quick run |\n"
         "|---|---|---|---|---|---|---|\n" + "\n".join(rows))
s = open("/verif/DESIGN.md").read()
a, b = "<!-- STATUS-BEGIN -->", "<!-- STATUS-END -->"
if a in s:
    s = s[:s.index(a) + len(a)] + "\n" + table + "\n" + s[s.index(b):]
else:
    s += ("\n### 10.7 Per-property status as built (generated: tools/statustable.py)\n\nThe level claimed, technique and trusted base of each "
          "property are in MANIFEST.json (`level_claimed.text`, `technique`, `level_note`); what each run covered is in evidence/<id>.json.\n\n"
          + a + "\n" + table + "\n" + b + "\n")
open("/verif/DESIGN.md", "w").write(s)
print(len(rows))
