#!/bin/sh
# development aid: run every check for several seeds on the current tree; print only the runs that are not quiet
# usage: tools/sweep.sh "<seeds>" [tier] [pids...]
seeds="$1"; tier="${2:-quick}"; shift; shift
pids="${*:-C01 C02 C03 C04 C05 C06 C07 C08 C09 C10 C11 C12 C13 C14 C15 C16 C17 C18 C19 C20}"
mkdir -p /root/runlogs
for s in $seeds; do for p in $pids; do
  t0=$(date +%s)
  VERIF_SEED=$s ./check $p --tier $tier > /root/runlogs/sw-$p-$s.out 2> /root/runlogs/sw-$p-$s.err; rc=$?
  v=$(grep -c VIOLATION /root/runlogs/sw-$p-$s.out)
  if [ $rc -ne 0 ] || [ $v -ne 0 ]; then echo "NOT QUIET: $p seed=$s rc=$rc viol=$v t=$(( $(date +%s)-t0 ))"; grep -A1 VIOLATION /root/runlogs/sw-$p-$s.out /root/runlogs/sw-$p-$s.err | head -6; cp -r replays /root/runlogs/sw-$p-$s.replays 2>/dev/null; fi
done; done; echo sweep-done
